"""C08  Compile-time constant folding never changes what a template renders.

Obligation scheme (DESIGN section 5, C08)

  C08.fold.<Class>        for every Expr/Helper class with an `as_const`: the REAL `as_const` is executed symbolically
                          (children's as_const abstract: returns a constant or raises Impossible) AND the class's
                          emission schema is derived from the REAL visitor; on every returning as_const path the value is
                          the value the schema computes at run time from the same child constants.  The schema's meaning
                          comes from the specs of the runtime helpers it names (SPEC TABLE below).  A schema whose value
                          depends on something unknown at compile time (run-time autoescape flag in a volatile frame,
                          the context, an awaited async filter, a filter that is not registered) matches no constant, so a
                          returning as_const path there is a violation.  `raises_only_Impossible`: nothing but Impossible
                          leaves as_const (the optimizer catches nothing else).
                          Arithmetic classes reuse contracts.c20 (NoFold / routed emission / tables).
  C08.fold.default        every other Expr class inherits Expr.as_const, which raises Impossible
  C08.fold.signature      the real CodeGenerator.signature passes the argument children exactly as args_as_const
                          collects them (order, keys, * and **)
  C08.output.volatile / .finalize_order / .template_data / .groups
                          visit_Output, _output_child_to_const, _make_finalize (VC + emission)
  C08.const.roundtrip     has_safe_repr(v) => the text the real visit_Const writes evaluates back to v (table over a family)
  C08.optimizer           Optimizer.generic_visit replaces a node only by Const.from_untrusted(as_const(node)), only Expr;
                          C08.optimizer.forwards_eval_ctx.*: NodeVisitor.visit / generic_visit and NodeTransformer.generic_visit forward
                          (*args, **kwargs) - the eval context - unchanged to every child visit (list fields and node fields)
  C08.optimizeconst       (contracts.c20.OptimizeConst) folding wrapper skips volatile frames / missing optimizer
  C08.evalctx.*           visit_EvalContextModifier, visit_ScopedEvalContextModifier, EvalContext.save/revert
  C08.bounded.differential   bounded stand-in: template family rendered optimized / unoptimized / constants-as-variables

SPEC TABLE (meaning of the names a schema may mention; dependency specs = trusted base)
  str_join(seq)                 "".join(str(x) for x in seq)                        (runtime.str_join = concat(map(str, seq)))
  markup_join(seq)              "" for the empty sequence; otherwise NOT str_join (escapes plain items once an item has __html__)
  Markup(x), identity(x)        markupsafe.Markup(x); x
  environment.getattr/getitem   the same method as_const calls on eval_ctx.environment
  x[y]                          Python subscription (differs from environment.getitem when it raises)
  t_N = environment.filters[name] / tests[name]   the function as_const looks up under the same name
  context.eval_ctx              in a NON-volatile frame equal to the compile-time eval context (C08.evalctx); in a volatile
                                frame its autoescape flag is unknown at compile time; its `volatile` attribute is never set
                                by generated code (False)
  await auto_await(x)           x unless x is awaitable; a filter call is awaitable when the filter is an async variant or a
                                coroutine function; attribute/item lookups on constants are not awaitable (assumption)
  comparison operators          return a bool for compile-time constants (so `not result` means `result is False`)
"""
from __future__ import annotations

import ast
import inspect
import itertools
import json
import math
import operator as pyop
import os
import time
import traceback

import z3

from pyvc.contract import Task, VC, Res, FnTask, Outcome
from pyvc.emitcheck import EmitTask
from pyvc import emit, abstract as A, extract, models
from pyvc.values import Sym, Ref, HObj, HList, HDict, Exc, Event, State, Unsupported, CheckerError, sym, fresh, fresh_name
from pyvc.interp import Raised
from pyvc.smt import check_sat, to_term

import jinja2.nodes as N
import jinja2.compiler as C
from jinja2.utils import _PassArg

PROP = "C08"
ROOT = os.path.dirname(os.path.dirname(os.path.abspath(__file__)))

VOLATILE = z3.Bool("eval_ctx.volatile")
AUTOESCAPE = z3.Bool("eval_ctx.autoescape")
IS_ASYNC = z3.Bool("environment.is_async")
FUNC_KNOWN = z3.Bool("func.known")
FUNC_VARIANT = z3.Bool("func.jinja_async_variant")
FUNC_CORO = z3.Bool("func.is_coroutine_function")
PASS_ARG = z3.Int("func.pass_arg")
KW_DISJOINT = z3.Bool("explicit keywords disjoint from **dyn_kwargs")
from pyvc.values import Obj as KIND_SORT_OBJ
PASS_VALUES = [None, _PassArg.context, _PassArg.eval_context, _PassArg.environment]

CMP_NAMES = {"eq": "eq", "ne": "ne", "gt": "gt", "gteq": "ge", "lt": "lt", "lteq": "le", "in": "in", "notin": "notin"}
AST_CMP = {ast.Eq: "eq", ast.NotEq: "ne", ast.Gt: "gt", ast.GtE: "ge", ast.Lt: "lt", ast.LtE: "le", ast.In: "in", ast.NotIn: "notin"}


def implied(pc, term):
    return check_sat(list(pc) + [z3.Not(term)], 2000, 0, use_cvc5=False).status == "unsat"


def satisfiable(pc):
    return check_sat(list(pc), 2000, 0, use_cvc5=False).status != "unsat"


# =====================================================================================================
# specs shared by the as_const run and the emission run (so that both speak about the same symbolic flags)
# =====================================================================================================

class _SuperProxy:
    """zero-argument super() inside Filter.as_const"""


def install_const_specs(I):
    """dependency specs for what the real visit_Const asks about an opaque constant (math.isfinite, type(), int.bit_length, hex)"""
    isfinite_fn = z3.Function("math.isfinite", KIND_SORT_OBJ, z3.BoolSort())

    def isfinite(I_, st, args, kwargs, node):
        a = args[0]
        if isinstance(a, Sym) and a.k == "obj":
            return [(st, Sym(isfinite_fn(a.t), "bool"))]
        return [(st, math.isfinite(a))]

    I.specs[("fn", id(math.isfinite))] = isfinite

    # visit_Const (0a6e772): `type(val) is int and val.bit_length() >= 10_000` -> hex(val).  type() of the constant is opaque: the two
    # outcomes of the whole test are explored through a symbolic flag; hex(v) is another literal text of v (C08.const.roundtrip)
    base_type = I.specs.get(("fn", id(type)))

    class _OpaqueType:
        pass

    OPAQUE = _OpaqueType()

    def type_spec(I_, st, args, kwargs, node):
        if len(args) == 1 and isinstance(args[0], Sym) and args[0].k == "obj":
            s2 = st.fork()
            st.assume(z3.Bool("node.value is an int"))
            s2.assume(z3.Not(z3.Bool("node.value is an int")))
            return [(st, int), (s2, OPAQUE)]
        return base_type(I_, st, args, kwargs, node) if base_type else None

    I.specs[("fn", id(type))] = type_spec
    prev_method_obj = I.specs.get("method_obj")

    def method_obj(I_, st, args, kwargs, node):
        if args[1] == "bit_length":
            return [(st, fresh("bit_length", "int"))]
        return prev_method_obj(I_, st, args, kwargs, node) if prev_method_obj else None

    I.specs["method_obj"] = method_obj
    prev_ga = I.specs.get("getattr_obj")

    def getattr_bitlen(I_, st, args, kwargs, node):
        from pyvc.values import BoundMethod
        if args[1] == "bit_length":
            return [(st, BoundMethod(args[0], "bit_length"))]
        return prev_ga(I_, st, args, kwargs, node) if prev_ga else None

    I.specs["getattr_obj"] = getattr_bitlen
    I.specs[("fn", id(hex))] = lambda I_, st, args, kwargs, node: [(st, Sym(models.py_repr_obj(args[0].t), "str", {"repr"}))] if isinstance(args[0], Sym) else [(st, hex(args[0]))]



def install_common(I, owner=None):
    """Specs used in BOTH runs.  `owner` (a dict) receives the node reference for super()."""
    emit.install(I)
    func = sym("func", "obj", tags=("filter_func",))

    def funcmap_get(I_, st, args, kwargs, node):
        h = st.get(args[0])
        s2 = st.fork()
        st.assume(z3.Not(FUNC_KNOWN))
        st.note("filter/test unknown at compile time")
        st.trace.append(Event("call", "env_map.get", [h.path, args[1]], {}, None))
        s2.assume(FUNC_KNOWN)
        s2.note("filter/test known")
        s2.trace.append(Event("call", "env_map.get", [h.path, args[1]], {}, func))
        return [(st, None), (s2, func)]

    I.specs["_FuncMap.get"] = funcmap_get

    def from_obj(I_, st, args, kwargs, node):
        if args and args[0] is None:
            return [(st, None)]
        outs = []
        for i, v in enumerate(PASS_VALUES):
            s = st.fork()
            s.assume(PASS_ARG == i)
            s.note(f"pass_arg={v}")
            outs.append((s, v))
        return outs

    I.specs["jinja2.utils:_PassArg.from_obj"] = from_obj

    def iscoro(I_, st, args, kwargs, node):
        return [(st, Sym(FUNC_CORO, "bool"))]

    I.specs[("fn", id(inspect.iscoroutinefunction))] = iscoro

    install_const_specs(I)

    base_getattr_obj = I.specs.get("getattr_obj")

    def getattr_obj(I_, st, args, kwargs, node):
        o, name = args
        if name == "jinja_async_variant":
            s2 = st.fork()
            st.assume(FUNC_VARIANT)
            s2.assume(z3.Not(FUNC_VARIANT))
            return [(st, True), (s2, False)]
        return base_getattr_obj(I_, st, args, kwargs, node) if base_getattr_obj else None

    I.specs["getattr_obj"] = getattr_obj

    # repr(Markup(s)) is "Markup('s')", not "'s'" (the engine's Markup spec only tags the string)
    base_repr = I.specs[("fn", id(repr))]

    def repr_spec(I_, st, args, kwargs, node):
        a = args[0]
        if isinstance(a, Sym) and a.k == "str" and "markup" in a.tags:
            inner = models.py_repr_str(a.t)
            return [(st, Sym(z3.Concat(z3.StringVal("Markup("), inner, z3.StringVal(")")), "str", {"repr"}))]
        return base_repr(I_, st, args, kwargs, node)

    I.specs[("fn", id(repr))] = repr_spec

    def str_join(I_, st, args, kwargs, node):
        sep, it = args[0], args[1]
        if sep != "":
            raise Unsupported("str.join with a separator", node)
        return [(st, I_.concat_strs(list(I_.iter_concrete(st, it, node))))]

    I.specs["str.join"] = str_join


def install_as_const(I, owner):
    """Specs for the as_const run only: every callee is abstract and recorded."""
    I.specs["Expr.as_const"] = A.abstract_fn("child.as_const", returns="obj", raises=[N.Impossible])
    for name, fn in N._cmpop_to_func.items():
        I.specs[("fn", id(fn))] = A.abstract_fn("py." + CMP_NAMES[name], returns="obj", raises=[("any", Exception)])
    I.specs[("fn", id(pyop.not_))] = A.abstract_fn("py.not_", returns="obj", raises=[("any", Exception)])
    I.specs["Environment.getattr"] = A.abstract_fn("environment.getattr", returns="obj", raises=[("any", Exception)])
    I.specs["Environment.getitem"] = A.abstract_fn("environment.getitem", returns="obj", raises=[("any", Exception)])
    I.specs[("fn", id(slice))] = A.abstract_fn("py.slice", returns="obj")

    import markupsafe
    I.specs[("fn", id(markupsafe.Markup))] = A.abstract_fn("Markup", returns="obj")

    # /repo af2d145: _FilterTestCommon.as_const refuses (Impossible) an awaitable result in an async environment and closes a
    # coroutine first.  inspect.isawaitable / iscoroutine are some boolean functions of the result; close() returns None.
    I.specs[("fn", id(inspect.isawaitable))] = A.abstract_fn("inspect.isawaitable", returns="bool")
    I.specs[("fn", id(inspect.iscoroutine))] = A.abstract_fn("inspect.iscoroutine", returns="bool")
    prev_method_obj = I.specs.get("method_obj")

    def method_obj(I_, st, args, kwargs, node):
        if args[1] == "close" and len(args) == 2:
            A.call_event(st, "coroutine.close", args[:1], kwargs, None, node)
            return [(st, None)]
        return prev_method_obj(I_, st, args, kwargs, node) if prev_method_obj else None

    I.specs["method_obj"] = method_obj
    prev_getattr_obj = I.specs.get("getattr_obj")

    def getattr_obj(I_, st, args, kwargs, node):
        from pyvc.values import BoundMethod
        if args[1] == "close":
            return [(st, BoundMethod(args[0], "close"))]
        return prev_getattr_obj(I_, st, args, kwargs, node) if prev_getattr_obj else None

    I.specs["getattr_obj"] = getattr_obj

    def call_obj(I_, st, args, kwargs, node):
        return A.abstract_fn("call_obj", returns="obj", raises=[("any", Exception)])(I_, st, args, kwargs, node)

    I.specs["call_obj"] = call_obj

    def dict_spec(I_, st, args, kwargs, node):
        """dict(pairs): dependency spec - the mapping of the pairs in order; TypeError when a key is unhashable"""
        if kwargs or len(args) != 1:
            return models.instantiate(I_, st, dict, args, kwargs, node)
        a = args[0]
        if isinstance(a, Ref) and isinstance(st.get(a), HDict):
            return models.instantiate(I_, st, dict, args, kwargs, node)
        if isinstance(a, Sym) and a.k == "obj":
            # dict(<constant of unknown value>): the mapping `**value` stands for; TypeError/ValueError when it is not a mapping
            s2 = st.fork()
            e = Exc(None, (), tag="dict(value)#notmapping", within=Exception, origin=getattr(node, "lineno", None))
            return [(s2, Raised(e)), (st, st.alloc(HDict(items={("**",): a})))]
        pairs = list(I_.iter_concrete(st, a, node))
        if all(isinstance(p, tuple) and len(p) == 2 and (isinstance(p[0], str) or (isinstance(p[0], Sym) and p[0].k == "str")) for p in pairs):
            # string keys (keyword arguments) are hashable; the empty mapping is concrete as well
            return [(st, st.alloc(HDict(items={p[0]: p[1] for p in pairs})))]
        out = []
        if pairs:
            s = st.fork()
            e = Exc(TypeError, ("unhashable type",), tag="dict#unhashable", origin=getattr(node, "lineno", None))
            out.append((s, Raised(e)))
        v = fresh("py_dict", "obj")
        st.trace.append(Event("call", "py.dict", pairs, {}, v, lineno=getattr(node, "lineno", None)))
        out.append((st, v))
        return out

    I.specs[("fn", id(dict))] = dict_spec

    # /repo 745b182: folding stops (Impossible) at a value has_safe_repr refuses; its own contract is C08.const.roundtrip / C34
    I.specs[("fn", id(C.has_safe_repr))] = A.abstract_fn("has_safe_repr", returns="bool")
    I.specs["jinja2.compiler:has_safe_repr"] = I.specs[("fn", id(C.has_safe_repr))]
    I.specs["getattr_dyn"] = A.abstract_fn("py.getattr", returns="obj", raises=[("any", Exception)])
    I.specs["getitem_obj"] = lambda I_, st, args, kwargs, node: A.abstract_fn("py.getitem", returns="obj", raises=[("any", Exception)])(I_, st, args, kwargs, node)

    # a child's constant is an arbitrary object (e.g. a StrictUndefined produced by a folded subscript): taking its truth value or its
    # str() may raise.  dependency spec: bool(x) / str(x) return or raise some Exception.  The engine's truth() has no exceptional
    # outcome, so the three constructs that test a value (if / inline if / and-or) are wrapped on THIS interpreter instance.
    from pyvc.interp import Ctl

    def may_raise_on_truth(st, v, node):
        if isinstance(v, Sym) and v.k == "obj" and "from:child.as_const" in v.tags:
            s2 = st.fork()
            return [(s2, Raised(Exc(None, (), tag="bool(child constant)#", within=Exception, origin=getattr(node, "lineno", None))))]
        return []

    def st_If(n, st, fr):
        res = []
        for s, v in I.ev(n.test, st, fr):
            if isinstance(v, Raised):
                res.append((s, Ctl("raise", v.exc)))
                continue
            for s_exc, r in may_raise_on_truth(s, v, n):
                res.append((s_exc, Ctl("raise", r.exc)))
            for s2, b in I.truth(s, v, fr, n):
                res.extend(I.exec_block(n.body if b else n.orelse, s2, fr))
        return res

    I.st_If = st_If

    def ev_IfExp(e, st, fr):
        out = []
        for s, c in I.ev(e.test, st, fr):
            if isinstance(c, Raised):
                out.append((s, c))
                continue
            out.extend(may_raise_on_truth(s, c, e))
            for s2, b in I.truth(s, c, fr, e):
                out.extend(I.ev(e.body if b else e.orelse, s2, fr))
        return out

    I.ev_IfExp = ev_IfExp

    def ev_BoolOp(e, st, fr):
        is_and = isinstance(e.op, ast.And)

        def go(i, s):
            out = []
            for s2, v in I.ev(e.values[i], s, fr):
                if isinstance(v, Raised) or i == len(e.values) - 1:
                    out.append((s2, v))
                    continue
                out.extend(may_raise_on_truth(s2, v, e))
                for s3, b in I.truth(s2, v, fr, e):
                    if b == is_and:
                        out.extend(go(i + 1, s3))
                    else:
                        out.append((s3, v))
            return out

        return go(0, st)

    I.ev_BoolOp = ev_BoolOp

    def str_obj(I_, st, args, kwargs, node):
        a = args[0]
        if "from:child.as_const" in a.tags:
            s2 = st.fork()
            e = Exc(None, (), tag="str(child constant)#", within=Exception, origin=getattr(node, "lineno", None))
            return [(s2, Raised(e)), (st, Sym(models.py_str_obj(a.t), "str", a.tags))]
        return None

    I.specs["str_obj"] = str_obj
    # the run-time join helpers, should as_const use them (same function on both sides)
    I.specs["jinja2.runtime:markup_join"] = A.abstract_fn("markup_join", returns="obj")
    I.specs["jinja2.runtime:str_join"] = A.abstract_fn("str_join", returns="obj")

    # zero-argument super() in Filter.as_const
    def super_spec(I_, st, args, kwargs, node):
        return [(st, st.alloc(HObj(_SuperProxy, fields={"obj": owner["node"]}, path="super()")))]

    I.specs[("fn", id(super))] = super_spec

    def super_as_const(I_, st, args, kwargs, node):
        nd = st.get(args[0]).fields["obj"]
        mro = st.get(nd).cls.__mro__
        base = mro[mro.index(owner["cls"]) + 1]
        fn = inspect.getattr_static(base, "as_const")
        st.trace.append(Event("call", "super().as_const", [nd], kwargs, None))
        return I_.call_closure(st, I_.closure_of_function(fn), [nd] + list(args[1:]), kwargs, node)

    I.specs["_SuperProxy.as_const"] = super_as_const

    # list.extend / dict.update with a constant whose value is unknown: `*value` / `**value`
    base_call_method = I.call_method

    def call_method(st, recv, name, args, kwargs, node=None):
        if name == "isdisjoint" and args and isinstance(args[0], Ref) and isinstance(st.get(args[0]), HDict) and ("**",) in (st.get(args[0]).items or {}):
            # explicit keyword names vs the keys of **value: unknown at verification time
            explicit = bool(recv) if isinstance(recv, (list, tuple)) else True
            if isinstance(recv, (list, tuple)) and not recv:
                return [(st, True)]
            s2 = st.fork()
            st.assume(KW_DISJOINT)
            s2.assume(z3.Not(KW_DISJOINT))
            return [(st, True), (s2, False)]
        if isinstance(recv, Ref) and name in ("extend", "update") and args and isinstance(args[0], Sym) and args[0].k == "obj":
            h = st.get(recv)
            if isinstance(h, HList) and h.concrete and name == "extend":
                s2 = st.fork()
                e = Exc(None, (), tag="extend#notiterable", within=Exception, origin=getattr(node, "lineno", None))
                h.items.append(("*", args[0]))
                return [(s2, Raised(e)), (st, None)]
            if isinstance(h, HDict) and h.concrete and name == "update":
                s2 = st.fork()
                e = Exc(None, (), tag="update#notmapping", within=Exception, origin=getattr(node, "lineno", None))
                h.items[("**",)] = args[0]
                return [(s2, Raised(e)), (st, None)]
        return base_call_method(st, recv, name, args, kwargs, node)

    I.call_method = call_method

    # dict.keys() of a concrete mapping is modelled as a tuple; a keys view has isdisjoint
    base_getattr = I.getattr

    def getattr_(st, obj, name, node=None):
        if name == "isdisjoint" and isinstance(obj, tuple):
            from pyvc.values import BoundMethod
            return [(st, BoundMethod(obj, name))]
        return base_getattr(st, obj, name, node)

    I.getattr = getattr_


# =====================================================================================================
# abstract nodes with CONCRETE child lists (bounded list length, symbolic children)
# =====================================================================================================

LIST_FIELDS = {
    "Tuple": {"items": N.Expr}, "List": {"items": N.Expr}, "Dict": {"items": N.Pair}, "Concat": {"nodes": N.Expr},
    "Compare": {"ops": N.Operand}, "Filter": {"args": N.Expr, "kwargs": N.Keyword}, "Test": {"args": N.Expr, "kwargs": N.Keyword},
    "Call": {"args": N.Expr, "kwargs": N.Keyword},
}


def shaped_fields(cls_name, shape):
    """node_fields factory: list field -> concrete list of `shape[field]` abstract children"""

    def make(st):
        out = {}
        for fname, ecls in LIST_FIELDS.get(cls_name, {}).items():
            k = shape.get(fname, 0)
            out[fname] = st.alloc(HList(items=[emit.make_node(st, ecls, f"node.{fname}[{i}]", kind="expr") for i in range(k)]), initial=True)
        return out

    return make


def shapes_of(cls_name, tier="quick"):
    fs = LIST_FIELDS.get(cls_name)
    if not fs:
        return [{}]
    if cls_name in ("Filter", "Test"):
        return [{"args": a, "kwargs": k} for a in (0, 1, 2) for k in (0, 1)]
    if cls_name == "Compare":
        return [{"ops": k} for k in (0, 1, 2)]
    (f, _), = fs.items()
    return [{f: k} for k in (0, 1, 2, 3)]


def shape_tag(shape):
    return ",".join(f"{k}={v}" for k, v in sorted(shape.items())) or "-"


# =====================================================================================================
# terms
# =====================================================================================================
# ("child", path) | ("field", name) | ("const", v) | ("call", fname, (args...), ((kw, term)...)) | ("tuple", (..)) | ("list", (..))
# ("concat", (..)) | ("ENV",) | ("EVALCTX",) | ("CONTEXT",) | ("await", t) | ("rtflag", name) | ("global", name) | ("star", t) | ("starstar", t)
# ("unknown", text)

def T_call(name, args=(), kwargs=()):
    return ("call", name, tuple(args), tuple(kwargs))


def show(t, depth=0):
    if not isinstance(t, tuple) or not t:
        return repr(t)
    h = t[0]
    if h == "child":
        return "<" + t[1] + ">"
    if h == "field":
        return t[1]
    if h == "const":
        return repr(t[1])
    if h == "call":
        nm = t[1] if isinstance(t[1], str) else show(t[1])
        parts = [show(a) for a in t[2]] + [f"{k}={show(v)}" for k, v in t[3]]
        return f"{nm}({', '.join(parts)})"
    if h in ("tuple", "list", "concat"):
        return h + "[" + ", ".join(show(a) for a in t[1]) + "]"
    if h in ("await", "star", "starstar"):
        return f"{h}({show(t[1])})"
    if len(t) == 1:
        return h
    return h + ":" + ",".join(str(x) for x in t[1:])


class Resolver:
    """as_const side: values of a path -> terms; remembers the z3 term of every term (for truthiness decisions)."""

    def __init__(self, st, gen):
        self.st = st
        self.gen = gen
        self.events = {}
        self.termsym = {}
        for e in st.trace:
            if e.kind == "call" and isinstance(e.result, Sym):
                self.events[e.result.t.sexpr()] = e

    def node_path(self, ref):
        return self.st.get(ref).path

    def value(self, v):
        t = self._value(v)
        if isinstance(v, Sym) and v.k in ("obj", "bool"):
            self.termsym.setdefault(t, v)
        return t

    def _value(self, v):
        st = self.st
        if isinstance(v, Sym):
            if v.k == "str":
                inner = self.z3str(v.t)
                return T_call("Markup", [inner]) if "markup" in v.tags else inner
            if v.k == "obj":
                return self.z3obj(v.t)
            if v.k == "bool":
                s = v.t.sexpr()
                return ("unknown", "bool:" + s)
            return ("unknown", str(v))
        if isinstance(v, Ref):
            h = st.get(v)
            if v == self.gen.eval_ctx:
                return ("EVALCTX",)
            if v == self.gen.env:
                return ("ENV",)
            if isinstance(h, HList) and h.concrete:
                return ("list", tuple(self.item(x) for x in h.items))
            if isinstance(h, HDict) and h.concrete and not h.items:
                return T_call("py.dict")
            if isinstance(h, HDict) and h.concrete:
                return ("dict", tuple((k if isinstance(k, tuple) else ("key", self.value(k)), self.value(x)) for k, x in h.items.items()))
            if isinstance(h, HObj):
                return ("node", h.path)
            return ("unknown", repr(h))
        if isinstance(v, tuple):
            return ("tuple", tuple(self.value(x) for x in v))
        if isinstance(v, Exc):
            return ("unknown", repr(v))
        return ("const", v)

    def item(self, x):
        if isinstance(x, tuple) and len(x) == 2 and x[0] == "*":
            return ("star", self.value(x[1]))
        return self.value(x)

    def z3obj(self, t):
        e = self.events.get(t.sexpr())
        if e is not None:
            return self.event(e)
        if z3.is_const(t) and t.decl().kind() == z3.Z3_OP_UNINTERPRETED:
            nm = t.decl().name()
            if nm.startswith("node.") or nm == "func":
                return ("field", nm)
        if z3.is_app(t) and t.decl().name() == "str2obj":
            return self.z3str(t.children()[0])
        return ("unknown", str(t))

    def z3str(self, t):
        if z3.is_string_value(t):
            return ("const", t.as_string())
        if z3.is_app(t):
            d = t.decl()
            if d.kind() == z3.Z3_OP_SEQ_CONCAT:
                parts = []
                for c in t.children():
                    x = self.z3str(c)
                    parts += list(x[1]) if x[0] == "concat" else [x]
                return ("concat", tuple(parts))
            if d.name() == "py_str_obj":
                return T_call("py.str", [self.z3obj(t.children()[0])])
            if d.arity() == 0:
                return ("field", d.name())
        return ("unknown", str(t))

    def event(self, e):
        if e.name == "child.as_const":
            return ("child", self.node_path(e.args[0]))
        if e.name == "env_map.get":
            return ("field", "func")
        if e.name in ("environment.getattr", "environment.getitem"):
            recv = self.value(e.args[0])
            if recv != ("ENV",):
                return ("unknown", f"{e.name} on {show(recv)}")
            return T_call(e.name, [self.value(a) for a in e.args[1:]])
        if e.name == "call_obj":
            f = self.value(e.args[0])
            pos = [self.item(a) for a in e.args[1:]]
            kws = []
            for k, x in e.kwargs.items():
                if isinstance(k, tuple):
                    # kwargs.update(dyn_kwargs): later value wins, whereas f(k=v, **dyn) raises TypeError for a duplicate key;
                    # the two agree only when there is no explicit keyword argument
                    explicit = [kk for kk in e.kwargs if not isinstance(kk, tuple)]
                    merged_blindly = bool(explicit) and not implied(self.st.pc, KW_DISJOINT)
                    kws.append(("**", (("update-over-explicit-keywords" if merged_blindly else "starstar"), self.value(x))))
                else:
                    kws.append((self.value(k) if isinstance(k, Sym) else k, self.value(x)))
            return T_call(self.func_term(f), pos, kws)
        if e.name == "py.dict":
            return T_call("py.dict", [("tuple", (self.value(p[0]), self.value(p[1]))) for p in e.args])
        if e.name in ("markup_join", "str_join") and len(e.args) == 1:
            seq_ = self.value(e.args[0])
            items = seq_[1] if seq_[0] in ("list", "tuple") else (seq_,)
            if e.name == "str_join":
                return ("concat", tuple(T_call("py.str", [x]) for x in items))
            return ("concat", ()) if not items else T_call("markup_join", [("tuple", tuple(items))])
        return T_call(e.name, [self.value(a) for a in e.args], [(k, self.value(x)) for k, x in e.kwargs.items()])

    def func_term(self, f):
        if f == ("field", "func"):
            for e in self.st.trace:
                if e.kind == "call" and e.name == "env_map.get" and e.result is not None:
                    which = "filters" if e.args[0].endswith("filters") else "tests"
                    key = self.value(e.args[1])
                    return ("func", which, key)
        return f


class SchemaEval:
    """emission side: parsed skeleton -> term, deciding flags / truthiness with the as_const path's condition `pc`."""

    def __init__(self, sc, ph, pc, termsym, truth_term, problems):
        self.sc, self.ph, self.pc, self.termsym, self.truth_term = sc, ph, pc, termsym, truth_term
        self.problems = problems
        self.nonvolatile = implied(pc, z3.Not(VOLATILE))
        self.strict_rt = False  # MarkSafeIfAutoescape: the emitted code reads the run-time flag, which as_const cannot know (see RT_EVALCTX)

    # -- decisions
    def truthy(self, t):
        """True / False / None (undecided under the path condition)"""
        if t[0] == "const":
            return bool(t[1])
        if t[0] in ("tuple", "list"):
            return len(t[1]) > 0
        if t[0] == "rtflag":
            return None
        s = self.termsym.get(t)
        if s is None:
            return None
        tt = self.truth_term(s)
        if isinstance(tt, bool):
            return tt
        if implied(self.pc, tt):
            return True
        if implied(self.pc, z3.Not(tt)):
            return False
        return None

    def flag(self, name):
        if name == "volatile":
            return ("const", False)  # never set by generated code
        if name == "autoescape" and self.nonvolatile and not self.strict_rt:
            if implied(self.pc, AUTOESCAPE):
                return ("const", True)
            if implied(self.pc, z3.Not(AUTOESCAPE)):
                return ("const", False)
        return ("rtflag", name)

    # -- placeholders
    def placeholder_field(self, key):
        kind, t = self.ph[key]
        if z3.is_app(t) and t.decl().arity() == 0:
            return ("field", t.decl().name())
        if z3.is_app(t) and t.decl().name() in ("str2obj", "py_str_obj", "py_repr_obj"):
            return self.placeholder_term(t.children()[0])
        return ("unknown", str(t))

    def placeholder_term(self, t):
        if z3.is_app(t) and t.decl().arity() == 0:
            return ("field", t.decl().name())
        if z3.is_app(t) and t.decl().name() in ("py_str_obj", "py_repr_obj", "py_repr_str", "str2obj"):
            # the literal text of a value stands for the value (C08.const.roundtrip checks that on the real visit_Const)
            return self.placeholder_term(t.children()[0])
        return ("unknown", str(t))

    def ev(self, n):
        ph = self.ph
        if isinstance(n, ast.Name):
            if n.id in ph:
                p = ph[n.id]
                if isinstance(p, emit.Hole):
                    return ("child", p.path)
                kind, t = p
                if kind == "ident":
                    nm = t.decl().name() if z3.is_app(t) else str(t)
                    if nm.startswith("t_filter") or nm.startswith("t_test"):
                        which = "filters" if nm.startswith("t_filter") else "tests"
                        key = None
                        for e in self.sc.st.trace:
                            if e.kind == "call" and e.name == f"self.{which}.__getitem__" and isinstance(e.result, Sym) and e.result.t.eq(t):
                                key = e.args[0]
                        kt = ("field", key.t.decl().name()) if isinstance(key, Sym) and z3.is_const(key.t) else ("unknown", repr(key))
                        return ("func", which, kt)
                    return ("field", nm)
                if kind == "str":
                    return self.placeholder_term(t)  # literal text of a float constant (C08.const.roundtrip)
                return ("unknown", n.id)
            if n.id == "environment":
                return ("ENV",)
            if n.id == "context":
                return ("CONTEXT",)
            if n.id in ("None", "True", "False"):
                return ("const", {"None": None, "True": True, "False": False}[n.id])
            return ("global", n.id)
        if isinstance(n, ast.Constant):
            if isinstance(n.value, str) and f"'{n.value}'" in ph:
                return self.placeholder_field(f"'{n.value}'")
            return ("const", n.value)
        if isinstance(n, ast.Attribute):
            nm = emit.call_name(n)
            if nm == "context.eval_ctx":
                # the eval context the code RUNS under.  It is the compile-time one only for code that runs in place; a macro / call block
                # body runs under the caller's, a block function under the eval context of where the block is placed or of the extending
                # template - and no frame is marked volatile for that (hunt C08_1, C08_2)
                return ("RT_EVALCTX",)
            if nm in ("context.eval_ctx.autoescape", "context.eval_ctx.volatile"):
                return self.flag(n.attr)
            return ("global", nm or ast.unparse(n))
        if isinstance(n, ast.Await):
            v = n.value
            if isinstance(v, ast.Call) and emit.call_name(v) == "auto_await" and len(v.args) == 1:
                return ("await", self.ev(v.args[0]))
            return ("await", self.ev(v))
        if isinstance(n, ast.IfExp):
            test = self.ev(n.test)
            d = self.truthy(test)
            if d is True:
                return self.ev(n.body)
            if d is False:
                return self.ev(n.orelse)
            return ("ite", test, self.ev(n.body), self.ev(n.orelse))
        if isinstance(n, ast.BoolOp):
            cur = None
            for i, x in enumerate(n.values):
                cur = self.ev(x)
                if i == len(n.values) - 1:
                    return cur
                d = self.truthy(cur)
                if d is None:
                    return ("boolop", type(n.op).__name__, cur)
                if isinstance(n.op, ast.And) and not d:
                    return cur
                if isinstance(n.op, ast.Or) and d:
                    return cur
            return cur
        if isinstance(n, ast.UnaryOp) and isinstance(n.op, ast.Not):
            return T_call("py.not_", [self.ev(n.operand)])
        if isinstance(n, ast.Compare):
            left = self.ev(n.left)
            res = left
            for op, right in zip(n.ops, n.comparators):
                r = self.ev(right)
                res = T_call("py." + AST_CMP[type(op)], [left, r])
                d = self.truthy(res)
                if d is None and right is not n.comparators[-1]:
                    return ("chain-undecided", res)
                if d is False:
                    return ("falsy", res)
                left = r
            return res
        if isinstance(n, ast.Tuple):
            return ("tuple", tuple(self.ev(x) for x in n.elts))
        if isinstance(n, ast.List):
            return ("list", tuple(self.ev(x) for x in n.elts))
        if isinstance(n, ast.Dict):
            return T_call("py.dict", [("tuple", (self.ev(k), self.ev(v))) for k, v in zip(n.keys, n.values)])
        if isinstance(n, ast.Slice):
            return T_call("py.slice", [self.ev(x) if x is not None else ("const", None) for x in (n.lower, n.upper, n.step)])
        if isinstance(n, ast.Subscript):
            return T_call("py.getitem", [self.ev(n.value), self.ev(n.slice)])
        if isinstance(n, ast.Call):
            return self.call(n)
        return ("unknown", ast.unparse(n)[:80])

    def call(self, n):
        f = n.func
        name = emit.call_name(n)
        args = []
        for a in n.args:
            if isinstance(a, ast.Starred):
                h = self.ph.get(a.value.id) if isinstance(a.value, ast.Name) else None
                if isinstance(h, emit.Hole) and h.kind == "signature":
                    args.append(("SIG", h.path))
                else:
                    args.append(("star", self.ev(a.value)))
            else:
                args.append(self.ev(a))
        kws = [((k.arg if k.arg is not None else "**"), (self.ev(k.value) if k.arg is not None else ("starstar", self.ev(k.value)))) for k in n.keywords]
        if name in ("environment.getattr", "environment.getitem", "Markup"):
            return T_call(name, args, kws)
        if name == "identity" and len(args) == 1:
            return args[0]
        if name == "float" and len(args) == 1 and args[0][0] == "field":
            # visit_Const writes a non-finite float v as float('<str(v)>'): that is v (C08.const.roundtrip evaluates the real text)
            return args[0]
        if name == "str_join" and len(args) == 1 and args[0][0] == "tuple":
            return ("concat", tuple(T_call("py.str", [x]) for x in args[0][1]))
        if name == "markup_join" and len(args) == 1 and args[0] == ("tuple", ()):
            return ("concat", ())
        if name is None:
            ft = self.ev(f)
            if ft == ("global", "identity") and len(args) == 1:
                return args[0]
            if ft == ("global", "Markup"):
                return T_call("Markup", args, kws)
            if ft == ("global", "str_join") and len(args) == 1 and args[0][0] == "tuple":
                return ("concat", tuple(T_call("py.str", [x]) for x in args[0][1]))
            return T_call(ft, args, kws)
        ft = self.ev(f)
        if ft[0] == "func":
            return T_call(ft, args, kws)
        return T_call(name, args, kws)


def normalize_concat(t):
    if isinstance(t, tuple) and t and t[0] == "concat":
        parts = [p for p in t[1] if p != ("const", "")]
        if not parts:
            return ("const", "")
        if len(parts) == 1:
            return parts[0]
        return ("concat", tuple(parts))
    return t


def sig_shape(node_path, shape, notes):
    """what args_as_const collects for the node = what CodeGenerator.signature passes (C08.fold.signature):
    positional children in order, then *dyn_args; keyword children by key, then **dyn_kwargs"""
    pos = [("child", f"{node_path}.args[{i}]") for i in range(shape.get("args", 0))]
    if f"{node_path}.dyn_args is present" in notes:
        pos.append(("star", ("child", f"{node_path}.dyn_args")))
    kws = [(("field", f"{node_path}.kwargs[{i}].key"), ("child", f"{node_path}.kwargs[{i}].value")) for i in range(shape.get("kwargs", 0))]
    if f"{node_path}.dyn_kwargs is present" in notes:
        kws.append(("**", ("starstar", ("child", f"{node_path}.dyn_kwargs"))))
    return pos, kws


def expand_sig(t, shape, notes):
    """replace the ("SIG", path) summary in a call term by the canonical argument shape"""
    if not isinstance(t, tuple):
        return t
    if t and t[0] == "call":
        args, kws = [], list(t[3])
        for a in t[2]:
            if isinstance(a, tuple) and a and a[0] == "SIG":
                p, k = sig_shape(a[1][len("signature("):-1], shape, notes)
                args += p
                kws += k
            else:
                args.append(expand_sig(a, shape, notes))
        return ("call", expand_sig(t[1], shape, notes) if isinstance(t[1], tuple) else t[1], tuple(args), tuple((k, expand_sig(v, shape, notes)) for k, v in kws))
    return tuple(expand_sig(x, shape, notes) if isinstance(x, tuple) else x for x in t)


def canon_kwargs(t):
    """keyword order is irrelevant for a call; dict-valued kwargs from the as_const side use ("key", term) keys"""
    if not isinstance(t, tuple):
        return t
    if t and t[0] == "call":
        kws = []
        for k, v in t[3]:
            if isinstance(k, tuple) and k and k[0] == "key":
                k = k[1]
            if isinstance(k, str) and k != "**":
                k = ("const", k)
            kws.append((k, canon_kwargs(v)))
        kws.sort(key=repr)
        return ("call", canon_kwargs(t[1]) if isinstance(t[1], tuple) else t[1], tuple(canon_kwargs(a) for a in t[2]), tuple(kws))
    return tuple(canon_kwargs(x) if isinstance(x, tuple) else x for x in t)


# =====================================================================================================
# C08.fold.<Class>
# =====================================================================================================

FRAGMENT_WRAP = {"Keyword": "f({})", "Slice": "x[{}]", "Operand": "(x {})"}
# classes whose visitor would route through the sandbox hook when (mis)configured as intercepted; and/or/not are not
# interceptable operators (contracts.c20 table `not_interceptable`), so only the native form is compared
NOT_INTERCEPTABLE = {"And", "Or", "Not"}


def head_of(t):
    if isinstance(t, tuple) and t:
        if t[0] == "call":
            h = t[1] if isinstance(t[1], str) else "/".join(str(x) for x in t[1][:2])
            return "str-concat" if h == "py.str" else h
        return "str-concat" if t[0] == "concat" else t[0]
    return str(t)


class Fold(Task):
    """fold-consistency of one node class for one child-list shape"""
    kind = "vc"
    prop = PROP

    def __init__(self, cls_name, shape=None, target_cls=None):
        self.cls_name = cls_name
        self.shape = dict(shape or {})
        self.name = f"C08.fold.{cls_name}" + (f"[{shape_tag(self.shape)}]" if self.shape else "")
        self.base = f"C08.fold.{cls_name}"   # obligation names carry no shape: the shape index is part of the #p suffix
        self.shape_no = shapes_of(cls_name).index(self.shape) if self.shape in shapes_of(cls_name) else 0
        self.target_cls = target_cls or cls_name

    # ---- the two symbolic runs
    def run_as_const(self):
        from pyvc.engine import Interp
        I = Interp()
        owner = {}
        install_common(I)
        install_as_const(I, owner)
        st = State()
        g = emit.Gen(st)
        cls = getattr(N, self.cls_name)
        nd = emit.make_node(st, cls, "node", fields=shaped_fields(self.cls_name, self.shape)(st))
        owner["node"] = nd
        fn = inspect.getattr_static(cls, "as_const")
        owner["cls"] = next(k for k in cls.__mro__ if "as_const" in k.__dict__)
        clo = I.closure_of_function(fn)
        rs = I.call_closure(st, clo, [nd, g.eval_ctx], {})
        return I, g, nd, rs

    def run_schema(self):
        if self.cls_name == "Pair":
            return []
        scs, I = emit.run_visitor(f"jinja2.compiler:CodeGenerator.visit_{self.cls_name}", getattr(N, self.cls_name), buffer=None,
                                  node_fields=shaped_fields(self.cls_name, self.shape), configure=lambda I_: install_common(I_))
        return scs

    # ---- comparison
    def compatible(self, st, sc):
        for a in st.notes:
            for b in sc.notes:
                if a.endswith(" is None") and b == a[:-len(" is None")] + " is present":
                    return False
                if a.endswith(" is present") and b == a[:-len(" is present")] + " is None":
                    return False
        return satisfiable(list(st.pc) + list(sc.pc))

    def schema_term(self, sc, txt, ph, pc, res, I, st, problems):
        wrap = FRAGMENT_WRAP.get(self.cls_name)
        t2 = wrap.format(txt) if wrap else txt
        tree = emit.parse_expr(t2)
        ev = SchemaEval(sc, ph, pc, res.termsym, lambda s: I.truth_term(st, s), problems)
        ev.strict_rt = self.cls_name == "MarkSafeIfAutoescape"
        if self.cls_name == "Keyword":
            k = tree.keywords[0]
            key = ph.get(k.arg)
            kt = ("field", key[1].decl().name()) if key and key[0] == "ident" else ("const", k.arg)
            return ("tuple", (kt, ev.ev(k.value)))
        if self.cls_name == "Slice":
            return ev.ev(tree.slice)
        return ev.ev(tree)

    def equal(self, a, b, pc):
        """as_const value a vs run-time value b (terms)"""
        a, b = normalize_concat(canon_kwargs(a)), normalize_concat(canon_kwargs(b))
        if a == b:
            return True, ""
        if b[0] == "await":
            inner = b[1]
            h = head_of(inner)
            if h in ("environment.getattr", "environment.getitem"):
                return self.equal(a, inner, pc)
            if h.startswith("func/"):
                if implied(pc, z3.Not(z3.Or(FUNC_VARIANT, FUNC_CORO))):
                    return self.equal(a, inner, pc)
                return False, "in async mode the run-time value awaits the filter result; as_const folds although the filter may be an async variant / coroutine function"
            return False, f"run-time value is awaited: {show(b)}"
        if b[0] == "falsy" and a == ("const", False):
            return True, ""  # spec: comparisons of constants return bool, so a falsy result is False
        if b[0] == "falsy":
            return self.equal(a, b[1], pc)
        if a[0] == "tuple" and b[0] == "tuple" and len(a[1]) == len(b[1]):
            for x, y in zip(a[1], b[1]):
                ok, why = self.equal(x, y, pc)
                if not ok:
                    return ok, why
            return True, ""
        return False, f"as_const computes {show(a)} but the emitted code computes {show(b)}"

    def run(self, tier, seed):
        t0 = time.time()
        try:
            I, g, nd, rs = self.run_as_const()
            scs = self.run_schema()
        except Unsupported as ex:
            return [Res(self.name + ".engine", "unknown", "pyvc", time.time() - t0, f"unsupported: {ex}", self.kind)]
        out = []
        n_ret = 0
        for i, (st, v) in enumerate(rs):
            t1 = time.time()
            if not satisfiable(st.pc):
                continue
            if isinstance(v, Raised):
                e = v.exc
                # an abstract exception re-raised by `except Impossible: raise` is known to be an Impossible
                ok = e.cls is N.Impossible or (e.cls is None and issubclass(e.within, N.Impossible))
                nm = f"{self.base}.raises_only_Impossible#p{self.shape_no * 1000 + i}"
                if ok:
                    out.append(Res(nm, "discharged", "pyvc-path", time.time() - t1, "", self.kind))
                else:
                    what = e.cls.__name__ if e.cls else f"some {e.within.__name__} from {getattr(e, 'from_call', e.tag)}"
                    out.append(Res(nm, "refuted", "pyvc-path", time.time() - t1,
                                   f"{self.cls_name}.as_const lets {what} escape (line {e.origin}); Optimizer.generic_visit catches only Impossible, so the "
                                   "template fails to compile although the expression may never be evaluated",
                                   self.kind, witness={"class": self.cls_name, "shape": self.shape, "clause": "raises", "exception": what, "tag": e.tag.split("#")[0]}))
                continue
            n_ret += 1
            res = Resolver(st, g)
            a = res.value(v)
            # make every intermediate value known for truthiness decisions
            for e in st.trace:
                if e.kind == "call" and isinstance(e.result, Sym):
                    res.value(e.result)
            fails = []
            matched = 0
            if self.cls_name == "Pair":
                # no visitor of its own: visit_Dict writes `key: value`; the documented meaning is the (key, value) pair
                matched = 1
                want = ("tuple", (("child", "node.key"), ("child", "node.value")))
                if a != want:
                    fails.append((f"as_const computes {show(a)}, expected {show(want)}", None, head_of(a), "tuple"))
            if self.cls_name == "TemplateData":
                # documented meaning, independent of the visitor (which itself consults as_const): safe markup when autoescaping is
                # on AT RUN TIME, the plain string otherwise
                matched += 1
                ev = SchemaEval(None, {}, list(st.pc), res.termsym, lambda s_: I.truth_term(st, s_), [])
                fl = ev.flag("autoescape")
                want = T_call("Markup", [("field", "node.data")]) if fl == ("const", True) else (("field", "node.data") if fl == ("const", False) else None)
                if want is None:
                    fails.append(("as_const returns a constant although the value of template data depends on the run-time autoescape flag (volatile frame)", None, head_of(a), "rtflag"))
                elif a != want:
                    fails.append((f"as_const computes {show(a)}, documented value {show(want)}", None, head_of(a), head_of(want)))
            for sc in scs:
                if sc.outcome == "raise" or not self.compatible(st, sc):
                    continue
                for txt, ph in sc.texts():
                    if self.cls_name in NOT_INTERCEPTABLE and "environment.call_" in txt:
                        continue
                    matched += 1
                    problems = []
                    try:
                        b = self.schema_term(sc, txt, ph, list(st.pc) + list(sc.pc), res, I, st, problems)
                    except SyntaxError as ex:
                        fails.append((f"schema does not parse: {txt!r}", sc, "parse", "parse"))
                        continue
                    b = expand_sig(b, self.shape, set(st.notes) | set(sc.notes))
                    ok, why = self.equal(a, b, list(st.pc) + list(sc.pc))
                    if not ok and ("RT_EVALCTX" in repr(b) or (self.cls_name == "MarkSafeIfAutoescape" and "rtflag" in repr(b))):
                        why = ("as_const uses the COMPILE-TIME eval context, the emitted code reads context.eval_ctx at run time; they differ whenever the code runs under "
                               "another eval context than it was compiled with (macro / call block called from, block placed in or extended into a region with a different "
                               "autoescape setting) and such frames are not volatile; " + why)
                        fails.append((why, sc, "compile-time-eval_ctx", "run-time-eval_ctx"))
                        continue
                    if not ok:
                        if "update-over-explicit-keywords" in repr(a):
                            why = ("as_const merges **dyn_kwargs into the explicit keyword arguments (kwargs.update: the later value wins) while the emitted call "
                                   "passes both (f(k=v, **dyn) raises TypeError for a duplicate key); " + why)
                            fails.append((why, sc, "kwargs.update", "call-with-duplicate-keyword"))
                            continue
                        fails.append((why, sc, head_of(canon_kwargs(a)), head_of(b[1] if b[0] in ("await", "falsy") else b)))
            nm = f"{self.base}.value#p{self.shape_no * 1000 + i}"
            if not matched:
                fails.append(("as_const returns a constant on a path where the visitor emits nothing comparable (raises)", None, head_of(a), "none"))
            if fails:
                why, sc, ha, hb = fails[0]
                out.append(Res(nm, "refuted", "pyvc-path", time.time() - t1,
                               f"{why}; as_const path {[str(c)[:60] for c in st.pc][:6]} {st.notes[:4]}" + (f"; schema `{sc.describe()[:160]}` under {[str(c)[:50] for c in sc.pc][:5]}" if sc else ""),
                               self.kind, witness={"class": self.cls_name, "shape": self.shape, "clause": "value", "as_const": ha, "schema": hb,
                                                   "as_const_path": [str(c) for c in st.pc][:10], "notes": st.notes[:6],
                                                   "schema_text": sc.describe()[:300] if sc else None}))
            else:
                out.append(Res(nm, "discharged", "pyvc-path", time.time() - t1, f"{matched} schema instantiations agree", self.kind))
        if self.cls_name in ("And", "Or"):
            # the visitor visits BOTH operands in a frame that is not soft (unknown filter / test names and reserved keyword arguments in them are
            # compile-time errors); a fold that never looked at the right operand silently drops those diagnostics (hunt C08_5)
            for i, (st, v) in enumerate(rs):
                if isinstance(v, Raised) or not satisfiable(st.pc):
                    continue
                seen = {st.get(e.args[0]).path for e in st.trace if e.kind == "call" and e.name == "child.as_const" and isinstance(e.result, Sym)}
                ok = {"node.left", "node.right"} <= seen
                nm = f"{self.base}.folds_only_when_every_visited_child_is_constant#p{i}"
                out.append(Res(nm, "discharged" if ok else "refuted", "pyvc-path", 0,
                               "" if ok else f"{self.cls_name}.as_const returns a constant after evaluating only {sorted(seen)}: the other operand is dropped from the template, so the "
                                             "compile-time checks of visit_Filter / visit_Test / signature on it never run (unknown filter or test name renders instead of raising "
                                             "TemplateAssertionError)", self.kind, None if ok else {"class": self.cls_name, "clause": "short_circuit", "evaluated": sorted(seen)}))
        if self.cls_name == "Concat":
            # in a volatile frame as_const refuses (checked above), so the emitted code decides: which join runs must follow the
            # RUN-TIME autoescape flag, like it follows the compile-time flag in a non-volatile frame
            for j, sc in enumerate(scs):
                if sc.outcome == "raise" or not sc.holds(VOLATILE):
                    continue
                for txt, ph in sc.texts():
                    tree = emit.parse_expr(txt)
                    f = tree.func if isinstance(tree, ast.Call) else None
                    ok = (isinstance(f, ast.IfExp) and ast.unparse(f.test) == "context.eval_ctx.autoescape" and isinstance(f.body, ast.Name) and f.body.id == "markup_join"
                          and isinstance(f.orelse, ast.Name) and f.orelse.id == "str_join")
                    nm = f"{self.base}.volatile_schema#p{self.shape_no * 1000 + j}"
                    if ok:
                        out.append(Res(nm, "discharged", "pyvc-path", 0, "", self.kind))
                    else:
                        sel = ast.unparse(f.test) if isinstance(f, ast.IfExp) else (ast.unparse(f) if f is not None else txt[:40])
                        out.append(Res(nm, "refuted", "pyvc-path", 0,
                                       f"in a volatile frame the join function is selected by `{sel}`, not by the run-time flag context.eval_ctx.autoescape "
                                       f"(generated code never sets eval_ctx.volatile, so str_join always runs and Markup operands are escaped): `{txt[:120]}`", self.kind,
                                       witness={"class": "Concat", "shape": self.shape, "clause": "volatile_schema", "selector": sel}))
                    break
        if n_ret == 0 and self.cls_name not in ("Filter", "MarkSafeIfAutoescape"):  # a class may refuse to fold altogether
            out.append(Res(self.name + ".paths", "error", "pyvc", 0, "as_const has no returning path", self.kind))
        return out

    def finding_key(self, res):
        w = res.witness or {}
        if w.get("clause") == "raises":
            return f"{w.get('class')}:raises:{w.get('exception')}"
        if w.get("clause") == "short_circuit":
            return f"{w.get('class')}:short-circuit-drops-operand"
        if w.get("clause") == "volatile_schema":
            return f"Concat:volatile-selector:{w.get('selector')}"
        return f"{w.get('class')}:{w.get('as_const')}!={w.get('schema')}"

    def replay(self, w):
        return native_family_replay(w.get("class"), include_known=w.get("clause") == "volatile_schema")


def native_family_replay(cls_name, include_known=False):
    return (None, "native family not loaded")


# =====================================================================================================
# C08.output.*   visit_Output / _output_child_to_const / _make_finalize / _output_child_pre/post / _output_const_repr
# =====================================================================================================

def configure_output(I):
    install_common(I)
    I.specs["Expr.as_const"] = A.abstract_fn("child.as_const", returns="obj", raises=[N.Impossible, ("any", Exception)])
    I.specs[("fn", id(C.escape))] = A.abstract_fn("escape", returns="obj")
    # has_safe_repr guards the output fold since /repo 16d1781 (its own contract: C08.const.roundtrip, C01 W5, C34): here
    # only "some boolean function of the constant"; False makes the real code raise Impossible (the child is a run-time child)
    # For a TemplateData child it is True: TemplateData.as_const returns data / Markup(data) (C08.fold.TemplateData) and
    # has_safe_repr accepts exactly-str and Markup values (C34.has_safe_repr.exact_types, C01 W5 table).
    def safe_repr(I_, st, args, kwargs, node):
        v = fresh("has_safe_repr", "bool")
        for e in reversed(st.trace):
            if e.kind == "call" and e.name == "child.as_const" and e.result is args[0]:
                p = st.get(e.args[0]).path
                st.assume(z3.Implies(z3.Bool(f"{p}.isinstance(TemplateData)"), v.t))
                models.used("has_safe_repr(TemplateData.as_const(..)) is True (str / Markup)")
                break
        A.call_event(st, "has_safe_repr", args, kwargs, v, node)
        return [(st, v)]

    I.specs[("fn", id(C.has_safe_repr))] = safe_repr
    I.specs["jinja2.compiler:has_safe_repr"] = safe_repr

    def finfo(I_, st, args, kwargs, node):
        return [(st, st.alloc(HObj(C.CodeGenerator._FinalizeInfo, fields={"const": args[0], "src": args[1]}, path="finalize")))]

    I.specs[("fn", id(C.CodeGenerator._FinalizeInfo))] = finfo
    I.specs["call_obj"] = A.abstract_fn("call_obj", returns="obj", raises=[("any", Exception)])

    def unknown_call(I_, st, fn, args, kwargs, node):
        if fn is None:
            return [(st, Raised(Exc(TypeError, ("'NoneType' object is not callable",), origin=getattr(node, "lineno", None))))]
        return None

    I.on_unknown_call = unknown_call


def output_schemas(nchildren, buffer=None):
    nf = lambda st: {"nodes": st.alloc(HList(items=[emit.make_node(st, N.Expr, f"node.nodes[{i}]", kind="expr") for i in range(nchildren)]), initial=True)}
    scs, I = emit.run_visitor("jinja2.compiler:CodeGenerator.visit_Output", N.Output, buffer=buffer, node_fields=nf, configure=configure_output,
                              gen_fields={"_finalize": None}, frame_flags={"require_output_check": False})
    return scs, I


def child_status(sc):
    """child path -> Sym (written as compile-time constant) | 'runtime' (visited: a hole in the emitted text)"""
    out = {}
    for e in sc.st.trace:
        if e.kind == "call" and e.name == "child.as_const":
            p = sc.st.get(e.args[0]).path
            out[p] = e.result if isinstance(e.result, Sym) else "runtime"

    def holes(pieces):
        for p in pieces:
            if isinstance(p, emit.Hole):
                yield p.path
            elif isinstance(p, emit.Rep):
                for alt in p.alternatives:
                    yield from holes(alt)

    for p in holes(sc.pieces):
        out[p] = "runtime"
    return out


def subterms(t):
    yield t
    if z3.is_app(t):
        for c in t.children():
            yield from subterms(c)


def unary_chain(t):
    """term -> ([function names outermost first], base)"""
    fs = []
    while isinstance(t, tuple) and t and t[0] == "call":
        name, args = t[1], list(t[2])
        if isinstance(name, tuple):
            name = name[-1] if name[0] in ("global", "field") else repr(name)
        tag = None
        if name in ("py.str", "str"):
            tag = "str"
        elif name == "escape":
            tag = "escape"
        elif isinstance(name, str) and name.startswith("environment.finalize"):
            passed = [a for a in args[:-1]]
            tag = "finalize" + ("" if not passed else "(" + ",".join(a[0] for a in passed) + ")")
            args = args[-1:]
        elif name in ("Markup",):
            tag = "Markup"
        if tag is None or len(args) != 1 or t[3]:
            break
        fs.append(tag)
        t = args[0]
    return fs, t


def as_text(fs):
    """the value is only used as text: an outermost str() is the identity"""
    fs = list(fs)
    while fs and fs[0] == "str":
        fs.pop(0)
    return fs


class OutputConsistency(Task):
    kind = "vc"
    prop = PROP
    name = "C08.output"

    def __init__(self, buffer=None):
        self.buffer = buffer
        self.name = "C08.output" + ("" if buffer is None else "[buffer]")

    def label(self, clause):
        # obligation names carry no buffer tag: the variant is part of the #p index (10000+ = frame with a buffer)
        return f"C08.output.{clause}"

    def pn(self, i):
        return f"#p{i + (0 if self.buffer is None else 10000)}"

    def runtime_expr(self, sc, path, pc):
        """term of the expression emitted around the runtime child `path` on schema sc (decided under pc)"""
        for txt, ph in sc.texts():
            tree = emit.parse_stmts(txt)
            par = emit.parents(tree)
            for n in ast.walk(tree):
                if isinstance(n, ast.Name) and isinstance(ph.get(n.id), emit.Hole) and ph[n.id].path == path:
                    top = n
                    while par.get(top) is not None and isinstance(par[top], ast.expr) and not isinstance(par[top], (ast.Yield, ast.Tuple)) \
                            and not (isinstance(par[top], ast.Call) and emit.call_name(par[top]) in (f"{self.buffer}.append", f"{self.buffer}.extend")):
                        top = par[top]
                    ev = SchemaEval(sc, ph, pc, {}, lambda s: None, [])
                    return ev.ev(top), ast.unparse(top)
        return None, None

    def const_terms(self, sc, status):
        """child path -> compile-time term of its constant text; also the order in which they were written"""
        res = Resolver(sc.st, sc.gen)
        out, order = {}, []
        for p in sc.pieces:
            if not isinstance(p, Sym):
                continue
            for sub in subterms(p.t):
                if z3.is_app(sub) and sub.decl().name() == "py_repr_str":
                    t = res.z3str(sub.children()[0])
                    parts = list(t[1]) if t[0] == "concat" else [t]
                    for part in parts:
                        fs, base = unary_chain(self.fix_finalize(part))
                        if base[0] == "child":
                            out[base[1]] = (fs, base, part)
                            order.append(base[1])
        return out, order

    def fix_finalize(self, t):
        """call_obj(environment.finalize!N, ...) -> environment.finalize(...)"""
        if not isinstance(t, tuple):
            return t
        if t and t[0] == "call":
            name = t[1]
            if isinstance(name, tuple) and name[0] == "unknown" and str(name[1]).startswith("environment.finalize"):
                name = "environment.finalize"
            return ("call", name, tuple(self.fix_finalize(a) for a in t[2]), t[3])
        return tuple(self.fix_finalize(x) if isinstance(x, tuple) else x for x in t)

    def run(self, tier, seed):
        t0 = time.time()
        out = []
        try:
            scs, I = output_schemas(1, self.buffer)
            scs2, _ = output_schemas(2, self.buffer)
        except Unsupported as ex:
            return [Res(self.name + ".engine", "unknown", "pyvc", time.time() - t0, f"unsupported: {ex}", self.kind)]
        child = "node.nodes[0]"
        is_td = z3.Bool("node.nodes[0].isinstance(TemplateData)")
        consts, runtimes = [], []
        for i, sc in enumerate(scs):
            if sc.outcome == "raise":
                out.append(Res(f"{self.label('total')}{self.pn(i)}", "refuted", "pyvc-path", 0, f"visit_Output raises {sc.value!r}", self.kind,
                               witness={"clause": "total", "exception": repr(sc.value)}))
                continue
            stt = child_status(sc)
            (consts if isinstance(stt.get(child), Sym) else runtimes).append((i, sc))
        if not consts or not runtimes:
            return [Res(self.name + ".paths", "error", "pyvc", 0, f"{len(consts)} constant paths, {len(runtimes)} run-time paths", self.kind)]
        for i, sc in consts:
            t1 = time.time()
            flags = {"autoescape": sc.flag("eval_ctx.autoescape"), "finalize": not implied(sc.pc, z3.Not(z3.BoolVal(True))) and any("py_truthy(environment.finalize" in str(c) and not str(c).startswith("Not(") for c in sc.pc),
                     "template_data": sc.holds(is_td)}
            # ---- volatile: a compile-time constant's escaping decision uses the compile-time flag
            nonvol = sc.holds(z3.Not(VOLATILE)) or flags["template_data"]  # TemplateData.as_const raises Impossible when volatile (C08.fold.TemplateData)
            out.append(Res(f"{self.label('volatile')}{self.pn(i)}", "discharged" if nonvol else "refuted", "pyvc-path", time.time() - t1,
                           "" if nonvol else "visit_Output writes a child as compile-time constant text although frame.eval_ctx.volatile may hold: its escaping was decided with the "
                           f"compile-time autoescape flag ({flags['autoescape']}) while the run-time flag is set by the autoescape block's expression",
                           self.kind, witness=None if nonvol else dict(flags, clause="volatile", path_condition=[str(c) for c in sc.pc][:8])))
            terms, _ = self.const_terms(sc, None)
            if child not in terms:
                out.append(Res(f"{self.label('finalize_order')}{self.pn(i)}", "unknown", "pyvc-path", 0, f"cannot read the constant text of the child off `{sc.describe()[:200]}`", self.kind))
                continue
            fs_c, base_c, raw = terms[child]
            if not flags["template_data"] and satisfiable(list(sc.pc) + [is_td]) and "finalize" in "".join(fs_c):
                # the path does not decide whether the child is template data, yet finalizes it: template data must not go through finalize
                out.append(Res(f"{self.label('template_data')}{self.pn(2000 + i)}", "refuted", "pyvc-path", time.time() - t1,
                               f"a child that may be template data is written at compile time as {show(raw)}: template data does not go through finalize", self.kind,
                               witness=dict(flags, clause="template_data", compile_time=show(raw))))
            if flags["template_data"]:
                # template data: the text is the data itself (escape(Markup(d)) = Markup(d), str(d) = d); no finalize
                ae = flags["autoescape"]
                ok = as_text(fs_c) == (["escape"] if ae else []) and ae is not None
                out.append(Res(f"{self.label('template_data')}{self.pn(i)}", "discharged" if ok else "refuted", "pyvc-path", time.time() - t1,
                               "" if ok else f"compile-time text of template data is {show(raw)}", self.kind,
                               witness=None if ok else dict(flags, clause="template_data", compile_time=show(raw))))
                continue
            # ---- finalize order: compile-time text == run-time text on the same value, in non-volatile frames
            pcs = list(sc.pc) + [z3.Not(VOLATILE)]
            n_cmp, fails = 0, []
            for j, rt in runtimes:
                if not satisfiable(pcs + list(rt.pc)) or set(n for n in sc.notes if n.startswith("pass_arg")) != set(n for n in rt.notes if n.startswith("pass_arg")):
                    continue
                term, txt = self.runtime_expr(rt, child, pcs + list(rt.pc))
                if term is None:
                    continue
                fs_r, base_r = unary_chain(term)
                n_cmp += 1
                if not (as_text(fs_c) == as_text(fs_r) and base_r == ("child", child)):
                    fails.append((fs_c, fs_r, txt))
            nm = f"{self.label('finalize_order')}{self.pn(i)}"
            if not n_cmp:
                out.append(Res(nm, "error", "pyvc-path", 0, "no run-time path to compare with", self.kind))
            elif fails:
                fs_c, fs_r, txt = fails[0]
                out.append(Res(nm, "refuted", "pyvc-path", time.time() - t1,
                               f"compile-time text of a constant child is {'('.join(fs_c) or 'identity'}(v) but the same value at run time renders as {txt} "
                               f"= {'('.join(fs_r)}(v); flags {flags}", self.kind,
                               witness=dict(flags, clause="finalize_order", compile_time=fs_c, run_time=fs_r)))
            else:
                out.append(Res(nm, "discharged", "pyvc-path", time.time() - t1, f"{n_cmp} run-time schemas agree", self.kind))
        # ---- template data on run-time paths (volatile frames): the emitted expression must still render the data itself
        for j, rt in runtimes:
            if not satisfiable(list(rt.pc) + [is_td]):
                continue
            t1 = time.time()
            if rt.holds(z3.Not(VOLATILE)):
                # TemplateData.as_const succeeds in a non-volatile frame (C08.fold.TemplateData): it must have been written as a constant
                ev = [e for e in rt.st.trace if e.kind == "call" and e.name == "child.as_const"]
                succeeded = any(isinstance(e.result, Sym) for e in ev) or (not ev and rt.holds(is_td))
                if succeeded and rt.holds(is_td):
                    term, txt = self.runtime_expr(rt, child, list(rt.pc))
                    out.append(Res(f"{self.label('template_data')}{self.pn(3000 + j)}", "refuted", "pyvc-path", time.time() - t1,
                                   f"template data whose as_const succeeded is not written as a constant but emitted as {txt} (non-volatile frame)", self.kind,
                                   witness={"clause": "template_data_runtime", "emitted": txt, "finalize": False, "nonvolatile": True}))
                continue
            for rt_ae in (True, False):
                term, txt = self.runtime_expr(rt, child, list(rt.pc))
                val = self.text_value(term, rt_ae)
                ok = val in (("plain", "d"), ("markup", "d"))
                out.append(Res(f"{self.label('template_data')}{self.pn(1000 + 2 * j + (1 if rt_ae else 0))}", "discharged" if ok else "refuted", "pyvc-path", time.time() - t1,
                               "" if ok else f"in a volatile frame template data is emitted as {txt}, which renders {val} instead of the data (run-time autoescape={rt_ae}); "
                               "in a non-volatile frame the same data is written verbatim", self.kind,
                               witness=None if ok else {"clause": "template_data_runtime", "autoescape": rt_ae, "emitted": txt,
                                                        "finalize": "finalize" in (txt or "")}))
        # ---- groups: two children are written in source order, none dropped or duplicated
        for i, sc in enumerate(scs2):
            if sc.outcome == "raise":
                continue
            t1 = time.time()
            stt = child_status(sc)
            terms, order = self.const_terms(sc, None)
            seq = []
            for txt, ph in sc.texts():
                pos = {}
                for nm_, h in ph.items():
                    if isinstance(h, emit.Hole):
                        pos[h.path] = txt.index(nm_)
                # constants: position of their repr placeholder is not individually visible; use piece order
                break
            written = []
            for p in sc.pieces:
                if isinstance(p, emit.Hole):
                    written.append(p.path)
                elif isinstance(p, Sym):
                    for sub in subterms(p.t):
                        if z3.is_app(sub) and sub.decl().name() == "py_repr_str":
                            t = Resolver(sc.st, sc.gen).z3str(sub.children()[0])
                            for part in (list(t[1]) if t[0] == "concat" else [t]):
                                fs, base = unary_chain(self.fix_finalize(part))
                                if base[0] == "child":
                                    written.append(base[1])
            want = ["node.nodes[0]", "node.nodes[1]"]
            ok = written == want
            out.append(Res(f"{self.label('groups')}{self.pn(i)}", "discharged" if ok else "refuted", "pyvc-path", time.time() - t1,
                           "" if ok else f"children are written as {written}, expected source order {want}: `{sc.describe()[:200]}`", self.kind,
                           witness=None if ok else {"clause": "groups", "written": written}))
        return out

    def text_value(self, term, rt_ae):
        """small evaluator for the text a run-time output expression renders for a TemplateData child d"""
        def ev(t):
            if t[0] == "child":
                return ("markup", "d") if rt_ae else ("plain", "d")  # visit_TemplateData in a volatile frame: (Markup if autoescape else identity)(d)
            if t[0] == "call":
                name = t[1]
                if isinstance(name, tuple) and name[0] == "ite":
                    cond = name[1]
                    name = name[2] if (cond == ("rtflag", "autoescape") and rt_ae) else name[3]
                if isinstance(name, tuple) and name[0] == "global":
                    name = name[1]
                args = [ev(a) for a in t[2]]
                if name == "escape" and len(args) == 1:
                    return args[0] if args[0][0] == "markup" else ("markup", f"ESC({args[0][1]})")
                if name in ("str", "py.str") and len(args) == 1:
                    return ("plain", args[0][1])
                if name == "Markup" and len(args) == 1:
                    return ("markup", args[0][1])
                return ("plain", f"{name}(...)")
            return ("plain", show(t))
        return ev(term)

    def finding_key(self, res):
        w = res.witness or {}
        c = w.get("clause")
        if c == "volatile":
            return "constant-output-in-volatile-frame"
        if c == "finalize_order":
            return f"finalize_order:{'.'.join(w.get('compile_time', []))}!={'.'.join(w.get('run_time', []))}"
        if c == "template_data_runtime":
            return "template-data-finalized-in-volatile-frame" if w.get("finalize") else "template-data-runtime:" + str(w.get("emitted"))
        return f"{c}"

    def replay(self, w):
        return native_output_replay(w)


def native_output_replay(w):
    return (None, "native family not loaded")


# =====================================================================================================
# C08.fold.signature   what CodeGenerator.signature passes == what args_as_const collects
# =====================================================================================================

ISKW = z3.Function("keyword.iskeyword", z3.StringSort(), z3.BoolSort())


def configure_signature(I):
    import typing
    I.specs[("fn", id(typing.cast))] = lambda I_, st, args, kwargs, node: [(st, args[1])]

    def iskw(I_, st, args, kwargs, node):
        a = args[0]
        if isinstance(a, str):
            import keyword
            return [(st, keyword.iskeyword(a))]
        return [(st, Sym(ISKW(to_term(a, "str")), "bool"))]

    I.specs[("fn", id(C.is_python_keyword))] = iskw

    isascii_fn = z3.Function("str.isascii", z3.StringSort(), z3.BoolSort())
    I.specs["str.isascii"] = lambda I_, st, args, kwargs, node: [(st, Sym(isascii_fn(to_term(args[0], "str")), "bool"))]


def signature_predicate(shape):
    na, nk = shape.get("args", 0), shape.get("kwargs", 0)

    def hole_path(n, ph):
        if isinstance(n, ast.Name) and isinstance(ph.get(n.id), emit.Hole):
            return ph[n.id].path
        return None

    def key_of(placeholder, ph):
        p = ph.get(placeholder)
        if p and p[0] in ("ident", "repr") and z3.is_app(p[1]):
            t = p[1]
            if t.decl().name() == "str2obj":
                t = t.children()[0]
            return t.decl().name()
        return None

    def pred(sc, tree, ph, txt):
        if sc.outcome == "raise":
            return [f"raises {sc.value!r}"]
        t = emit.unwrap_await(tree)
        if not isinstance(t, ast.Call) or hole_path(t.args[-1] if False else t.args[0] if emit.call_name(t) == "context.call" else (t.args[1] if len(t.args) > 1 else None), ph) != "node.node":
            return [f"not a gated call of the callee: {txt!r}"]
        rest = t.args[1:] if emit.call_name(t) == "context.call" else t.args[2:]
        fails = []
        dyn_args = "node.dyn_args is present" in sc.notes
        dyn_kwargs = "node.dyn_kwargs is present" in sc.notes
        pos = [a for a in rest if not isinstance(a, ast.Starred)]
        star = [a for a in rest if isinstance(a, ast.Starred)]
        if [hole_path(a, ph) for a in pos] != [f"node.args[{i}]" for i in range(na)]:
            fails.append(f"positional arguments are {[hole_path(a, ph) for a in pos]}, expected node.args[0..{na}) in order")
        if [hole_path(a.value, ph) for a in star] != (["node.dyn_args"] if dyn_args else []):
            fails.append("*dyn_args is not passed exactly once as *<dyn_args>")
        if star and rest and rest[-1] is not star[0]:
            fails.append("*dyn_args does not follow the positional arguments")
        plain = [k for k in t.keywords if k.arg is not None]
        dstar = [k for k in t.keywords if k.arg is None]
        want_kw = [(f"node.kwargs[{i}].key", f"node.kwargs[{i}].value") for i in range(nk)]
        if plain:
            got = [(key_of(k.arg, ph), hole_path(k.value, ph)) for k in plain]
            if got != want_kw:
                fails.append(f"keyword arguments are {got}, expected {want_kw}")
            if [hole_path(k.value, ph) for k in dstar] != (["node.dyn_kwargs"] if dyn_kwargs else []):
                fails.append("**dyn_kwargs is not passed exactly once")
        else:
            # no plain keyword: either there are none, or the python-keyword workaround  **{...} / **dict({...}, **dyn)
            got, merged = [], []
            for k in dstar:
                v = k.value
                if isinstance(v, ast.Call) and emit.call_name(v) == "dict" and len(v.args) == 1 and isinstance(v.args[0], ast.Dict):
                    merged += [hole_path(kk.value, ph) for kk in v.keywords if kk.arg is None]
                    v = v.args[0]
                if isinstance(v, ast.Dict):
                    got += [(key_of(f"'{kx.value}'", ph) if isinstance(kx, ast.Constant) else None, hole_path(vx, ph)) for kx, vx in zip(v.keys, v.values)]
                else:
                    merged.append(hole_path(v, ph))
            if got != want_kw:
                fails.append(f"keyword arguments (workaround form) are {got}, expected {want_kw}")
            if merged != (["node.dyn_kwargs"] if dyn_kwargs else []):
                fails.append(f"**dyn_kwargs is passed as {merged}")
        return fails

    return pred


def signature_tasks():
    ts = []
    for shape in [{"args": a, "kwargs": k} for a in (0, 1, 2) for k in (0, 1, 2)]:
        ts.append(EmitTask(PROP, f"C08.fold.signature[{shape_tag(shape)}]", "jinja2.compiler:CodeGenerator.visit_Call", N.Call, signature_predicate(shape),
                           node_fields=shaped_fields("Call", shape), install_opts={"modular_signature": False}, configure=configure_signature,
                           frame_flags={"loop_frame": False, "block_frame": False},  # Filter/Test call signature() without extra keyword arguments
                           replay_fn=lambda w: native_family_replay("Filter"), min_paths=4))
    return ts


# =====================================================================================================
# C08.optimizer   Optimizer.generic_visit / Const.from_untrusted
# =====================================================================================================

class OptimizerVisit(VC):
    """generic_visit returns the (recursively transformed) node unchanged, or - only for an Expr whose as_const
    succeeds - Const.from_untrusted(node.as_const(eval_ctx)); nothing else, and only Impossible is swallowed."""
    prop = PROP
    target = "jinja2.optimizer:Optimizer.generic_visit"

    def __init__(self, with_ctx):
        self.with_ctx = with_ctx
        super().__init__(PROP, f"C08.optimizer.generic_visit[{'eval_ctx' if with_ctx else 'no_eval_ctx'}]")

    def configure(self, I):
        emit.install(I)
        I.specs["Expr.as_const"] = A.abstract_fn("node.as_const", returns="obj", raises=[N.Impossible, ("any", Exception)])
        I.specs["Node.as_const"] = I.specs["Expr.as_const"]
        I.specs["jinja2.nodes:Const.from_untrusted"] = A.abstract_fn("Const.from_untrusted", returns="obj", raises=[N.Impossible])
        c = self

        def super_spec(I_, st, args, kwargs, node):
            return [(st, st.alloc(HObj(_SuperProxy, fields={}, path="super()")))]

        I.specs[("fn", id(super))] = super_spec

        def super_generic_visit(I_, st, args, kwargs, node):
            st.trace.append(Event("call", "NodeTransformer.generic_visit", args[1:], kwargs, c.node2))
            return [(st, c.node2)]

        I.specs["_SuperProxy.generic_visit"] = super_generic_visit

    def setup(self, I, st):
        from jinja2.optimizer import Optimizer
        self.g = emit.Gen(st)
        self.opt = A.obj(st, Optimizer, "optimizer", fields={"environment": self.g.env})
        self.node = emit.make_node(st, N.Node, "node")
        self.node2 = emit.make_node(st, N.Node, "transformed")
        args = (self.g.eval_ctx,) if self.with_ctx else ()
        self.kwv = sym("kwvalue", "obj")
        return "locals", {"self": self.opt, "node": self.node, "args": args, "kwargs": st.alloc(HDict(items={"kw": self.kwv}))}

    def p_result(self, pre, out):
        is_expr = z3.Bool("transformed.isinstance(Expr)")
        sup = A.calls(out, "NodeTransformer.generic_visit")
        ac = A.calls(out, "node.as_const")
        fu = A.calls(out, "Const.from_untrusted")
        if len(sup) != 1 or sup[0].args[0] != self.node:
            return False
        # the recursive transformation of the children runs under the SAME eval context / arguments
        want_rest = [self.g.eval_ctx] if self.with_ctx else []
        if list(sup[0].args[1:]) != want_rest or {k: v for k, v in sup[0].kwargs.items()} != {"kw": self.kwv}:
            return False
        if out.raised:
            # only a non-Impossible exception of as_const may propagate
            e = out.value
            return z3.And(is_expr, z3.BoolVal(e.cls is not N.Impossible and e.tag.startswith("node.as_const")))
        if out.value == self.node2:
            # unchanged: not an Expr, or folding was Impossible
            # an exception recorded here was caught by `except nodes.Impossible` (the engine forks an abstract exception
            # into "is an Impossible" / "is not"), so it is an Impossible
            imp = any(isinstance(x.result, Exc) for x in ac + fu)
            return z3.Or(z3.Not(is_expr), z3.BoolVal(imp))
        # replaced: only by Const.from_untrusted(as_const(transformed node, eval_ctx), lineno=node.lineno, environment=self.environment)
        if len(ac) != 1 or len(fu) != 1 or out.value is not fu[0].result:
            return False
        a = ac[0]
        if a.args[0] != self.node2:
            return False
        ctx_ok = (a.args[1] == self.g.eval_ctx) if self.with_ctx else (len(a.args) > 1 and a.args[1] is None)
        f = fu[0]
        val_ok = len(f.args) >= 2 and f.args[1] is a.result
        env_ok = f.kwargs.get("environment") == self.g.env
        ln = f.kwargs.get("lineno")
        ln_ok = isinstance(ln, Sym) and str(ln.t) == "transformed.lineno"
        return z3.And(is_expr, z3.BoolVal(bool(ctx_ok and val_ok and env_ok and ln_ok)))

    posts = [("replaces_only_by_const_of_as_const", p_result)]

    def concretize(self, model, pre, out):
        return {"optimizer": True}

    def replay(self, w):
        return native_family_replay("optimizer")


class _Callee2:
    def __init__(self, name):
        self.__name__ = name

    def __call__(self, *a, **k):
        raise RuntimeError("abstract")


F_VISIT = _Callee2("visit_Class")


class VisitorForwards(VC):
    """NodeVisitor.visit / NodeVisitor.generic_visit / NodeTransformer.generic_visit hand (*args, **kwargs) unchanged to EVERY child visit
    (children in list-valued fields and in single-node fields alike) and to the visit_<Class> / generic_visit they dispatch to: the optimizer
    passes the frame's EvalContext this way, so every node is folded under the eval context optimize() was given."""
    prop = PROP

    def __init__(self, which):
        self.which = which
        self.target = {"visit": "jinja2.visitor:NodeVisitor.visit", "generic_visit": "jinja2.visitor:NodeVisitor.generic_visit",
                       "transform": "jinja2.visitor:NodeTransformer.generic_visit"}[which]
        super().__init__(PROP, "C08.optimizer.forwards_eval_ctx." + {"visit": "NodeVisitor.visit", "generic_visit": "NodeVisitor.generic_visit",
                                                                    "transform": "NodeTransformer.generic_visit"}[which])

    def configure(self, I):
        emit.install(I)
        c = self

        def visit_spec(I_, st, args, kwargs, node):
            # the visit of a child: returns the child itself (kept), None (removed) or a replacement node
            outs = []
            for tag, rv in (("same", args[1]), ("none", None), ("new", c.replacement)):
                s2 = st.fork()
                s2.trace.append(Event("call", "self.visit", args[1:], kwargs, rv, lineno=getattr(node, "lineno", None)))
                s2.note(f"visit -> {tag}")
                outs.append((s2, rv))
            return outs if c.which == "transform" else outs[:1]

        I.specs["NodeVisitor.visit"] = visit_spec
        I.specs["NodeTransformer.visit"] = visit_spec
        I.specs["Optimizer.visit"] = visit_spec
        I.specs["Optimizer.generic_visit"] = A.abstract_fn("self.generic_visit", returns="obj")
        I.specs["NodeVisitor.generic_visit"] = I.specs["Optimizer.generic_visit"]
        I.specs["NodeTransformer.generic_visit"] = I.specs["Optimizer.generic_visit"]

        def get_visitor(I_, st, args, kwargs, node):
            s2 = st.fork()
            st.note("no visit_<Class> method")
            s2.note("visit_<Class> exists")
            return [(st, None), (s2, F_VISIT)]

        I.specs["NodeVisitor.get_visitor"] = get_visitor
        I.specs["Optimizer.get_visitor"] = get_visitor
        I.specs[("fn", id(F_VISIT))] = A.abstract_fn("visit_Class", returns="obj")

        def iter_fields(I_, st, args, kwargs, node):
            return [(st, tuple(c.fields))]

        def iter_child_nodes(I_, st, args, kwargs, node):
            return [(st, tuple(c.children))]

        I.specs["Node.iter_fields"] = iter_fields
        I.specs["Node.iter_child_nodes"] = iter_child_nodes

        def setattr_spec(I_, st, args, kwargs, node):
            return I_.setattr(st, args[0], args[1], args[2], node)

        I.specs[("fn", id(setattr))] = setattr_spec
        I.specs[("fn", id(delattr))] = lambda I_, st, args, kwargs, node: [(st, None)]

        # `lst[:] = values` (whole-list replacement in place) on a concrete list; the engine has no slice assignment
        base_assign = I.assign

        def assign(target, v, st, fr):
            if isinstance(target, ast.Subscript) and isinstance(target.slice, ast.Slice) and target.slice.lower is None and target.slice.upper is None and target.slice.step is None:
                outs = []
                for s2, o in I.ev(target.value, st, fr):
                    if isinstance(o, Raised):
                        outs.append((s2, o))
                        continue
                    h = s2.get(o)
                    if not (isinstance(h, HList) and h.concrete):
                        raise Unsupported("slice assignment to an abstract list", target)
                    h.items[:] = list(I.iter_concrete(s2, v, target))
                    outs.append((s2, None))
                return outs
            return base_assign(target, v, st, fr)

        I.assign = assign

    def setup(self, I, st):
        from jinja2.optimizer import Optimizer
        self.g = emit.Gen(st)
        self.opt = A.obj(st, Optimizer, "optimizer", fields={"environment": self.g.env})
        mk = lambda path: emit.make_node(st, N.Const, path, kind="expr")
        self.l0, self.l1, self.single = mk("node.items[0]"), mk("node.items[1]"), mk("node.single")
        self.replacement = mk("replacement")
        self.lst = st.alloc(HList(items=[self.l0, "not a node", self.l1]), initial=True)
        self.node = emit.make_node(st, N.Node, "node", fields={"items": self.lst, "single": self.single, "name": "x"})
        self.fields = [("items", self.lst), ("name", "x"), ("single", self.single)]
        self.children = [self.l0, self.l1, self.single]
        self.kwv = sym("kwvalue", "obj")
        return "locals", {"self": self.opt, "node": self.node, "args": (self.g.eval_ctx,), "kwargs": st.alloc(HDict(items={"kw": self.kwv}))}

    def forwarded(self, ev):
        return list(ev.args[1:]) == [self.g.eval_ctx] and dict(ev.kwargs) == {"kw": self.kwv}

    def p_forward(self, pre, out):
        if out.raised:
            return False
        if self.which == "visit":
            evs = A.calls(out, "visit_Class") + A.calls(out, "self.generic_visit")
            if len(evs) != 1:
                return False
            ev = evs[0]
            # visit_Class(node, *args, **kwargs) / self.generic_visit(node, *args, **kwargs)
            a = list(ev.args)
            if ev.name == "self.generic_visit":
                a = a[1:]  # receiver
            return a[:1] == [self.node] and a[1:] == [self.g.eval_ctx] and dict(ev.kwargs) == {"kw": self.kwv} and out.value is ev.result
        evs = A.calls(out, "self.visit")
        visited = [e.args[0] for e in evs]
        if visited != [self.l0, self.l1, self.single] and not (self.which == "generic_visit" and visited == [self.l0, self.l1, self.single]):
            return False
        return all(self.forwarded(e) for e in evs)

    def p_transform(self, pre, out):
        """list field: kept / removed / replaced in place, non-node values kept; single field: replaced or deleted"""
        if self.which != "transform" or out.raised:
            return None
        evs = A.calls(out, "self.visit")
        if len(evs) != 3:
            return False
        want = []
        for child, ev in ((self.l0, evs[0]), (None, None), (self.l1, evs[1])):
            if child is None:
                want.append("not a node")
            elif ev.result is not None:
                want.append(ev.result)
        items = out.st.get(self.lst).items
        ok_list = items == want
        single = out.st.get(self.node).fields.get("single")
        ok_single = True if evs[2].result is None else (single == evs[2].result)
        return bool(ok_list and ok_single and out.value == self.node)

    posts = [("every_child_visit_receives_exactly_args_and_kwargs", p_forward), ("children_replaced_in_place", p_transform)]

    def concretize(self, model, pre, out):
        return {"class": "optimizer-forwarding", "which": self.which}

    def replay(self, w):
        return native_nested_replay()


def native_nested_replay():
    n, bad = differential(nested_family(), placements=["set", "output"], envs=["default"])
    bad = [b for b in bad if b[0] not in known_keys()]
    if bad:
        return True, f"{bad[0][1]}  [{bad[0][0]}]"
    return False, f"{n} renderings of constant sub-expressions in list positions inside autoescape blocks agree"


class FromUntrusted(VC):
    """Const.from_untrusted(value): Impossible iff not has_safe_repr(value), else a Const holding exactly that value"""
    prop = PROP
    target = "jinja2.nodes:Const.from_untrusted"

    def __init__(self):
        super().__init__(PROP, "C08.optimizer.from_untrusted")

    def configure(self, I):
        emit.install(I)
        I.specs[("fn", id(C.has_safe_repr))] = lambda I_, st, args, kwargs, node: [(st, Sym(z3.Bool("has_safe_repr(value)"), "bool"))]
        I.specs["jinja2.compiler:has_safe_repr"] = I.specs[("fn", id(C.has_safe_repr))]

        def const_new(I_, st, args, kwargs, node):
            r = st.alloc(HObj(N.Const, fields={"value": args[0] if args else kwargs.get("value"), "lineno": kwargs.get("lineno"), "environment": kwargs.get("environment")}, path="new_const"))
            return [(st, r)]

        I.specs[("fn", id(N.Const))] = const_new

    def setup(self, I, st):
        self.value = sym("value", "obj")
        self.lineno = sym("lineno", "int")
        self.env = sym("env", "obj")
        return [N.Const, self.value], {"lineno": self.lineno, "environment": self.env}

    def p_result(self, pre, out):
        safe = z3.Bool("has_safe_repr(value)")
        if out.raised:
            return z3.And(z3.Not(safe), z3.BoolVal(out.value.cls is N.Impossible))
        h = out.st.get(out.value) if isinstance(out.value, Ref) else None
        ok = h is not None and h.cls is N.Const and h.fields.get("value") is self.value and h.fields.get("lineno") is self.lineno and h.fields.get("environment") is self.env
        return z3.And(safe, z3.BoolVal(bool(ok)))

    posts = [("const_of_value_iff_safe_repr", p_result)]

    def concretize(self, model, pre, out):
        return {"from_untrusted": True}

    def replay(self, w):
        return native_family_replay("optimizer")


# =====================================================================================================
# C08.evalctx   visit_EvalContextModifier / visit_ScopedEvalContextModifier / EvalContext.save, revert
# =====================================================================================================

def configure_evalctx(I):
    I.specs["Expr.as_const"] = A.abstract_fn("child.as_const", returns="obj", raises=[N.Impossible])

    def setattr_spec(I_, st, args, kwargs, node):
        if not isinstance(args[1], str):
            raise Unsupported("setattr with a symbolic name", node)
        return I_.setattr(st, args[0], args[1], args[2], node)

    I.specs[("fn", id(setattr))] = setattr_spec


def option_fields(n):
    def make(st):
        items = []
        for i in range(n):
            items.append(emit.make_node(st, N.Keyword, f"node.options[{i}]", kind="expr", fields={"key": "autoescape"}))
        return {"options": st.alloc(HList(items=items), initial=True)}
    return make


def modifier_predicate(n_options, scoped):
    def pred(sc, tree, ph, txt):
        if sc.outcome == "raise":
            return [f"raises {sc.value!r}"]
        fails = []
        st = sc.st
        ctx = st.get(sc.gen.eval_ctx).fields
        evs = [e for e in st.trace if e.kind == "call" and e.name == "child.as_const"]
        if len(evs) != n_options:
            fails.append(f"{len(evs)} option values were evaluated at compile time, expected {n_options}")
        # ---- emitted text
        body = list(tree.body)
        if scoped:
            first, last = body[0], body[-1]
            ok_first = isinstance(first, ast.Assign) and isinstance(first.value, ast.Call) and emit.call_name(first.value) == "context.eval_ctx.save" and not first.value.args
            inner = body[1:-1]
            if isinstance(last, ast.Try) and len(body) == 2 and not last.handlers and not last.orelse and len(last.finalbody) == 1:
                # save; try: <options, body> finally: revert   (the context is restored on every way out)
                inner = [x for x in last.body if not isinstance(x, ast.Pass)]
                last = last.finalbody[0]
            ok_last = isinstance(last, ast.Expr) and isinstance(last.value, ast.Call) and emit.call_name(last.value) == "context.eval_ctx.revert" and ok_first \
                and len(last.value.args) == 1 and isinstance(last.value.args[0], ast.Name) and last.value.args[0].id == first.targets[0].id
            if not (ok_first and ok_last):
                fails.append(f"scoped modifier does not save the run-time context first and revert it last: {txt!r}")
            body = inner
        assigns = body[:n_options]
        for i, a in enumerate(assigns):
            ok = isinstance(a, ast.Assign) and emit.call_name(a.targets[0]) == "context.eval_ctx.autoescape" and isinstance(a.value, ast.Name) \
                and isinstance(ph.get(a.value.id), emit.Hole) and ph[a.value.id].path == f"node.options[{i}].value"
            if not ok:
                fails.append(f"option {i} is not emitted as context.eval_ctx.<key> = <value>: {ast.unparse(a)}")
        if len(assigns) != n_options:
            fails.append("an option assignment is missing")
        # ---- compile-time context
        any_dynamic = any(isinstance(e.result, Exc) for e in evs)
        const_vals = [e.result for e in evs if isinstance(e.result, Sym)]
        vol = ctx.get("volatile", "lazy")
        ae = ctx.get("autoescape", "lazy")
        untouched_vol = vol == "lazy" or (isinstance(vol, Sym) and str(vol.t) == "eval_ctx.volatile")
        untouched_ae = ae == "lazy" or (isinstance(ae, Sym) and str(ae.t) == "eval_ctx.autoescape")
        if scoped:
            if not (untouched_vol and untouched_ae):
                fails.append(f"compile-time eval context is not restored after the scoped modifier: volatile={vol!r} autoescape={ae!r}")
            extra = set(ctx) - {"environment", "volatile", "autoescape"}
            if extra:
                fails.append(f"compile-time eval context keeps extra attributes {sorted(extra)}")
        else:
            if any_dynamic and vol is not True:
                fails.append(f"an option value is not constant but frame.eval_ctx.volatile is {vol!r}, not True")
            if not any_dynamic and not untouched_vol:
                fails.append(f"all option values are constant but volatile was changed to {vol!r}")
            if const_vals and isinstance(evs[-1].result, Sym) and ae is not const_vals[-1]:
                fails.append(f"constant option value was not stored in the compile-time context: autoescape={ae!r}")
            if not const_vals and not untouched_ae:
                fails.append(f"autoescape was changed to {ae!r} although no option value is constant")
        return fails

    return pred


def evalctx_tasks():
    ts = []
    for n in (1, 2):
        ts.append(EmitTask(PROP, f"C08.evalctx.modifier[options={n}]", "jinja2.compiler:CodeGenerator.visit_EvalContextModifier", N.EvalContextModifier,
                           modifier_predicate(n, False), mode="stmts", node_fields=option_fields(n), configure=configure_evalctx, min_paths=2 ** n,
                           replay_fn=lambda w: native_family_replay("evalctx")))
        ts.append(EmitTask(PROP, f"C08.evalctx.scoped[options={n}]", "jinja2.compiler:CodeGenerator.visit_ScopedEvalContextModifier", N.ScopedEvalContextModifier,
                           modifier_predicate(n, True), mode="stmts", node_fields=option_fields(n), configure=configure_evalctx, min_paths=2 ** n,
                           replay_fn=lambda w: native_family_replay("evalctx")))
    return ts


class SaveRevert(VC):
    """EvalContext.save returns a copy of all attributes; revert(old) makes the attributes exactly `old` again"""
    prop = PROP
    target = "jinja2.nodes:EvalContext.revert"

    def __init__(self):
        super().__init__(PROP, "C08.evalctx.save_revert")

    def setup(self, I, st):
        self.fields = {"environment": sym("env", "obj"), "autoescape": sym("ae", "obj"), "volatile": sym("vol", "bool"), "custom": sym("custom", "obj")}
        self.ctx = A.obj(st, N.EvalContext, "eval_ctx", fields=dict(self.fields))
        clo = I.closure_of_function(extract.resolve("jinja2.nodes:EvalContext.save"))
        rs = I.call_closure(st, clo, [self.ctx], {})
        if len(rs) != 1 or isinstance(rs[0][1], Raised):
            raise CheckerError("EvalContext.save does not return on exactly one path")
        self.saved = rs[0][1]
        h = st.get(self.saved) if isinstance(self.saved, Ref) else None
        self.save_ok = isinstance(h, HDict) and h.concrete and h.items == self.fields and self.saved != self.ctx
        # the compiler mutates the context between save and revert
        st.get(self.ctx).fields["autoescape"] = True
        st.get(self.ctx).fields["volatile"] = True
        st.get(self.ctx).fields["extra"] = 1
        self.save_is_copy = st.get(self.saved).items == self.fields
        return [self.ctx, self.saved], {}

    def p_save(self, pre, out):
        return bool(self.save_ok and self.save_is_copy)

    def p_revert(self, pre, out):
        if out.raised:
            return False
        return out.st.get(self.ctx).fields == self.fields

    posts = [("save_returns_a_copy_of_all_attributes", p_save), ("revert_restores_exactly_the_saved_attributes", p_revert)]

    def concretize(self, model, pre, out):
        return {"save_revert": True}

    def replay(self, w):
        return native_family_replay("evalctx")


# =====================================================================================================
# native template family: replay oracle for every obligation above, and the bounded differential stand-in
# =====================================================================================================

def _leaves():
    from markupsafe import Markup
    return {
        "one": ("1", 1), "zero": ("0", 0), "seven": ("7", 7), "a": ("'a'", "a"), "lt": ("'<b>'", "<b>"), "empty": ("''", ""),
        "safe": ("('<i>'|safe)", Markup("<i>")), "list": ("[1, 2]", [1, 2]), "nil": ("[]", []), "dict": ("{'a': 1}", {"a": 1}), "none": ("none", None),
        "true": ("true", True), "false": ("false", False), "flt": ("2.5", 2.5), "abc": ("'abc'", "abc"), "five": ("5", 5), "amp": ("'a&b'", "a&b"),
        "lst1": ("[1]", [1]), "strs": ("['<', 'b']", ["<", "b"]), "mixed": ("[('<'|safe), '<']", None),
    }


class Expr_:
    """expression template: fmt with {0},{1}.. over leaf names; cls = node class at the top (the construct under test)"""

    def __init__(self, cls, fmt, *leaves):
        self.cls, self.fmt, self.leaves = cls, fmt, leaves

    def const(self):
        L = _leaves()
        return self.fmt.format(*[L[x][0] for x in self.leaves])

    def lifted(self):
        from markupsafe import Markup
        L = _leaves()
        names, ctx = [], {}
        for i, x in enumerate(self.leaves):
            if x == "mixed":
                names.append(f"[v{i}a, v{i}b]")
                ctx[f"v{i}a"], ctx[f"v{i}b"] = Markup("<"), "<"
            else:
                names.append(f"v{i}")
                ctx[f"v{i}"] = L[x][1]
        return self.fmt.format(*names), ctx


def family():
    """the bounded template family: small expressions whose leaves are constants"""
    out = []
    for op in ("+", "-", "*", "/", "//", "%", "**"):
        cls = {"+": "Add", "-": "Sub", "*": "Mul", "/": "Div", "//": "FloorDiv", "%": "Mod", "**": "Pow"}[op]
        for a, b in (("seven", "one"), ("one", "zero"), ("a", "seven"), ("lt", "safe")):
            out.append(Expr_(cls, "{0} " + op + " {1}", a, b))
    for a in ("seven", "a"):
        out.append(Expr_("Neg", "-{0}", a))
        out.append(Expr_("Pos", "+{0}", a))
    for a in ("zero", "a", "nil", "none", "safe"):
        out.append(Expr_("Not", "not {0}", a))
        for b in ("lt", "safe"):
            out.append(Expr_("And", "{0} and {1}", a, b))
            out.append(Expr_("Or", "{0} or {1}", a, b))
    for a, b in itertools.product(("a", "lt", "safe", "one", "none"), repeat=2):
        out.append(Expr_("Concat", "{0} ~ {1}", a, b))
    out.append(Expr_("Concat", "{0} ~ {1} ~ {2}", "lt", "safe", "one"))
    for op in ("==", "<", "in", "not in"):
        for a, b in (("one", "seven"), ("a", "abc"), ("one", "list"), ("a", "one"), ("lt", "safe")):
            out.append(Expr_("Compare", "{0} " + op + " {1}", a, b))
    out.append(Expr_("Compare", "{0} < {1} < {2}", "zero", "one", "seven"))
    out.append(Expr_("Compare", "{0} < {1} < {2}", "one", "zero", "a"))
    for t in ("true", "false", "a", "nil"):
        out.append(Expr_("CondExpr", "{1} if {0} else {2}", t, "lt", "safe"))
        out.append(Expr_("CondExpr", "{1} if {0}", t, "lt"))
    for a, b in (("one", "lt"), ("safe", "none")):
        out.append(Expr_("Tuple", "({0}, {1})", a, b))
        out.append(Expr_("List", "[{0}, {1}]", a, b))
        out.append(Expr_("Dict", "{{'k': {0}, 'j': {1}}}", a, b))
    out.append(Expr_("Dict", "{{{0}: 1}}", "one"))
    out.append(Expr_("Dict", "{{{0}: 1}}", "lst1"))          # unhashable key
    out.append(Expr_("Dict", "{{{0}: 1, {1}: 2}}", "a", "a"))
    for a in ("abc", "list", "dict", "five", "none"):
        for sub in ("[0]", "['a']", "[1:2]", "[5]"):
            out.append(Expr_("Getitem", "{0}" + sub, a))
        for attr in (".a", ".upper", ".missing"):
            out.append(Expr_("Getattr", "{0}" + attr, a))
    flt1 = ["upper", "e", "escape", "safe", "forceescape", "string", "length", "first", "list", "striptags", "default('<d>', true)", "join('<')", "join",
            "replace('a', '<')", "int", "sum", "truncate(5)", "center(7)", "urlize", "xmlattr", "tojson", "indent(2)", "map('upper')|list", "select|list",
            "replace('a', 'b', count=1, **{{'count': 2}})", "replace(*['a', 'b'])", "e|e", "safe|e", "join(('<'|safe))", "unique|list", "batch(1)|list"]
    for f in flt1:
        for a in ("abc", "lt", "safe", "strs", "mixed", "dict", "none"):
            out.append(Expr_("Filter", "{0}|" + f, a))
    tests = ["odd", "defined", "none", "string", "sequence", "escaped", "divisibleby(7)", "sameas(none)", "eq(7)", "in([7])", "lower", "callable"]
    for t in tests:
        for a in ("seven", "abc", "safe", "none"):
            out.append(Expr_("Test", "{0} is " + t, a))
    return out


def nested_family():
    """constant sub-expressions in LIST positions (list items, filter arguments, ~ operands) whose value depends on the autoescape setting
    of the enclosing block (the block modes differ from the environment default): the optimizer must fold them under the block's eval context"""
    return [Expr_("Filter", "[{0}, {1} ~ {2}]|join('|')", "a", "lt", "safe"),
            Expr_("Filter", "{0}|replace('b', [{1}, {2}]|join)", "abc", "lt", "safe"),
            Expr_("Concat", "{0} ~ ({1} ~ {2})", "a", "lt", "safe"),
            Expr_("List", "[{0} ~ {1}, {2}]", "lt", "safe", "one"),
            Expr_("Tuple", "({0} ~ {1}, {2} ~ {0})", "lt", "safe", "a"),
            Expr_("Filter", "{0}|default({1} ~ {2}, true)", "empty", "safe", "lt"),
            Expr_("CondExpr", "({1} ~ {2}) if {0} else {2}", "true", "safe", "lt"),
            Expr_("Dict", "{{'k': {0} ~ {1}}}", "lt", "safe"),
            Expr_("Compare", "({0} ~ {1}) == ({0} ~ {1})", "lt", "safe"),
            Expr_("Test", "({0} ~ {1}) is escaped", "lt", "safe")]


def strict_family():
    """operands that fold to an Undefined object: with StrictUndefined their truth value / str() raises"""
    return [Expr_("Or", "{0}[3] or {1}", "lt", "one"), Expr_("And", "{0}[3] and {1}", "lt", "one"), Expr_("CondExpr", "{1} if {0}[3] else {1}", "lt", "one"),
            Expr_("Concat", "{0}[3] ~ {1}", "lt", "a"), Expr_("Not", "not {0}[3]", "lt"), Expr_("Compare", "{0}[3] == {1}", "lt", "one"),
            Expr_("Filter", "{0}[3]|upper", "lt"), Expr_("Tuple", "({0}[3], {1})", "lt", "one"), Expr_("Test", "{0}[3] is defined", "lt"), Expr_("Neg", "-({0}[3])", "lt")]


_STRICT = []


def finalize_family():
    """constant leaves written directly: drives the output-level constant path with a custom finalize"""
    return [Expr_("Const", "{0}", x) for x in ("none", "lt", "safe", "one", "list")]


PLACEMENTS = {
    "output": "{{{{ {e} }}}}",
    "set": "{{% set y = {e} %}}[{{{{ y|string|length }}}}{{{{ y is escaped }}}}{{{{ y|e }}}}]",
    "dead": "{{% set y = ({e}) if dead else 1 %}}[{{{{ y }}}}]",
}
# escaping modes: (environment autoescape, wrapper, wrapper context)
MODES = {
    "plain": (False, "{t}", {}),
    "autoescape": (True, "{t}", {}),
    "block_true": (False, "{{% autoescape true %}}{t}{{% endautoescape %}}", {}),
    "block_false": (True, "{{% autoescape false %}}{t}{{% endautoescape %}}", {}),
    "volatile_true": (False, "{{% autoescape flag %}}{t}{{% endautoescape %}}", {"flag": True}),
    "volatile_false": (True, "{{% autoescape flag %}}{t}{{% endautoescape %}}", {"flag": False}),
}
KIND = {"plain": "plain", "block_false": "plain", "autoescape": "autoescape", "block_true": "autoescape", "volatile_true": "volatile", "volatile_false": "volatile"}
# modes that must render alike (the autoescape option constant vs a variable holding the same value)
SAME_ESCAPING = [("autoescape", "block_true", "volatile_true"), ("plain", "block_false", "volatile_false")]


def _finalize_none(v):
    return "" if v is None else v


def _finalize_tag(v):
    return "[%s]" % (v,)


def _strict():
    from jinja2 import StrictUndefined
    return StrictUndefined


ENVS = {"default": {}, "finalize_none": {"finalize": _finalize_none}, "finalize_tag": {"finalize": _finalize_tag}, "async": {"enable_async": True},
        "strict": {"undefined": _strict()}}

import re as _re
_ADDR = _re.compile(r" at 0x[0-9a-f]+")


def render_outcome(src, ctx, env_kw, optimized, autoescape):
    from jinja2 import Environment
    import warnings
    try:
        with warnings.catch_warnings():
            warnings.simplefilter("ignore")
            env = Environment(optimized=optimized, autoescape=autoescape, **env_kw)
            return ("ok", _ADDR.sub("", env.from_string(src).render(**ctx)))
    except Exception as ex:  # noqa
        return ("err", type(ex).__name__)


def variants(e, placement, mode, envname):
    """outcomes of one template in one mode: folded+optimized, folded+unoptimized, constants lifted to variables"""
    ae, wrap, mctx = MODES[mode]
    lifted, lctx = e.lifted()
    out = {}
    for form, (expr, ctx) in (("const", (e.const(), {})), ("lifted", (lifted, lctx))):
        src = wrap.format(t=PLACEMENTS[placement].format(e=expr))
        c = dict(ctx, dead=False, **mctx)
        if form == "const":
            out["optimized"] = (src, render_outcome(src, c, ENVS[envname], True, ae))
            out["unoptimized"] = (src, render_outcome(src, c, ENVS[envname], False, ae))
        else:
            out["lifted"] = (src, render_outcome(src, c, ENVS[envname], True, ae))
    return out


def _sig(a, b, kind):
    """outcome signature of a disagreement: what the folded template does / what the reference does"""
    ka = "ok" if a[0] == "ok" else f"err.{a[1]}"
    kb = "ok" if b[0] == "ok" else f"err.{b[1]}"
    return f"text:{kind}" if (ka, kb) == ("ok", "ok") else f"{ka}/{kb}"


def disagreements(res):
    """res: mode -> variants.  -> list of (signature, kind, description); one report per mode (the strongest relation first)"""
    bad = []
    flagged = set()
    for mode, v in res.items():
        base = v["lifted"][1]
        for form in ("optimized", "unoptimized"):
            if v[form][1] != base:
                bad.append((_sig(v[form][1], base, KIND[mode]), KIND[mode],
                            f"{v[form][0]!r} [{form}, mode={mode}] -> {v[form][1]} but with the constants as variables {v['lifted'][0]!r} -> {base}"))
                flagged.add(mode)
                break
        if mode not in flagged and v["optimized"][1] != v["unoptimized"][1]:
            bad.append((_sig(v["optimized"][1], v["unoptimized"][1], KIND[mode]), KIND[mode],
                        f"{v['optimized'][0]!r} [mode={mode}] optimized -> {v['optimized'][1]}, Environment(optimized=False) -> {v['unoptimized'][1]}"))
            flagged.add(mode)
    for group in SAME_ESCAPING:
        if not all(g in res for g in group) or any(g in flagged for g in group):
            continue
        outs = {m: res[m]["optimized"][1] for m in group}
        if len(set(outs.values())) > 1:
            bad.append((_sig(outs[group[0]], outs[group[2]], "volatile"), "volatile",
                        f"{res[group[0]]['optimized'][0]!r} renders differently when the autoescape option is a constant or a variable with the same value: {outs}"))
    return bad


def differential(exprs, placements=None, modes=None, envs=None, limit=None):
    """-> (n renderings, list of (key, description)).
    key = <site>:<outcome signature>.  A disagreement of an expression written directly in an output tag, in a volatile frame, that does
    not occur when the same expression is first assigned (`set`/`dead` placements) is attributed to the site `Output` (visit_Output's own
    compile-time constants); every other disagreement to the expression's node class.  A disagreement already reported for the same
    expression and placement in the default environment is not reported again for another environment."""
    bad, n = [], 0
    for e in exprs:
        seen_default = set()
        for envname in envs or ENVS:
            if envname == "async" and e.cls not in ("Filter", "Test", "Getattr", "Getitem"):
                continue
            if envname.startswith("finalize") and e.cls != "Const":
                continue
            if (envname == "strict") != (e in _STRICT):
                continue
            per_pl = {}
            for pl in placements or PLACEMENTS:
                if envname.startswith("finalize") and pl != "output":
                    continue
                res = {}
                for mode in modes or MODES:
                    res[mode] = variants(e, pl, mode, envname)
                    n += 3
                per_pl[pl] = disagreements(res)
            value_level = {(sg, k) for pl in ("set", "dead") for sg, k, _ in per_pl.get(pl, [])}
            for pl, ds in per_pl.items():
                for sg, kind, d in ds:
                    site = e.cls
                    if pl == "output" and sg == "text:volatile" and (sg, kind) not in value_level:
                        site = "Output"
                    if envname == "default":
                        seen_default.add((pl, sg))
                    elif (pl, sg) in seen_default:
                        continue
                    key = f"{site}:{sg}" + ("" if envname == "default" else f"@{envname}")
                    bad.append((key, d + f" [env={envname}, placement={pl}]"))
            if limit and len(bad) >= limit:
                return n, bad
    return n, bad


def extra_templates():
    """templates outside the expression grammar of family(): non-finite / huge constants, template data with finalize"""
    return [
        ("Const", "inf", "{% set x = 1e999 %}{{ x + 1 }}", "{% set x = v %}{{ x + 1 }}", {"v": float("inf")}),
        ("Const", "nan", "{% set x = 1e999 - 1e999 %}[{{ x }}]", "{% set x = v - v %}[{{ x }}]", {"v": float("inf")}),
        ("Const", "inf-in-list", "{% set x = [1e999] %}{{ x }}", "{% set x = [v] %}{{ x }}", {"v": float("inf")}),
        ("Const", "int-5001-digits", "{% set x = 10 ** 5000 %}{{ x > 1 }}", "{% set x = v ** 5000 %}{{ x > 1 }}", {"v": 10}),
        ("Const", "negative-zero", "{% set x = -0.0 %}{{ x }}", "{% set x = v %}{{ x }}", {"v": -0.0}),
        ("Const", "int-2**100", "{% set x = 2 ** 100 %}{{ x }}", "{% set x = v ** 100 %}{{ x }}", {"v": 2}),
        ("Const", "negative-power-base", "{{ (1 - 4) ** x }}|{% set y = (0 - 1.5) ** x %}{{ y }}", "{{ (a - b) ** x }}|{% set y = (c - d) ** x %}{{ y }}", {"a": 1, "b": 4, "c": 0, "d": 1.5, "x": 2}),
        ("Test", "sameas-literals", "{% set r = 1000 is sameas 1000 %}{{ r }}", "{% set r = a is sameas b %}{{ r }}", {"a": 1000, "b": 1000}),
        ("And", "unknown-test-in-dropped-operand", "{% set r = false and (1 is nosuchtest) %}{{ r }}", "{% set r = f and (1 is nosuchtest) %}{{ r }}", {"f": False}),
        ("Or", "unknown-filter-in-dropped-operand", "{% set r = 1 or (1|nosuchfilter) %}{{ r }}", "{% set r = t or (1|nosuchfilter) %}{{ r }}", {"t": 1}),
        ("Mul", "shared-inner-list", "{% set x = [[]] * 2 %}{{ x[0].append(1) }}{{ x }}", "{% set x = [[]] * n %}{{ x[0].append(1) }}{{ x }}", {"n": 2}),
        ("Filter", "macro-called-under-other-autoescape",
         "{% macro m() %}{% set c = ['<a>', '<b>'|safe]|join(',') %}{{ c }}{% endmacro %}{% autoescape false %}{{ m() }}{% endautoescape %}|{% autoescape true %}{{ m() }}{% endautoescape %}",
         "{% macro m() %}{% set c = L|join(',') %}{{ c }}{% endmacro %}{% autoescape false %}{{ m() }}{% endautoescape %}|{% autoescape true %}{{ m() }}{% endautoescape %}",
         {"L": ["<a>", __import__("markupsafe").Markup("<b>")]}),
        ("Filter", "block-inside-autoescape",
         "{% autoescape true %}{% block b %}{% set c = ['<a>', '<b>'|safe]|join(',') %}{{ c }}{% endblock %}{% endautoescape %}",
         "{% autoescape true %}{% block b %}{% set c = L|join(',') %}{{ c }}{% endblock %}{% endautoescape %}", {"L": ["<a>", __import__("markupsafe").Markup("<b>")]}),
        ("TemplateData", "data-and-constant", "<b>&amp;{{ '<' }}", "<b>&amp;{{ v }}", {"v": "<"}),
        ("TemplateData", "data-only", "<b>&amp;", "<b>&amp;", {}),
    ]


OWN_AUTOESCAPE_REGIONS = {"macro-called-under-other-autoescape", "block-inside-autoescape"}


def differential_extra(only_cls=None):
    bad, n = [], 0
    for cls, name, const, lifted, ctx in extra_templates():
        if only_cls and cls != only_cls:
            continue
        for envname in ("default", "finalize_tag"):
            res = {}
            for mode, (ae, wrap, mctx) in MODES.items():
                if name in OWN_AUTOESCAPE_REGIONS and mode not in ("plain", "autoescape"):
                    continue  # these templates bring their own autoescape regions
                n += 3
                res[mode] = {"optimized": (wrap.format(t=const), render_outcome(wrap.format(t=const), dict(ctx, **mctx), ENVS[envname], True, ae)),
                             "unoptimized": (wrap.format(t=const), render_outcome(wrap.format(t=const), dict(ctx, **mctx), ENVS[envname], False, ae)),
                             "lifted": (wrap.format(t=lifted), render_outcome(wrap.format(t=lifted), dict(ctx, **mctx), ENVS[envname], True, ae))}
            if envname != "default" and cls != "TemplateData":
                continue
            for sg, kind, d in disagreements(res):
                bad.append((f"{cls}:{sg}:{name}" + ("" if envname == "default" else f"@{envname}"), d + f" [env={envname}]"))
    return n, bad


_KNOWN = None


def known_keys():
    """keys of the bounded stand-in already registered as known findings: a replay looks for a failing input that is not one of them"""
    global _KNOWN
    if _KNOWN is None:
        _KNOWN = set()
        try:
            for f in json.load(open(os.path.join(ROOT, "known_findings.d", "c08.json"))).get("findings", []):
                if f.get("obligation") == "C08.bounded.differential":
                    _KNOWN.add(f.get("key"))
        except OSError:
            pass
    return _KNOWN


def native_family_replay(cls_name, include_known=False):
    """native oracle for the symbolic obligations: the part of the template family that drives the construct, rendered optimized /
    unoptimized / constants-as-variables in all escaping modes; only disagreements attributed to that construct count"""
    fam = family()
    alias = {"Pair": "Dict", "Keyword": "Filter", "Slice": "Getitem"}
    cls_name = alias.get(cls_name, cls_name)
    generic = cls_name in (None, "optimizer", "evalctx")
    sel = fam[::5] if generic else [e for e in fam if e.cls == cls_name]
    sel = sel + [e for e in strict_members() if generic or e.cls == cls_name]
    n, bad = differential(sel, envs=["default", "async", "strict"])
    n2, bad2 = differential_extra(cls_name) if cls_name and not generic else (0, [])
    hits = [b for b in bad + bad2 if (generic or b[0].split(":")[0] == cls_name) and (include_known or b[0] not in known_keys())]
    if hits:
        return True, f"{hits[0][1]}  [{hits[0][0]}]"
    return False, f"{n + n2} renderings of the {cls_name} family agree (optimized / unoptimized / constants as variables, all escaping modes)" + ("" if include_known else " apart from the registered known findings")


def native_output_replay(w):
    clause = (w or {}).get("clause")
    if clause == "finalize_order":
        n, bad = differential(finalize_family(), placements=["output"], envs=["finalize_none", "finalize_tag"])
        bad = [b for b in bad if b[0].startswith("Const:")]
    elif clause in ("template_data_runtime", "template_data"):
        n, bad = differential_extra("TemplateData")
    else:
        fam = [e for e in family() if e.cls in ("Concat", "Or", "CondExpr", "Tuple")]
        n, bad = differential(fam, placements=["output", "set"], envs=["default"])
        bad = [b for b in bad if b[0].startswith("Output:")]
    if bad:
        return True, f"{bad[0][1]}  [{bad[0][0]}]"
    return False, f"{n} renderings agree"


PARTS = {"filters_a": lambda e: e.cls == "Filter" and hash_(e) % 2 == 0, "filters_b": lambda e: e.cls == "Filter" and hash_(e) % 2 == 1,
         "tests": lambda e: e.cls == "Test", "operators": lambda e: e.cls not in ("Filter", "Test")}


def hash_(e):
    return sum(map(ord, e.fmt))


def strict_members():
    if not _STRICT:
        _STRICT.extend(strict_family())
    return _STRICT


class Differential(FnTask):
    """bounded stand-in for the end-to-end statement (one task per part of the family; all report under C08.bounded.differential)"""

    def __init__(self, part):
        self.part = part
        FnTask.__init__(self, PROP, f"C08.bounded.differential[{part}]", None, "bounded", None)
        self.bound_text = ("template family: every expression `leaf op leaf`, `leaf|filter`, `leaf is test`, subscripts/attributes/slices, literals and inline-ifs over "
                           f"{len(_leaves())} constant leaves ({len(family())} expressions; this task: part `{part}`) x placements {sorted(PLACEMENTS)} x escaping modes "
                           f"{sorted(MODES)} x environments {sorted(ENVS)} (custom finalize only for constants written directly, async only for filters/tests/lookups); each "
                           "rendered optimized, with Environment(optimized=False) and with the constants replaced by context variables; quick tier: every third expression")

    def members(self, tier):
        if self.part == "extras":
            return finalize_family() + strict_members()
        fam = [e for e in family() if PARTS[self.part](e)]
        if tier == "quick":
            fam = fam[::3] + [e for e in fam if e.cls in ("Concat", "Dict", "Getitem")][1::3]
        if self.part == "operators":
            fam = fam + nested_family()
        return fam

    def run(self, tier, seed):
        t0 = time.time()
        n, bad = differential(self.members(tier))
        n2, bad2 = differential_extra() if self.part == "extras" else (0, [])
        self.stats = {"renderings": n + n2, "seconds": round(time.time() - t0, 2)}
        groups = {}
        for key, d in bad + bad2:
            groups.setdefault(key, d)
        if not groups:
            return [Res("C08.bounded.differential", "bounded-ok", "native", time.time() - t0, f"{n + n2} renderings agree", "bounded")]
        return [Res("C08.bounded.differential", "refuted", "native", time.time() - t0, d[:600], "bounded", {"key": k, "detail": d[:300]}) for k, d in sorted(groups.items())]

    def finding_key(self, res):
        return (res.witness or {}).get("key")

    def replay(self, w):
        key = (w or {}).get("key", "")
        n, bad = differential(self.members("thorough"))
        n2, bad2 = differential_extra() if self.part == "extras" else (0, [])
        hit = [b for b in bad + bad2 if b[0] == key]
        return (bool(hit), hit[0][1] if hit else f"{n + n2} renderings of part {self.part} agree on key {key}")


NATIVE_CASES = [("markup-in-list", '{{ ["<b>"|safe] }}', '{{ [y|safe] }}', {"y": "<b>"}), ("markup-in-dict", '{{ {"a": "b"|safe} }}', '{{ {"a": y|safe} }}', {"y": "b"}),
                ("markup-in-tuple", '{{ ("x"|safe, 1) }}', '{{ (y|safe, 1) }}', {"y": "x"}), ("list", "{{ [1, 2] }}", "{{ [a, 2] }}", {"a": 1}), ("sum", "{{ 1 + 2 }}", "{{ a + 2 }}", {"a": 1}),
                ("str", '{{ "a" ~ "b" }}', '{{ y ~ "b" }}', {"y": "a"}), ("markup", '{{ "<b>"|safe }}', "{{ y|safe }}", {"y": "<b>"})]


def native_case(name):
    from jinja2.nativetypes import NativeEnvironment
    for nm, const, lifted, ctx in NATIVE_CASES:
        if nm != name:
            continue
        outs = []
        for optimized, src in ((True, const), (False, const), (True, lifted)):
            try:
                v = NativeEnvironment(optimized=optimized).from_string(src).render(**ctx)
                outs.append((type(v).__name__, repr(v)))
            except Exception as ex:  # noqa
                outs.append(("err", type(ex).__name__))
        if len(set(outs)) > 1:
            return f"NativeEnvironment {const!r}: optimized -> {outs[0]}, optimized=False -> {outs[1]}, constants as variables {lifted!r} -> {outs[2]}"
    return None


class NativeFold(FnTask):
    """NativeCodeGenerator._output_child_to_const / _output_const_repr: a folded output child must give the same NATIVE value (bounded)"""

    def __init__(self):
        FnTask.__init__(self, PROP, "C08.bounded.native_output", None, "bounded", None)
        self.bound_text = f"{len(NATIVE_CASES)} single-expression templates in NativeEnvironment: optimized / optimized=False / constants as variables must give the same value of the same type"

    def run(self, tier, seed):
        rs = []
        for nm, *_ in NATIVE_CASES:
            d = native_case(nm)
            rs.append(Res(self.name, "refuted" if d else "bounded-ok", "native", 0, d or "", "bounded", {"native": nm} if d else None))
        return rs

    def finding_key(self, res):
        return "native:" + (res.witness or {}).get("native", "")

    def replay(self, w):
        d = native_case(w["native"])
        return (bool(d), d or "same native value")


# =====================================================================================================
# C08.fold.default / coverage table, C08.const.roundtrip
# =====================================================================================================

FOLD_CLASSES = ["Const", "TemplateData", "Tuple", "List", "Dict", "Pair", "Keyword", "CondExpr", "Filter", "Test", "Getitem", "Getattr", "Slice",
                "Concat", "Compare", "And", "Or", "Not", "MarkSafe", "MarkSafeIfAutoescape"]
ARITH_BIN = ["Add", "Sub", "Mul", "Div", "FloorDiv", "Mod", "Pow"]
ARITH_UN = ["Neg", "Pos"]
# expression classes whose run-time value depends on the context / environment / call: they must not fold
RUNTIME_ONLY = ["Name", "NSRef", "Call", "EnvironmentAttribute", "ExtensionAttribute", "ImportedName", "InternalName", "ContextReference", "DerivedContextReference"]


def default_table(task, tier, seed):
    rs = []

    def row(name, ok, detail, w=None):
        rs.append(Res(f"C08.fold.default.{name}", "discharged" if ok else "refuted", "table", 0, "" if ok else detail, "table", None if ok else (w or {"class": name})))

    # every node class with an as_const of its own is under a fold contract
    own = sorted(n for n, c in vars(N).items() if inspect.isclass(c) and issubclass(c, N.Node) and "as_const" in c.__dict__ and not n.startswith("_"))
    covered = set(FOLD_CLASSES) | {"Expr", "BinExpr", "UnaryExpr"}
    row("coverage", set(own) <= covered, f"node classes with an own as_const that no C08.fold contract covers: {sorted(set(own) - covered)}", {"class": "coverage"})
    row("filter_test_common", "as_const" in N._FilterTestCommon.__dict__ and N.Test.as_const is N._FilterTestCommon.as_const, "Test does not use _FilterTestCommon.as_const")
    for n in ARITH_BIN:
        row(f"{n}.inherits_BinExpr", getattr(N, n).as_const is N.BinExpr.as_const, f"{n} overrides as_const")
    for n in ARITH_UN + ["Not"]:
        row(f"{n}.inherits_UnaryExpr", getattr(N, n).as_const is N.UnaryExpr.as_const, f"{n} overrides as_const")
    for n in RUNTIME_ONLY:
        row(f"{n}.never_folds", getattr(N, n).as_const is N.Expr.as_const, f"{n}.as_const is not Expr.as_const: a context dependent expression may fold")
    # every concrete Expr class is either under a fold contract or never folds
    for n, c in sorted(vars(N).items()):
        if inspect.isclass(c) and issubclass(c, N.Expr) and not c.abstract and not n.startswith("_"):
            known = n in FOLD_CLASSES or n in ARITH_BIN or n in ARITH_UN or n in RUNTIME_ONLY
            row(f"{n}.classified", known, f"expression class {n} is not classified (folds / never folds)")
    return rs


class ExprDefault(VC):
    """Expr.as_const (inherited by every class that must not fold) raises Impossible on every path"""
    prop = PROP
    target = "jinja2.nodes:Expr.as_const"

    def __init__(self):
        super().__init__(PROP, "C08.fold.default.Expr_as_const")

    def configure(self, I):
        emit.install(I)

    def setup(self, I, st):
        g = emit.Gen(st)
        nd = emit.make_node(st, N.Name, "node")
        return [nd, g.eval_ctx], {}

    def p_raises(self, pre, out):
        return out.raised and out.value.cls is N.Impossible

    posts = [("always_Impossible", p_raises)]

    def concretize(self, model, pre, out):
        return {"class": "Name"}

    def replay(self, w):
        return native_family_replay(None)


def _nan_eq(a, b):
    """structural equality that distinguishes types, NaN-aware and signed-zero aware"""
    if type(a) is not type(b):
        return False
    if isinstance(a, float):
        if math.isnan(a) or math.isnan(b):
            return math.isnan(a) and math.isnan(b)
        return a == b and math.copysign(1, a) == math.copysign(1, b)
    if isinstance(a, complex):
        return _nan_eq(a.real, b.real) and _nan_eq(a.imag, b.imag)
    if isinstance(a, (tuple, list)):
        return len(a) == len(b) and all(_nan_eq(x, y) for x, y in zip(a, b))
    if isinstance(a, (set, frozenset)):
        return len(a) == len(b) and all(any(_nan_eq(x, y) for y in b) for x in a)
    if isinstance(a, dict):
        return len(a) == len(b) and all(any(_nan_eq(k, k2) and _nan_eq(v, v2) for k2, v2 in b.items()) for k, v in a.items())
    return a == b


def _alias_pattern(v):
    """which positions of a nested container hold the very same mutable object"""
    pos = {}

    def walk(x, path):
        if isinstance(x, (list, dict, set)):
            pos.setdefault(id(x), []).append(path)
        if isinstance(x, (list, tuple)):
            for i, y in enumerate(x):
                walk(y, path + (i,))
        elif isinstance(x, dict):
            for k, y in x.items():
                walk(y, path + (repr(k),))

    walk(v, ())
    return sorted(tuple(p) for p in pos.values() if len(p) > 1)


def roundtrip_family():
    from markupsafe import Markup
    inf, nan = float("inf"), float("nan")
    vals = [
        ("none", None), ("true", True), ("false", False), ("notimplemented", NotImplemented), ("ellipsis", Ellipsis),
        ("int0", 0), ("int-1", -1), ("int-3", -3), ("float-1.5", -1.5), ("int2**64", 2 ** 64), ("int-2**200", -(2 ** 200)), ("int4300digits", 10 ** 4299), ("int4301digits", 10 ** 4300),
        ("float0", 0.0), ("float-0", -0.0), ("float1.5", 1.5), ("float0.1", 0.1), ("floatmax", 1.7976931348623157e308), ("floatmin", 5e-324),
        ("float1e16", 1e16), ("float1e-7", 1e-7), ("inf", inf), ("-inf", -inf), ("nan", nan),
        ("complex1j", 1j), ("complex-0", complex(0.0, -0.0)), ("complex1+2j", 1 + 2j), ("complexinf", complex(inf, 1)), ("complexnan", complex(1, nan)),
        ("range0", range(0)), ("range1,10,3", range(1, 10, 3)), ("range-5", range(-5)),
        ("str", ""), ("strquotes", "a'\"\\\n\t\x00\x7f\xe9 \U0001f600"), ("strbraces", "{{ x }}{% y %}"), ("markup", Markup("<b>'\"&amp;")), ("markupempty", Markup("")),
        ("tuple0", ()), ("tuple1", (1,)), ("tuplenested", (1, (2, (3, ("x",))))), ("list0", []), ("listnested", [1, [2.5, [None, "a"]]]),
        ("set0", set()), ("set1", {1}), ("frozenset0", frozenset()), ("frozenset2", frozenset({1, "a"})), ("setoftuples", {(1, 2), (3,)}),
        ("dict0", {}), ("dictmixed", {1: "a", (1, 2): [3], "k": {"n": None}}), ("dictmarkup", {"m": Markup("<i>")}),
        ("list_inf", [inf]), ("tuple_nan", (1, nan)), ("dict_inf", {"a": -inf}), ("nested_inf", [(1, {"k": [inf]})]), ("set_inf", {inf}), ("dict_infkey", {inf: 1}),
        ("shared_list", [[]] * 2), ("shared_dict", [{}] * 2), ("shared_in_tuple", ([1],) * 2), ("shared_nested", {"a": [[0]] * 2}),
        ("tuple_bigint", (10 ** 4300,)), ("list_range", [range(3)]), ("tuple_complex", (2j, -0.0)),
    ]
    unsafe = [("object", object()), ("bytes", b"x"), ("strsubclass", type("S", (str,), {})("x")), ("list_with_bytes", [1, b"x"]), ("dict_objkey", {object(): 1}),
              ("namedtuple", __import__("collections").namedtuple("P", "a b")(1, 2)), ("listsubclass", type("L", (list,), {})([1])),
              ("tuplesubclass", type("T", (tuple,), {})((1,))), ("tuple_with_namedtuple", (1, __import__("collections").namedtuple("Q", "a")(1))),
              ("grouptuple", __import__("jinja2").filters._GroupTuple("k", [1])), ("markupsubclass", type("M", (__import__("markupsafe").Markup,), {})("x")),
              ("undefined", __import__("jinja2").Undefined()), ("function", len), ("intsubclass", type("I", (int,), {})(3)), ("dictsubclass", type("D", (dict,), {})())]
    return vals, unsafe


def const_text(v):
    """the text the REAL visit_Const writes for Const(v)"""
    import io
    from jinja2 import Environment
    env = Environment()
    gen = C.CodeGenerator(env, "t", "t.html")
    gen.stream = io.StringIO()
    frame = C.Frame(N.EvalContext(env, "t"))
    gen.visit_Const(N.Const(v), frame)
    return gen.stream.getvalue()


def module_namespace():
    import jinja2.runtime as R
    ns = {n: getattr(R, n) for n in list(R.exported) + list(R.async_exported)}
    return ns


def roundtrip_case(name, v):
    """-> (ok, key, detail)"""
    if not C.has_safe_repr(v):
        return True, "", "not has_safe_repr"
    try:
        txt = const_text(v)
    except Exception as ex:  # noqa
        return False, f"write-raises-{type(ex).__name__}", f"visit_Const raises {type(ex).__name__}: {str(ex)[:80]} for the constant {name}"
    try:
        back = eval(txt, module_namespace())
    except Exception as ex:  # noqa
        what = getattr(ex, "name", None) or str(ex)[:30]
        return False, f"text-raises-{type(ex).__name__}:{what}", f"visit_Const writes `{txt[:60]}` for the constant {name}; evaluating it in the template module raises {type(ex).__name__}: {ex}"
    if _alias_pattern(back) != _alias_pattern(v):
        return False, "shared-mutable-child", (f"visit_Const writes `{txt[:60]}` for the constant {name}, in which one mutable object occurs several times; the literal builds "
                                               "independent copies, so a later in-place change shows up once instead of everywhere")
    if not _nan_eq(back, v):
        return False, f"different-value:{name}", f"visit_Const writes `{txt[:60]}` for the constant {name} which evaluates to {back!r}"
    if type(v) in (int, float, complex) and not (isinstance(v, float) and math.isnan(v)):
        # the text is written into operator expressions: `(<text> ** x)` must mean (v ** x)
        try:
            powered = eval(f"({txt} ** 2)", module_namespace())
            if not _nan_eq(powered, v ** 2):
                return False, "operand-position:unary-minus-binds-looser-than-power", (f"visit_Const writes `{txt[:40]}` for the constant {name}; as left operand of ** the generated "
                                                                                        f"`({txt[:20]} ** 2)` evaluates to {powered!r}, not {v ** 2!r}")
        except (OverflowError, ZeroDivisionError):
            pass
    return True, "", ""


def roundtrip(task, tier, seed):
    vals, unsafe = roundtrip_family()
    rs = []
    t0 = time.time()
    for i, (name, v) in enumerate(vals):
        ok, key, detail = roundtrip_case(name, v)
        if not C.has_safe_repr(v):
            # not claimed representable: such a value is never written by visit_Const through folding (Const.from_untrusted refuses it)
            rs.append(Res(f"C08.const.roundtrip#p{i}", "discharged", "table", 0, f"has_safe_repr refuses {name}", "table"))
            continue
        rs.append(Res(f"C08.const.roundtrip#p{i}", "discharged" if ok else "refuted", "table", 0, detail, "table", None if ok else {"name": name, "key": key}))
    for i, (name, v) in enumerate(unsafe):
        ok = not C.has_safe_repr(v)
        rs.append(Res(f"C08.const.safe_repr_rejects#p{i}", "discharged" if ok else "refuted", "table", 0,
                      "" if ok else f"has_safe_repr accepts {name} ({type(v).__name__}) whose repr does not evaluate back to it", "table", None if ok else {"name": name, "key": "accepted:" + name, "unsafe": True}))
    return rs


def roundtrip_replay(w):
    vals, unsafe = roundtrip_family()
    d = dict(vals)
    if w.get("unsafe"):
        v = dict(unsafe)[w["name"]]
        return (C.has_safe_repr(v), f"has_safe_repr({w['name']}) = {C.has_safe_repr(v)}")
    ok, key, detail = roundtrip_case(w["name"], d[w["name"]])
    return (not ok, detail or "round trip ok")


class Roundtrip(FnTask):
    def __init__(self):
        FnTask.__init__(self, PROP, "C08.const.roundtrip", roundtrip, "table", roundtrip_replay)

    def finding_key(self, res):
        return (res.witness or {}).get("key")


# =====================================================================================================
# arithmetic classes: contracts.c20 (NoFold = value + interception clause; routed emission; tables) under C08 names
# =====================================================================================================

def arithmetic_tasks():
    from contracts import c20
    ts = []
    for cls, kind in [(c, "bin") for c in ARITH_BIN] + [(c, "un") for c in ARITH_UN]:
        t = c20.NoFold(cls, kind)
        t.prop, t.name = PROP, f"C08.fold.{cls}.as_const"
        t.replay = (lambda c_: (lambda w: native_family_replay(c_)))(cls)
        ts.append(t)
        op = (c20.BIN if kind == "bin" else c20.UN)[cls]
        ts.append(EmitTask(PROP, f"C08.fold.{cls}.schema", f"jinja2.compiler:CodeGenerator.visit_{cls}", getattr(N, cls), c20.routed_predicate(kind, op),
                           replay_fn=(lambda c_: (lambda w: native_family_replay(c_)))(cls), min_paths=2))
    oc = c20.OptimizeConst()
    oc.prop, oc.name = PROP, "C08.optimizeconst.new_func"
    oc.replay = lambda w: native_family_replay("optimizer")
    ts.append(oc)

    def tables(task, tier, seed):
        rs = c20.tables(task, tier, seed)
        for r in rs:
            r.name = r.name.replace("C20.tables", "C08.fold.tables")
        return rs

    ts.append(FnTask(PROP, "C08.fold.tables", tables, "table", lambda w: native_family_replay(None)))
    return ts


TASKS = (
    [Fold(cls, shape) for cls in FOLD_CLASSES for shape in shapes_of(cls)]
    + arithmetic_tasks()
    + signature_tasks()
    + [FnTask(PROP, "C08.fold.default", default_table, "table", lambda w: native_family_replay(None)), ExprDefault()]
    + [OutputConsistency(None), OutputConsistency("t_buf")]
    + [Roundtrip(), NativeFold()]
    + [OptimizerVisit(True), OptimizerVisit(False), FromUntrusted()]
    + [VisitorForwards("visit"), VisitorForwards("generic_visit"), VisitorForwards("transform")]
    + evalctx_tasks() + [SaveRevert()]
    + [Differential(p) for p in ("filters_a", "filters_b", "tests", "operators", "extras")]
)

META = {
    # proof of mechanism: per-construct obligations are discharged symbolically, but deciding steps include bounded child-list lengths and
    # bounded stand-ins (stated in `assumptions` / bound texts), so the property as a whole is not claimed at level "proof"
    "level": "other",
    "explanation": "Fold-consistency per node class: the real as_const (children abstract: constant or Impossible) and the emission schema of the real visitor are "
                   "both derived symbolically and shown to compute the same function of the child constants under the spec table of the runtime helpers; plus VCs on "
                   "Optimizer.generic_visit, Const.from_untrusted, optimizeconst, EvalContext.save/revert, emission contracts on visit_Output (compile-time constants vs the "
                   "run-time expression on the same value), the eval-context modifiers and CodeGenerator.signature, an exhaustive table for visit_Const round trips and a "
                   "bounded differential stand-in for the end-to-end statement. The whole-template statement is the congruence closure of the per-node facts (argued).",
    "assumptions": [
        "children's as_const return a constant or raise Impossible (modular; established for every class by its own C08.fold obligation)",
        "variadic node classes (Tuple, List, Dict, Concat, Compare, Filter/Test arguments) are checked for child lists of length 0..3 (0..2 for arguments) with symbolic "
        "children; the loop bodies are uniform in the index (no induction over the length)",
        "A7: await of a non-awaitable is the identity; attribute/item lookups on compile-time constants and non-async filters do not return awaitables",
        "comparison operators applied to compile-time constants return bool",
        "the run-time eval context equals the compile-time one in non-volatile frames (C08.evalctx) and its `volatile` attribute is never set by generated code",
        "constant expressions have no side effects, so the different evaluation order of filter arguments at compile time is not observable",
    ],
    "trusted_base": ["pyvc symbolic executor and emission engine", "z3 5.1", "spec table of runtime helpers in the module docstring (str_join, markup_join, Markup, escape, "
                     "environment.getattr/getitem, Python operators and call semantics)"],
}
