"""C05  Include and import honor the documented context visibility.

PROOF-OF-MECHANISM (DESIGN section 5, C05).

Runtime / environment (VCs on the real bodies):
  C05.new_context[...]              shared=False: parent = globals overlaid by vars (fresh dict); shared=True: parent IS vars, copied first
                                    when locals are merged; a local equal to `missing` is not merged; the caller's dicts are never written
                                    (loop invariant on the merge loop, unbounded dicts)
  C05.Context.get_all / get_exported   parent overlaid by vars; {k: vars[k] for k in exported_vars} as a NEW dict
  C05.Template.new_context / make_module / make_module_async   arguments threaded to runtime.new_context / TemplateModule
  C05.Template._get_default_module[_async]   cached module built with no vars; a context with extra globals gets an UNCACHED module built
                                    from exactly those keys the context can supply; never fails on its own (found: KeyError for a shared context, fixed in /repo e4a80dd)
  C05.TemplateModule.__init__       exports exactly context.get_exported(); body stream rendered once with the given context
  C05.Environment.get_template / select_template / get_or_select_template   first name that loads; only TemplateNotFound/UndefinedError
                                    caught; TemplatesNotFound iff none loads or the list is empty; dispatch on str/Undefined/Template/iterable
Compiler (emission contracts on the real visitors):
  C05.emit.include[...]   C05.emit.import / from_import / dump_local_context
  C05.emit.exports[names] pop_assign_tracking: context.exported_vars receives exactly the public (no leading "_") names of a
                          top-level assignment, in the `add` and the `update` form; nothing from loop / block frames
Parser (real bodies over the abstract token stream of C01):
  C05.parser.*            include defaults to `with context`, import/from to `without context`; the suffix sets with_context
"""
from __future__ import annotations

import ast
import z3

from pyvc.contract import VC, Res, FnTask, Task
from pyvc.emitcheck import EmitTask
from pyvc import emit, abstract as A
from pyvc.values import State, Sym, Ref, HObj, HList, HDict, HSet, Unsupported, sym, fresh, fresh_name, Obj, KIND_SORT, Exc, Event
from pyvc.interp import Raised
from pyvc.smt import to_term, model_value, host_const
from pyvc.stmts import LoopSpec
from pyvc.ops import isinst_fn

import jinja2.runtime as R
import jinja2.nodes as N
import jinja2.compiler as C
import jinja2.environment as E
from jinja2 import Environment, Undefined
from jinja2.exceptions import TemplateNotFound, TemplatesNotFound, UndefinedError, TemplateAssertionError
from jinja2.utils import missing

from contracts.c04 import GMap, gmap, gm, install_gmap, stream_loop, is_name, is_repr_of, decide, IS_ASYNC
from contracts.emit_common import is_hole, hole_of

S_ = z3.StringSort()
MISSING = host_const(missing)


# ================================================================== native oracles

def _env(templates, is_async=False, **kw):
    import jinja2
    return jinja2.Environment(loader=jinja2.DictLoader(templates), enable_async=is_async, **kw)


def _render(env, name, **kw):
    try:
        t = env.get_template(name) if isinstance(name, str) else name
        return t.render(**kw)
    except Exception as ex:
        return type(ex).__name__


def native_context(w=None):
    problems = guarded(_context_problems)
    if not problems:
        # family of the defect found in the hunt round and repaired since (b42cb82: `loop` for includes / imports with context)
        v, d = native_loop_in_include(w)
        problems = [d] if v else []
    return (bool(problems), "; ".join(problems[:3]) or "include/import template families agree with the documented visibility rules")


def _context_problems():
    """Native oracle: include/import template families against the documented visibility rules (reference model: an include sees
    context + locals unless `without context`; imports see only globals unless `with context`; a module exports the public
    top-level names; ignore missing suppresses only TemplateNotFound; a name list selects the first that exists)."""
    problems = []
    lib = {
        "show": "[{{ g }}|{{ v }}|{{ loc }}]",
        "lib": "{% set pub = 'P' %}{% set _priv = 'X' %}{% macro m() %}M({{ g }}|{{ v }}){% endmacro %}{% macro _pm() %}x{% endmacro %}{% import 'show' as imported %}{% from 'other' import o1 %}body",
        "other": "{% set o1 = 'O1' %}{% set o2 = 'O2' %}",
        "broken": "{% include 'does_not_exist' %}",
        "undef_inc": "{{ nothing.attr }}",
    }
    for is_async in (False, True):
        env = _env(lib, is_async)
        env.globals["g"] = "G"
        cases = [
            # include: context and locals visible by default
            ("{% set loc = 'L' %}{% include 'show' %}", "[G|V|L]"),
            ("{% for loc in ['a', 'b'] %}{% include 'show' %}{% endfor %}", "[G|V|a][G|V|b]"),
            ("{% with loc = 'W' %}{% include 'show' %}{% endwith %}", "[G|V|W]"),
            ("{% macro mm(loc) %}{% include 'show' %}{% endmacro %}{{ mm('A') }}", "[G|V|A]"),
            ("{% set loc = 'L' %}{% include 'show' with context %}", "[G|V|L]"),
            # without context: only globals
            ("{% set loc = 'L' %}{% include 'show' without context %}", "[G||]"),
            ("{% for loc in ['a'] %}{% include 'show' without context %}{% endfor %}", "[G||]"),
            # ignore missing / name lists
            ("{% include 'nope' ignore missing %}ok", "ok"),
            ("{% include 'nope' %}", "TemplateNotFound"),
            ("{% include 'nope' ignore missing without context %}ok", "ok"),
            ("{% include ['nope', 'show', 'other'] %}", "[G|V|]"),
            ("{% include ['nope', 'nope2'] %}", "TemplatesNotFound"),
            ("{% include ['nope', 'nope2'] ignore missing %}ok", "ok"),
            ("{% include [] ignore missing %}ok", "ok"),
            ("{% include names %}", "[G|V|]"),
            ("{% include 'broken' ignore missing %}", "TemplateNotFound"),   # only the lookup of THIS include is covered
            ("{% include 'undef_inc' ignore missing %}", "UndefinedError"),   # errors while rendering are not suppressed
            ("{% include tmpl_obj %}", "[G|V|]"),
            # imports: globals only by default
            ("{% import 'lib' as l %}{{ l.m() }}", "M(G|)"),
            ("{% import 'lib' as l with context %}{{ l.m() }}", "M(G|V)"),
            ("{% from 'lib' import m %}{{ m() }}", "M(G|)"),
            ("{% from 'lib' import m with context %}{{ m() }}", "M(G|V)"),
            ("{% from 'lib' import m as z, pub without context %}{{ z() }}{{ pub }}", "M(G|)P"),
            ("{% set loc = 'L' %}{% import 'show' as s with context %}{{ s }}", "[G|V|L]"),
            ("{% set loc = 'L' %}{% import 'show' as s %}{{ s }}", "[G||]"),
            ("{% for loc in ['q'] %}{% import 'show' as s with context %}{{ s }}{% endfor %}", "[G|V|q]"),
            # exports: public top-level names only; imported names are not re-exported
            ("{% import 'lib' as l %}{{ l.pub }}|{{ l._priv }}|{{ l.imported }}|{{ l.o1 }}|{{ l.nothing }}", "P||||"),
            ("{% from 'lib' import nothing %}{{ nothing }}", ""),
            ("{% from 'lib' import _priv %}", "TemplateAssertionError"),
            ("{% from 'lib' import pub as _hidden %}{{ _hidden }}", "P"),
        ]
        for src, want in cases:
            try:
                t = env.from_string(src)
                got = _render(env, t, v="V", names=["nope", "show"], tmpl_obj=env.get_template("show"))
            except Exception as ex:
                got = type(ex).__name__
            if got != want:
                problems.append(f"async={is_async} {src!r}: rendered {got!r}, documented {want!r}")
        # module attributes = exactly the public top-level assignments and macros
        if not is_async:
            mod = env.get_template("lib").module
            pub = sorted(k for k in vars(mod) if not k.startswith("_"))
            if pub != ["m", "pub"]:
                problems.append(f"module exports {pub}, expected ['m', 'pub']")
            if str(mod) != "body":
                problems.append(f"module body {str(mod)!r}")
            m2 = env.get_template("lib").make_module({"v": "V2"})
            if m2 is mod or str(m2.m()) != "M(G|V2)":
                problems.append("make_module(vars) must build a fresh module that sees vars")
            if env.get_template("lib").module is not mod:
                problems.append("the default module must be cached")
        # aliases at top level are exported by the importing template? no: imported names are discarded from the export set
        if not is_async:
            outer = env.from_string("{% import 'lib' as l %}{% from 'lib' import pub %}{% from 'lib' import pub as _p2 %}{% set mine = 1 %}")
            exp = sorted(vars(outer.module))
            exp = [k for k in exp if not k.startswith("_")]
            if exp != ["mine"]:
                problems.append(f"imported names must not be re-exported: {exp}")
            outer2 = env.from_string("{% set l = 1 %}{% set pub = 2 %}{% set keep = 3 %}{% import 'lib' as l %}{% from 'lib' import pub %}")
            exp = sorted(k for k in vars(outer2.module) if not k.startswith("_"))
            if exp != ["keep"]:
                problems.append(f"a name rebound by an import must leave the export set: {exp}")
        # exports = exactly the PUBLIC top-level names, whatever the shape of the assignment (single, tuple, nested tuple, in an if;
        # nothing from a loop / block / macro body), seen through the module object and through an importing template
        mods = {"one": ("{% set a = 1 %}{% set _p = 2 %}", ["a"]), "pair": ("{% set a, _p = 1, 2 %}", ["a"]), "pair_pub": ("{% set a, b = 1, 2 %}", ["a", "b"]),
                "triple": ("{% set a, b, _p = 1, 2, 3 %}", ["a", "b"]), "nested": ("{% set (a, _p), b = (1, 2), 3 %}", ["a", "b"]),
                "five": ("{% set _q, c, a, _p, b = 1, 2, 3, 4, 5 %}", ["a", "b", "c"]), "privates": ("{% set _p, _q = 1, 2 %}", []),
                "in_if": ("{% if true %}{% set a, b, _p = 1, 2, 3 %}{% endif %}", ["a", "b"]), "in_loop": ("{% for i in [1] %}{% set a, b, _p = 1, 2, 3 %}{% endfor %}", []),
                "in_block": ("{% block x %}{% set a, b, _p = 1, 2, 3 %}{% endblock %}", []), "setblock": ("{% set a %}x{% endset %}{% set _p %}y{% endset %}", ["a"]),
                "macros": ("{% macro pub() %}x{% endmacro %}{% macro _priv() %}y{% endmacro %}", ["pub"]),
                # a top-level if/elif/else branch is still the top level (soft frame): macros and assignments in it are exported
                "macro_if": ("{% if true %}{% macro pub() %}x{% endmacro %}{% macro _priv() %}y{% endmacro %}{% set a = 1 %}{% endif %}", ["a", "pub"]),
                "macro_elif": ("{% if false %}{% elif true %}{% macro pub() %}x{% endmacro %}{% set b = 1 %}{% endif %}", ["b", "pub"]),
                "macro_else": ("{% if false %}{% else %}{% macro pub() %}x{% endmacro %}{% macro _priv() %}y{% endmacro %}{% endif %}", ["pub"]),
                "macro_if_if": ("{% if true %}{% if true %}{% macro pub() %}x{% endmacro %}{% endif %}{% endif %}", ["pub"]),
                "macro_loop": ("{% for i in [1] %}{% macro pub() %}x{% endmacro %}{% endfor %}", []),
                "macro_block": ("{% block x %}{% macro pub() %}x{% endmacro %}{% endblock %}", []),
                "macro_in_macro": ("{% macro pub() %}{% macro c() %}x{% endmacro %}{{ c() }}{% endmacro %}", ["pub"]),
                "upper": ("{% set A, _p = 1, 2 %}", ["A"]), "upper3": ("{% set _q, B, _p = 1, 2, 3 %}", ["B"]), "mixed": ("{% set A, _p, b = 1, 2, 3 %}", ["A", "b"])}
        e4 = _env({k: v[0] for k, v in mods.items()}, is_async)
        cands = ["A", "B", "a", "b", "c", "pub", "_p", "_q", "_priv", "i"]
        for name, (src, want) in mods.items():
            probe = "{% import '" + name + "' as m %}" + "".join("{% if m." + c + " is defined %}" + c + " {% endif %}" for c in cands)
            seen = sorted(_render(e4, e4.from_string(probe)).split())
            if seen != want:
                problems.append(f"async={is_async} import of {src!r}: the importing template sees {seen}, expected {want}")
            if not is_async:
                exp = sorted(k for k in vars(e4.get_template(name).module) if k in cands)
                if exp != want:
                    problems.append(f"module of {src!r} exposes {exp}, expected {want}")
    problems += native_api()
    return problems


def native_api():
    """runtime.new_context / get_all / get_exported / select_template used directly"""
    out = []
    for f in (native_new_context, native_select):
        out += guarded(f)
    return out


def guarded(f):
    try:
        return f()
    except Exception as ex:  # the family itself must never fail on a correct tree
        return [f"{f.__name__} failed with {type(ex).__name__}: {str(ex)[:120]}"]


def native_new_context():
    import jinja2
    from jinja2.runtime import new_context
    problems = []
    env = _env({"a": "A", "b": "B"})
    blocks = {}
    for shared in (False, True):
        for vars_ in (None, {}, {"x": 1, "g": "shadow"}):
            for glob in (None, {}, {"g": "G", "h": "H"}):
                for loc in (None, {}, {"x": missing}, {"x": 2, "y": missing, "z": 3}):
                    v0, g0, l0 = (dict(d) if d is not None else None for d in (vars_, glob, loc))
                    ctx = new_context(env, "t", blocks, vars_, shared, glob, loc)
                    want = dict(v0 or {}) if shared else dict(g0 or {}, **(v0 or {}))
                    want.update({k: x for k, x in (l0 or {}).items() if x is not missing})
                    if ctx.parent != want:
                        problems.append(f"new_context(vars={v0}, shared={shared}, globals={g0}, locals={l0}).parent = {ctx.parent}, expected {want}")
                    if (vars_, glob, loc) != (v0, g0, l0):
                        problems.append(f"new_context modified its arguments: vars={vars_} globals={glob} locals={loc}")
                    if shared and vars_ is not None and not loc and ctx.parent is not vars_:
                        problems.append("shared=True without locals must use the caller's dict itself")
                    if ctx.globals_keys != set(g0 or ()):
                        problems.append(f"globals_keys = {ctx.globals_keys}")
    ctx = new_context(env, "t", blocks, {"p": 1, "q": 2}, True)
    ctx.vars.update({"q": 3, "r": 4, "_s": 5})
    ctx.exported_vars.update(("q", "r"))
    if ctx.get_all() != {"p": 1, "q": 3, "r": 4, "_s": 5} or ctx.get_exported() != {"q": 3, "r": 4}:
        problems.append(f"get_all/get_exported: {ctx.get_all()} / {ctx.get_exported()}")
    return problems


def native_select():
    import jinja2
    problems = []
    env = _env({"a": "A", "b": "B"})
    # select_template: first that loads; only TemplateNotFound / UndefinedError are skipped
    und = env.undefined(name="u")
    tb = env.get_template("b")
    table = [(["x", "b", "a"], "b"), (["a", "b"], "a"), ([und, "a"], "a"), ([tb, "a"], "b"), (["x", tb], "b"), (("x", "a"), "a")]
    for names, want in table:
        try:
            got = env.select_template(names).name
        except Exception as ex:
            got = type(ex).__name__
        if got != want:
            problems.append(f"select_template({names}) -> {got}, expected {want}")
    # the requested name (not the parent's) is what gets loaded; join_path(name, parent) may rewrite it
    class JoinEnv(jinja2.Environment):
        def join_path(self, template, parent):
            return parent.rsplit("/", 1)[0] + "/" + template if "/" in parent else template

    je = JoinEnv(loader=jinja2.DictLoader({"d/a": "DA", "a": "A", "d/main": "M"}))
    for call, want in ((lambda: je.get_template("a", "d/main").name, "d/a"), (lambda: je.get_template("a", "main").name, "a"), (lambda: je.get_template("a").name, "a"),
                       (lambda: je.select_template(["x", "a"], "d/main").name, "d/a"), (lambda: je.get_or_select_template(["x", "a"], "d/main").name, "d/a"),
                       (lambda: je.get_or_select_template("a", "d/main").name, "d/a"), (lambda: env.get_template("a", "b").name, "a")):
        try:
            got = call()
        except Exception as ex:
            got = type(ex).__name__
        if got != want:
            problems.append(f"lookup relative to a parent returned {got!r}, expected {want!r}")
    for names in ([], ["x", "y"], [und]):
        try:
            env.select_template(names)
            problems.append(f"select_template({names}) did not raise")
        except TemplatesNotFound:
            pass
        except Exception as ex:
            problems.append(f"select_template({names}) raised {type(ex).__name__}")
    try:
        env.select_template(und)
        problems.append("select_template(Undefined) did not raise")
    except UndefinedError:
        pass
    except Exception as ex:
        problems.append(f"select_template(Undefined) raised {type(ex).__name__}")

    class Boom(jinja2.BaseLoader):
        def get_source(self, environment, template):
            if template == "boom":
                raise RuntimeError("loader failure")
            raise TemplateNotFound(template)

    e2 = jinja2.Environment(loader=jinja2.ChoiceLoader([Boom(), jinja2.DictLoader({"a": "A"})]))
    try:
        e2.select_template(["boom", "a"])
        problems.append("select_template must not swallow a loader error other than TemplateNotFound")
    except RuntimeError:
        pass
    for arg, want in (("a", "a"), (["x", "a"], "a"), (tb, "b")):
        try:
            got = env.get_or_select_template(arg).name
        except Exception as ex:
            got = type(ex).__name__
        if got != want:
            problems.append(f"get_or_select_template({arg!r}) -> {got}")
    try:
        env.get_or_select_template(und)
        problems.append("get_or_select_template(Undefined) did not raise")
    except UndefinedError:
        pass
    except Exception as ex:
        problems.append(f"get_or_select_template(Undefined) raised {type(ex).__name__}")
    # default module: cached without vars; extra globals of the importing context give an uncached module
    e3 = _env({"lib": "{% macro m() %}{{ extra }}{% endmacro %}", "user": "{% import 'lib' as l %}{{ l.m() }}"})
    lib = e3.get_template("lib")
    if e3.get_template("user", globals={"extra": "E"}).render() != "E" or e3.get_template("user").render() != "E":
        problems.append("a template imported without context must see the importing template's extra globals")
    if lib._module is not None and "extra" in vars(lib._module):
        problems.append("the module built for extra globals must not be cached")
    return problems


def native_shared_globals(w=None):
    """Native oracle for _get_default_module: an import (without context) executed in a SHARED context - i.e. inside a template
    that was itself included with context or imported with context - whose template has template-specific globals."""
    problems = []
    for is_async in (False, True):
        for outer in ("{% include 'inc' %}", "{% import 'inc' as i with context %}{{ i }}"):
            env = _env({"main": outer, "inc": "{% import 'lib' as l %}[{{ l.x }}]", "lib": "{% set x = 1 %}"}, is_async)
            env.get_template("inc", globals={"foo": 7})
            got = _render(env, "main")
            if got != "[1]":
                problems.append(f"async={is_async}: {outer!r} of a template loaded with globals={{'foo': 7}} that imports 'lib': {got!r}, expected '[1]'")
    return (bool(problems), "; ".join(problems[:2]) or "imports inside shared contexts work")


def native_buffered_include(w=None):
    """Native oracle for visit_Include in buffered frames (macro, call block, set block, filter block)"""
    problems = []
    for is_async in (False, True):
        env = _env({"x": "X{{ v }}"}, is_async)
        for suffix, inner in ((" without context", "X"), ("", "X1"), (" with context", "X1")):
            inc = "{% include 'x'" + suffix + " %}"
            cases = [("{% macro m() %}[" + inc + "]{% endmacro %}{{ m() }}", f"[{inner}]"),
                     ("{% set y %}[" + inc + "]{% endset %}<{{ y }}>", f"<[{inner}]>"),
                     ("{% filter upper %}[" + inc + "]{% endfilter %}", f"[{inner}]".upper()),
                     ("{% macro m2() %}<{{ caller() }}>{% endmacro %}{% call m2() %}" + inc + "{% endcall %}", f"<{inner}>")]
            for src, want in cases:
                try:
                    got = env.from_string(src).render(v=1)
                except Exception as ex:
                    got = type(ex).__name__
                if got != want:
                    problems.append(f"async={is_async} {src!r}: rendered {got!r}, expected {want!r}")
    return (bool(problems), "; ".join(problems[:2]) or "includes inside buffered frames write into the buffer")


def native_include_rerenders(w=None):
    """an include without context renders the target each time (current globals visible), it does not replay an earlier render"""
    problems = []
    for is_async in (False, True):
        n = [0]

        def counter():
            n[0] += 1
            return n[0]

        env = _env({"noctx": "{% include 'inc' without context %}", "inc": "[{{ g }}]", "cnt": "<{{ counter() }}>",
                    "cnt2": "{% include 'cnt' without context %}{% include 'cnt' without context %}"}, is_async)
        env.globals.update(g="old", counter=counter)
        first = _render(env, "noctx")
        env.globals["g"] = "new"
        second = _render(env, "noctx")
        if (first, second) != ("[old]", "[new]"):
            problems.append(f"async={is_async}: include without context after env.globals['g'] changed from 'old' to 'new': {first!r} then {second!r}")
        got = _render(env, "cnt2")
        if got != "<1><2>":
            problems.append(f"async={is_async}: two includes without context of '<{{{{ counter() }}}}>' rendered {got!r}, expected '<1><2>'")
    return (bool(problems), "; ".join(problems[:2]) or "includes without context render the target each time")


def native_all(w=None):
    v, d = native_context(w)
    if v:
        return v, d
    return native_buffered_include(w)


# ================================================================== helpers

def dict_terms(st, v):
    """(dom, val) arrays of a str->obj dict value (concrete or abstract)"""
    h = st.get(v)
    if h.concrete:
        dom = z3.K(S_, z3.BoolVal(False))
        val = z3.K(S_, z3.Const("dummy_obj", Obj))
        for k, x in h.items.items():
            dom = z3.Store(dom, to_term(k, "str"), True)
            val = z3.Store(val, to_term(k, "str"), to_term(x, "obj"))
        return dom, val
    return h.dom, h.val


def empty_terms():
    return z3.K(S_, z3.BoolVal(False)), z3.K(S_, z3.Const("dummy_obj", Obj))


def install_dict_merge(I):
    """dependency spec: dict(base, **extra) for abstract mappings = base overlaid by extra, a NEW dict"""
    I.specs["star_kwargs_abstract"] = True

    def dict_spec(I_, st, args, kwargs, node):
        kwargs = dict(kwargs)
        star = kwargs.pop("**", None)
        if star is None:
            return I_.instantiate(st, dict, args, kwargs, node)
        if kwargs or len(args) > 1:
            raise Unsupported("dict(...) with further keywords", node)
        if args and isinstance(args[0], Ref):
            bd, bv = dict_terms(st, args[0])
        elif not args or args[0] == ():
            bd, bv = empty_terms()
        else:
            raise Unsupported(f"dict({args[0]!r}, **m)", node)
        ed, ev = dict_terms(st, star)
        nd = z3.Const(fresh_name("merge_dom"), z3.ArraySort(S_, z3.BoolSort()))
        nv = z3.Const(fresh_name("merge_val"), z3.ArraySort(S_, Obj))
        q = z3.Const(fresh_name("q"), S_)
        st.assume(z3.ForAll([q], z3.Select(nd, q) == z3.Or(z3.Select(bd, q), z3.Select(ed, q))))
        st.assume(z3.ForAll([q], z3.Select(nv, q) == z3.If(z3.Select(ed, q), z3.Select(ev, q), z3.Select(bv, q))))
        size = z3.Int(fresh_name("merge_size"))
        st.assume(size >= 0)
        r = st.alloc(HDict(dom=nd, val=nv, size=size, kk="str", vk="obj"))
        st.trace.append(Event("call", "dict_merge", [args[0] if args else (), star], {}, r))
        return [(st, r)]

    I.specs[("fn", id(dict))] = dict_spec


def aset(st, prefix, initial=True, dom=None):
    if dom is None:
        dom = z3.Const(fresh_name(prefix + "_dom"), z3.ArraySort(S_, z3.BoolSort()))
    size = z3.Int(fresh_name(prefix + "_size"))
    wit = z3.Const(fresh_name(prefix + "_wit"), S_)
    q = z3.Const(fresh_name("q"), S_)
    st.assume(size >= 0, (size > 0) == z3.Select(dom, wit), z3.ForAll([q], z3.Implies(z3.Select(dom, q), size > 0)))
    return st.alloc(HSet(dom=dom, size=size, kk="str"), initial=initial)


def install_setcomp(I):
    """{k: f(k) for k in <abstract set>} evaluated for ONE generic member k: the result is a generic mapping (see contracts.c04)
    with the set as its domain; the empty set gives the empty mapping."""
    install_gmap(I)
    base = I.specs["comp_abstract"]

    def comp(I_, e, g, st, cfr, itv, elt_fn):
        if isinstance(itv, Ref) and isinstance(st.get(itv), HSet) and st.get(itv).items is None and isinstance(e, ast.DictComp):
            hs = st.get(itv)
            q = z3.Const(fresh_name("q"), S_)
            out = []
            s0 = st.fork()
            s0.assume(z3.ForAll([q], z3.Not(z3.Select(hs.dom, q))))
            out.append((s0, gmap(s0, "comp", None, None, dom=z3.K(S_, z3.BoolVal(False)), initial=False)))
            k = fresh("member", "str")
            st.assume(z3.Select(hs.dom, k.t))
            for s1, r in I_.assign(g.target, k, st, cfr):
                # `if` clauses decide, for the generic member, whether it is kept (field "kept" of the result)
                conds = [(s1, True)]
                for c in g.ifs:
                    nc = []
                    for s4, ok in conds:
                        if ok is not True:
                            nc.append((s4, ok))
                            continue
                        for s5, cv in I_.ev(c, s4, cfr):
                            if isinstance(cv, Raised):
                                nc.append((s5, cv))
                            else:
                                nc += [(s6, b) for s6, b in I_.truth(s5, cv, cfr, c)]
                    conds = nc
                for s1b, ok in conds:
                    if isinstance(ok, Raised):
                        out.append((s1b, ok))
                        continue
                    if ok is False:
                        m = gmap(s1b, "comp", k, None, dom=hs.dom, initial=False)
                        s1b.get(m).fields["kept"] = False
                        out.append((s1b, m))
                        continue
                    for s2, val in elt_fn(s1b, cfr):
                        if isinstance(val, Raised):
                            out.append((s2, val))
                            continue
                        kk, vv = val[0]
                        if not (isinstance(kk, Sym) and kk.t.eq(k.t)):
                            raise Unsupported("dict comprehension over a set changes the key", e)
                        m = gmap(s2, "comp", k, vv, dom=hs.dom, initial=False)
                        s2.get(m).fields["kept"] = True
                        out.append((s2, m))
            return out
        if g.ifs:
            raise Unsupported("filtered comprehension over this abstract iterable", e)
        return base(I_, e, g, st, cfr, itv, elt_fn)

    comp.handles_filters = True
    I.specs["comp_abstract"] = comp

    def fill_loop(I_, n, st, fr, itv):
        """`acc = {}` ... `for k in <abstract set>: [if c:] acc[key] = value` is the comprehension {key: value for k in S if c} written
        out (same recognition as the engine's map_loop_as_comprehension, which only accepts a plain dict as the result): evaluated as
        that comprehension; the local then names the generic mapping.  Only when the fresh empty dict is referenced by nothing else."""
        if not (isinstance(itv, Ref) and isinstance(st.get(itv), HSet) and st.get(itv).items is None):
            return None
        if n.orelse or len(n.body) != 1 or isinstance(n, ast.AsyncFor):
            return None
        stmt, tests = n.body[0], []
        while isinstance(stmt, ast.If) and not stmt.orelse and len(stmt.body) == 1:
            tests.append(stmt.test)
            stmt = stmt.body[0]
        if not (isinstance(stmt, ast.Assign) and len(stmt.targets) == 1 and isinstance(stmt.targets[0], ast.Subscript)
                and isinstance(stmt.targets[0].value, ast.Name) and not isinstance(stmt.targets[0].slice, ast.Slice)):
            return None
        acc = stmt.targets[0].value.id
        comp_node = ast.DictComp(key=stmt.targets[0].slice, value=stmt.value,
                                 generators=[ast.comprehension(target=n.target, iter=n.iter, ifs=tests, is_async=0)])
        used = {x.id for part in [n.iter, n.target, comp_node.key, comp_node.value] + tests for x in ast.walk(part) if isinstance(x, ast.Name)}
        if acc in used:
            return None
        try:
            ref = I_.lookup(st, fr, acc, n)
        except Exception:
            return None
        if not (isinstance(ref, Ref) and isinstance(st.get(ref), HDict) and st.get(ref).items == {} and ref.id in st.allocated):
            return None
        # the empty dict must be reachable through this local only (the local is re-bound, the object is not updated in place)
        refs = sum(1 for fid, loc in st.frames.items() for v in loc.values() if v == ref)
        for h in st.heap.values():
            vals = list(getattr(h, "fields", {}).values()) if isinstance(h, HObj) else (list(h.items) if isinstance(h, HList) and h.items is not None else
                                                                                         list(h.items.values()) if isinstance(h, HDict) and h.items is not None else [])
            refs += sum(1 for v in vals if isinstance(v, Ref) and v == ref)
        if refs != 1:
            return None
        ast.copy_location(comp_node, n)
        ast.fix_missing_locations(comp_node)
        from pyvc.interp import Ctl, OK
        out = []
        for s2, v in I_.ev(comp_node, st, fr):
            if isinstance(v, Raised):
                out.append((s2, Ctl("raise", v.exc)))
                continue
            I_.store_name(s2, fr, acc, v)
            out.append((s2, OK))
        return out

    I.specs["for_abstract"] = fill_loop


def n_quantified(formulas):
    return sum(1 for f in formulas if z3.is_quantifier(f))


class CtxVC(VC):
    prop = "C05"
    timeout_quick = 20000

    def replay(self, w):
        return native_context(w)

    def concretize(self, model, pre, out):
        return {"vc": self.name}

    def discharge(self, name, pc, cond, timeout, seed, pre, out):
        r = VC.discharge(self, name, pc, cond, timeout, seed, pre, out)
        if r.status == "refuted" and r.witness is None:
            r.witness = {"vc": self.name, "side_obligation": name}  # loop invariants etc.: replayed through the native family
        return r


# ================================================================== runtime.new_context

class NewContext(CtxVC):
    target = "jinja2.runtime:new_context"
    timeout_quick = 6000

    def __init__(self, vars_, globals_, locals_):
        self.cfg = (vars_, globals_, locals_)
        super().__init__("C05", "C05.new_context[vars=%s,globals=%s,locals=%s]" % tuple("dict" if x else "None" for x in self.cfg))

    def configure(self, I):
        install_dict_merge(I)
        c = self
        # Satisfiability of the path conditions inside / after the merge loop (5+ quantified facts: items enumeration, merged dict,
        # invariants) is never decided by z3 within the feasibility budget, and z3 was observed (about 1 run in 20) not to come back
        # after such a *cancelled* check.  Those queries are skipped: both branches are explored / the path counts as reachable
        # (sound: an infeasible path only adds vacuous obligations).
        base_fork = I.fork_bool

        def fork_bool(st, cond):
            if n_quantified(st.pc) < 5:
                return base_fork(st, cond)
            cs = z3.simplify(cond)
            if z3.is_true(cs):
                return [(st, True)]
            if z3.is_false(cs):
                return [(st, False)]
            s1 = st.fork()
            s1.assume(cond)
            st.assume(z3.Not(cond))
            return [(s1, True), (st, False)]

        I.fork_bool = fork_bool

        def ctor(I_, st, args, kwargs, node):
            r = st.alloc(HObj(R.Context, path="new_context"))
            st.trace.append(Event("call", "context_class", args, kwargs, r))
            return [(st, r)]

        I.specs[I.spec_key(R.Context)] = ctor

        def parts(ctx):
            st = ctx.st
            ref, it, pos = st.ghost["dict_items"][-1]
            hl = st.get(c.locals)
            q = z3.Const(fresh_name("q"), S_)
            return st, pos, hl, q

        def merged(hl, pos, q, k):
            return z3.And(z3.Select(hl.dom, q), pos(q) < k, z3.Select(hl.val, q) != MISSING)

        def inv(ctx):
            st, pos, hl, q = parts(ctx)
            p = ctx.local("parent")
            hp = st.get(p)
            if z3.is_int_value(ctx.k) and ctx.k.as_long() == 0:
                c.entry_terms = dict_terms(st, p)  # first call of a cut: the loop entry state of THIS path
            d0, v0 = c.entry_terms
            m = merged(hl, pos, q, ctx.k)
            return [z3.ForAll([q], z3.Select(hp.dom, q) == z3.Or(z3.Select(d0, q), m)),
                    z3.ForAll([q], z3.Select(hp.val, q) == z3.If(m, z3.Select(hl.val, q), z3.Select(v0, q)))]

        def heap(st, local):
            hp = st.get(local["parent"])
            if hp.concrete:
                d, v = dict_terms(st, local["parent"])
                hp.items = None
                hp.kk, hp.vk = "str", "obj"
            hp.dom = z3.Const(fresh_name("P_dom"), z3.ArraySort(S_, z3.BoolSort()))
            hp.val = z3.Const(fresh_name("P_val"), z3.ArraySort(S_, Obj))
            hp.size = z3.Int(fresh_name("P_size"))

        I.loops[("new_context", 0)] = LoopSpec(inv, havoc={"key": "str", "value": "obj"}, heap=heap, name="merge_locals")

    def setup(self, I, st):
        v, g, l = self.cfg
        self.env = A.obj(st, Environment, "environment", fields={"context_class": R.Context})
        self.tname = sym("template_name", "str")
        self.blocks = sym("blocks", "obj")
        self.shared = sym("shared", "bool")
        self.vars = A.adict(st, "vars", "str", "obj") if v else None
        self.globals = A.adict(st, "globals", "str", "obj") if g else None
        self.locals = A.adict(st, "locals", "str", "obj") if l else None
        self.pre_terms = {n: (dict_terms(st, r) if r is not None else empty_terms()) for n, r in
                          (("vars", self.vars), ("globals", self.globals), ("locals", self.locals))}
        return [self.env, self.tname, self.blocks, self.vars, self.shared, self.globals, self.locals], {}

    def run(self, tier, seed):
        import pyvc.contract as CT
        from pyvc.smt import Result
        orig = CT.check_sat

        def check(formulas, timeout_ms=10000, seed=0, use_cvc5=True):
            if timeout_ms <= 400 and n_quantified(formulas) >= 5:
                return Result("unknown", reason="reachability of a quantified path condition not queried")
            return orig(formulas, timeout_ms, seed, use_cvc5)

        CT.check_sat = check
        try:
            return VC.run(self, tier, seed)
        finally:
            CT.check_sat = orig

    def ctor_call(self, out):
        ev = A.calls(out, "context_class")
        return ev[0] if len(ev) == 1 else None

    def p_parent(self, pre, out):
        if out.raised:
            return False
        ev = self.ctor_call(out)
        if ev is None or out.value != ev.result or len(ev.args) != 4:
            return False
        st = out.st
        P = ev.args[1]
        if not (isinstance(P, Ref) and isinstance(st.get(P), HDict)):
            return False
        pd, pv = dict_terms(st, P)
        (vd, vv), (gd, gv), (ld, lv) = self.pre_terms["vars"], self.pre_terms["globals"], self.pre_terms["locals"]
        q = z3.Const(fresh_name("q"), S_)
        loc = z3.And(z3.Select(ld, q), z3.Select(lv, q) != MISSING)
        base_dom = z3.If(self.shared.t, z3.Select(vd, q), z3.Or(z3.Select(gd, q), z3.Select(vd, q)))
        base_val = z3.If(z3.Select(vd, q), z3.Select(vv, q), z3.Select(gv, q))
        content = z3.ForAll([q], z3.And(z3.Select(pd, q) == z3.Or(base_dom, loc),
                                        z3.Implies(z3.Or(base_dom, loc), z3.Select(pv, q) == z3.If(loc, z3.Select(lv, q), base_val))))
        fresh_p = P.id in st.allocated
        # identity: not shared -> a fresh dict; shared -> the caller's dict itself unless locals had to be merged (then a fresh copy)
        if not fresh_p and P != self.vars:
            return False
        ql = z3.Const(fresh_name("ql"), S_)
        any_local = z3.Exists([ql], z3.Select(ld, ql))
        if fresh_p:
            ident = z3.Or(z3.Not(self.shared.t), any_local, self.vars is None)
        else:
            ident = z3.And(self.shared.t, z3.Not(any_local))
        return z3.And(content, ident)

    def p_ctor(self, pre, out):
        if out.raised:
            return False
        ev = self.ctor_call(out)
        return ev is not None and ev.args[0] == self.env and ev.args[2] is self.tname and ev.args[3] is self.blocks \
            and set(ev.kwargs) == {"globals"} and ev.kwargs["globals"] == self.globals

    def p_frame(self, pre, out):
        """the caller's dicts are never written (when the parent IS vars, nothing was stored into it either)"""
        ids = {r.id for r in (self.vars, self.globals, self.locals) if r is not None}
        if any(i in ids for i, _ in out.st.written):
            return False
        for n, r in (("vars", self.vars), ("globals", self.globals), ("locals", self.locals)):
            if r is not None:
                d, v = dict_terms(out.st, r)
                if not (d.eq(self.pre_terms[n][0]) and v.eq(self.pre_terms[n][1])):
                    return False
        return True

    posts = [("parent_is_globals_vars_locals_overlay", p_parent), ("context_built_from_arguments", p_ctor), ("caller_dicts_not_written", p_frame)]


# ================================================================== Context.get_all / get_exported

class GetAll(CtxVC):
    target = "jinja2.runtime:Context.get_all"

    def __init__(self):
        super().__init__("C05", "C05.Context.get_all")

    def configure(self, I):
        install_dict_merge(I)

    def setup(self, I, st):
        self.vars = A.adict(st, "vars", "str", "obj")
        self.parent = A.adict(st, "parent", "str", "obj")
        self.vt, self.pt = dict_terms(st, self.vars), dict_terms(st, self.parent)
        self.ctx = A.obj(st, R.Context, "self", fields={"vars": self.vars, "parent": self.parent})
        return [self.ctx], {}

    def p_content(self, pre, out):
        if out.raised:
            return False
        r = out.value
        if not (isinstance(r, Ref) and isinstance(out.st.get(r), HDict)):
            return False
        if r not in (self.vars, self.parent) and r.id not in out.st.allocated:
            return False
        d, v = dict_terms(out.st, r)
        q = z3.Const(fresh_name("q"), S_)
        (vd, vv), (pd, pv) = self.vt, self.pt
        return z3.ForAll([q], z3.And(z3.Select(d, q) == z3.Or(z3.Select(vd, q), z3.Select(pd, q)),
                                     z3.Implies(z3.Select(d, q), z3.Select(v, q) == z3.If(z3.Select(vd, q), z3.Select(vv, q), z3.Select(pv, q)))))

    def p_pure(self, pre, out):
        return not any(i in (self.vars.id, self.parent.id, self.ctx.id) for i, _ in out.st.written)

    posts = [("parent_overlaid_by_vars", p_content), ("context_not_modified", p_pure)]


class GetExported(CtxVC):
    target = "jinja2.runtime:Context.get_exported"

    def __init__(self):
        super().__init__("C05", "C05.Context.get_exported")

    def configure(self, I):
        install_setcomp(I)

    def setup(self, I, st):
        self.vars = A.adict(st, "vars", "str", "obj")
        self.exported = aset(st, "exported_vars")
        hv, he = st.get(self.vars), st.get(self.exported)
        self.vd, self.vv, self.ed = hv.dom, hv.val, he.dom
        q = z3.Const("q_exp", S_)
        # invariant established by the generated code (C03.assign_tracking): a name is exported only after it was stored in vars
        st.assume(z3.ForAll([q], z3.Implies(z3.Select(self.ed, q), z3.Select(self.vd, q))))
        self.ctx = A.obj(st, R.Context, "self", fields={"vars": self.vars, "exported_vars": self.exported})
        return [self.ctx], {}

    def p_exact(self, pre, out):
        if out.raised:
            return False
        g = gm(out.st, out.value)
        if g is None or out.value.id not in out.st.allocated:
            return False
        dom, k, v = g
        q = z3.Const(fresh_name("q"), S_)
        same_dom = z3.ForAll([q], z3.Select(dom, q) == z3.Select(self.ed, q))
        if k is None:
            return same_dom
        return z3.And(same_dom, to_term(v, "obj") == z3.Select(self.vv, k.t))

    def p_pure(self, pre, out):
        return not any(i in (self.vars.id, self.exported.id, self.ctx.id) for i, _ in out.st.written)

    posts = [("exactly_the_exported_names_with_their_values", p_exact), ("context_not_modified", p_pure)]


# ================================================================== Template.new_context / make_module(_async) / _get_default_module(_async)

class Globals:
    """host class of the template's `globals` mapping (a ChainMap): only its key set matters here"""


class KeysView:
    def __init__(self, dom):
        self.dom = dom


def template_obj(st, env, **extra):
    gdom = z3.Const(fresh_name("tglobals_dom"), z3.ArraySort(S_, z3.BoolSort()))
    g = st.alloc(HObj(Globals, fields={"dom": gdom_box(gdom)}, path="self.globals"), initial=True)
    f = {"environment": env, "name": sym("template_name", "str"), "blocks": sym("template_blocks", "obj"), "globals": g,
         "root_render_func": sym("root_render_func", "obj")}
    f.update(extra)
    return A.obj(st, E.Template, "self", fields=f), g, gdom


class gdom_box:
    def __init__(self, t):
        self.t = t

    def __repr__(self):
        return "dom"


class TemplateNewContext(CtxVC):
    target = "jinja2.environment:Template.new_context"

    def __init__(self):
        super().__init__("C05", "C05.Template.new_context")

    def configure(self, I):
        I.specs["jinja2.runtime:new_context"] = A.abstract_fn("new_context", returns="obj")
        I.specs[("fn", id(R.new_context))] = I.specs["jinja2.runtime:new_context"]

    def setup(self, I, st):
        self.env = A.obj(st, Environment, "environment")
        self.t, self.g, _ = template_obj(st, self.env)
        self.a = [sym("vars", "obj"), sym("shared", "bool"), sym("locals", "obj")]
        return [self.t] + self.a, {}

    def p_args(self, pre, out):
        if out.raised:
            return False
        ev = A.calls(out, "new_context")
        if len(ev) != 1 or out.value is not ev[0].result:
            return False
        names = ["environment", "template_name", "blocks", "vars", "shared", "globals", "locals"]
        b = dict(zip(names, ev[0].args))
        b.update(ev[0].kwargs)
        f = out.st.get(self.t).fields
        return (b.get("environment") == self.env and b.get("template_name") is f["name"] and b.get("blocks") is f["blocks"] and b.get("vars") is self.a[0]
                and b.get("shared") is self.a[1] and b.get("globals") == self.g and b.get("locals") is self.a[2] and len(b) == 7)

    posts = [("template_name_blocks_globals_and_arguments_threaded", p_args)]


class MakeModule(CtxVC):
    def __init__(self, is_async):
        self.is_async = is_async
        self.target = "jinja2.environment:Template.make_module" + ("_async" if is_async else "")
        super().__init__("C05", "C05.Template.make_module" + ("_async" if is_async else ""))

    def configure(self, I):
        I.specs["Template.new_context"] = A.abstract_fn("self.new_context", returns="obj")
        I.specs[I.spec_key(E.TemplateModule)] = A.abstract_fn("TemplateModule", returns="obj")
        I.specs["call_obj"] = A.abstract_fn("root_render_func", returns="obj")
        I.specs["comp_abstract"] = lambda I_, e, g, st, cfr, itv, elt_fn: [(st, itv)]  # [x async for x in S] is S collected (A7)

    def setup(self, I, st):
        self.env = A.obj(st, Environment, "environment")
        self.t, self.g, _ = template_obj(st, self.env)
        self.a = [sym("vars", "obj"), sym("shared", "bool"), sym("locals", "obj")]
        return [self.t] + self.a, {}

    def p_module(self, pre, out):
        if out.raised:
            return False
        nc, tm, rr = A.calls(out, "self.new_context"), A.calls(out, "TemplateModule"), A.calls(out, "root_render_func")
        if len(nc) != 1 or len(tm) != 1 or out.value is not tm[0].result:
            return False
        if list(nc[0].args[1:]) != self.a or nc[0].kwargs:
            return False
        ctx = nc[0].result
        if self.is_async:
            # the body is rendered exactly once, with the new context, and handed to the module
            return (len(rr) == 1 and rr[0].args[1] is ctx and len(rr[0].args) == 2 and len(tm[0].args) == 3 and tm[0].args[0] == self.t
                    and tm[0].args[1] is ctx and tm[0].args[2] is rr[0].result)
        return not rr and len(tm[0].args) == 2 and tm[0].args[0] == self.t and tm[0].args[1] is ctx and not tm[0].kwargs

    posts = [("module_of_a_new_context_built_from_the_arguments", p_module)]


class DefaultModule(CtxVC):
    """_get_default_module(ctx) / _get_default_module_async(ctx)."""

    def __init__(self, is_async, ctx_given):
        self.is_async, self.ctx_given = is_async, ctx_given
        nm = "_get_default_module" + ("_async" if is_async else "")
        self.target = f"jinja2.environment:Template.{nm}"
        super().__init__("C05", f"C05.Template.{nm}[ctx={'context' if ctx_given else 'None'}]")

    def configure(self, I):
        install_setcomp(I)
        mk = "Template.make_module" + ("_async" if self.is_async else "")
        I.specs[mk] = A.abstract_fn("self.make_module", returns="obj")
        I.specs["Globals.keys"] = lambda I_, st, args, kwargs, node: [(st, KeysView(st.get(args[0]).fields["dom"].t))]

        def set_minus(I_, st, args, kwargs, node):
            a, b = args
            if isinstance(a, Ref) and isinstance(st.get(a), HSet) and isinstance(b, KeysView):
                ha = st.get(a)
                q = z3.Const(fresh_name("q"), S_)
                dom = z3.Lambda([q], z3.And(z3.Select(ha.dom, q), z3.Not(z3.Select(b.dom, q))))
                return [(st, aset(st, "extra_keys", initial=False, dom=dom))]
            return None

        I.specs[("binop", ast.Sub)] = set_minus

    def setup(self, I, st):
        self.env_async = sym("environment.is_async", "bool")
        self.env = A.obj(st, Environment, "environment", fields={"is_async": self.env_async})
        self.cached = sym("cached_module", "obj")
        self.has_cache = sym("has_cached_module", "bool")
        st.assume(self.has_cache.t == (self.cached.t != host_const(None)))
        self.t, self.g, self.gdom = template_obj(st, self.env, _module=self.cached)
        if not self.ctx_given:
            self.ctx = None
            return [self.t, None], {}
        self.gkeys = aset(st, "globals_keys")
        self.parent = A.adict(st, "parent", "str", "obj")
        hp = st.get(self.parent)
        self.pd, self.pv = hp.dom, hp.val
        self.kd = st.get(self.gkeys).dom
        # the globals of the importing template, which the context was created with: globals_keys = set(globals) (Context.__init__)
        self.tglobals = A.adict(st, "template_globals", "str", "obj")
        hg = st.get(self.tglobals)
        self.Gd, self.Gv = hg.dom, hg.val
        qg = z3.Const("q_globals", S_)
        st.assume(z3.ForAll([qg], z3.Select(self.kd, qg) == z3.Select(self.Gd, qg)))
        self.ctx = A.obj(st, R.Context, "ctx", fields={"globals_keys": self.gkeys, "parent": self.parent, "template_globals": self.tglobals})
        return [self.t, self.ctx], {}

    def extra(self, q):
        return z3.And(z3.Select(self.kd, q), z3.Not(z3.Select(self.gdom, q)))

    def p_total(self, pre, out):
        """fails only with the documented RuntimeError (sync API in an async environment)"""
        if not out.raised:
            return None
        if out.value.cls is RuntimeError and not self.is_async:
            return self.env_async.t
        return False

    def p_async_refused(self, pre, out):
        if self.is_async or out.raised:
            return None
        return z3.Not(self.env_async.t)

    def p_result(self, pre, out):
        if out.raised:
            return None
        st = out.st
        mk = A.calls(out, "self.make_module")
        now = st.get(self.t).fields["_module"]
        q = z3.Const(fresh_name("q"), S_)
        any_extra = z3.Exists([q], self.extra(q)) if self.ctx_given else z3.BoolVal(False)
        with_vars = [e for e in mk if len(e.args) > 1 or e.kwargs]
        if with_vars:
            # uncached module from exactly the extra globals of the importing context
            if len(mk) != 1 or out.value is not mk[0].result or now is not self.cached or not self.ctx_given:
                return False
            if len(mk[0].args) != 2 or mk[0].kwargs:
                return False
            g = gm(st, mk[0].args[1])
            if g is None:
                return False
            dom, k, v = g
            if k is None:
                return False
            # (which of the extra keys are passed on, and with which value: clause module_vars_are_the_template_globals)
            return z3.And(any_extra, z3.ForAll([q], z3.Select(dom, q) == self.extra(q)))
        # cached module: built once with no vars and stored
        if mk:
            if len(mk) != 1 or out.value is not mk[0].result or now is not mk[0].result:
                return False
            return z3.And(z3.Not(any_extra), z3.Not(self.has_cache.t))
        if out.value is not self.cached or now is not self.cached:
            return False
        return z3.And(z3.Not(any_extra), self.has_cache.t)

    def p_values(self, pre, out):
        """every extra global k of the importing template is handed to the module, with the GLOBAL's value - not with whatever the
        context's `parent` holds under that name (render variables replace globals there; a shared context does not hold them at all)"""
        if out.raised or not self.ctx_given:
            return None
        mk = [e for e in A.calls(out, "self.make_module") if len(e.args) > 1 or e.kwargs]
        if len(mk) != 1 or len(mk[0].args) != 2:
            return None
        g = gm(out.st, mk[0].args[1])
        if g is None or g[1] is None:
            return None
        dom, k, v = g
        kept = out.st.get(mk[0].args[1]).fields.get("kept", True)
        if not kept:
            return z3.Not(z3.Select(self.Gd, k.t))  # dropped although it is one of the template's globals
        return to_term(v, "obj") == z3.Select(self.Gv, k.t)

    posts = [("raises_only_documented_RuntimeError", p_total), ("sync_module_refused_in_async_environment", p_async_refused),
             ("cached_without_vars_or_uncached_from_extra_globals", p_result), ("module_vars_are_the_template_globals", p_values)]

    def replay(self, w):
        if "module_vars_are_the_template_globals" in str((w or {}).get("obligation", "")):
            return native_import_sees_globals(w)
        v, d = native_shared_globals(w)
        if v:
            return v, d
        return native_context(w)

    def concretize(self, model, pre, out):
        return {"vc": self.name, "raises": repr(out.value) if out.raised else None}

    def discharge(self, name, pc, cond, timeout, seed, pre, out):
        r = CtxVC.discharge(self, name, pc, cond, timeout, seed, pre, out)
        if r.status == "refuted" and isinstance(r.witness, dict):
            r.witness["obligation"] = name
        return r

    def finding_key(self, res):
        w = res.witness or {}
        r = w.get("raises") or ""
        if "KeyError" in r:
            return "KeyError:extra-global-not-in-ctx.parent"
        if "module_vars_are_the_template_globals" in res.name:
            return "module-vars-read-from-ctx.parent"
        return f"other:{r}"


def native_import_sees_globals(w=None):
    """an import without context sees the importing template's globals - their values, from wherever it is executed - and never a
    render variable of the same name"""
    problems = []
    for is_async in (False, True):
        lib = "{% macro m() %}[{{ foo }}]{% endmacro %}{% set top = foo %}"
        env = _env({"lib": lib, "main": "{% import 'lib' as l %}{{ l.m() }}{{ l.top }}", "main_from": "{% from 'lib' import m, top %}{{ m() }}{{ top }}",
                    "scoped": "{% block plain %}{% import 'lib' as l %}{{ l.m() }}{% endblock %}{% for i in [1] %}{% block sc scoped %}{% import 'lib' as l %}{{ l.m() }}{% endblock %}{% endfor %}",
                    "inc": "{% import 'lib' as l %}{{ l.m() }}", "outer": "{% include 'inc' %}"}, is_async)
        for name in ("main", "main_from"):
            t = env.get_template(name, globals={"foo": "GLOBAL"})
            for kw in ({}, {"foo": "CONTEXT-VAR"}):
                got = _render(env, t, **kw)
                if got != "[GLOBAL]GLOBAL":
                    problems.append(f"async={is_async} {name} rendered with {kw}: {got!r}, expected '[GLOBAL]GLOBAL' (an import without context must not see render variables)")
        got = _render(env, env.get_template("scoped", globals={"foo": "G"}))
        if got != "[G][G]":
            problems.append(f"async={is_async} import inside a scoped block: {got!r}, expected '[G][G]'")
        env.get_template("inc", globals={"foo": "GLOBAL"})
        got = _render(env, "outer", foo="CONTEXT-VAR")
        if got != "[GLOBAL]":
            problems.append(f"async={is_async} import inside an included template loaded with globals: {got!r}, expected '[GLOBAL]'")
    return (bool(problems), "; ".join(problems[:2]) or "imports see the importing template's globals")


class ModuleInit(CtxVC):
    """TemplateModule(template, context[, body_stream]); shape bound: context.get_exported() returns a dict of n <= 2 entries
    (names concrete, values symbolic) because instance attributes are per-name fields in the heap model."""
    target = "jinja2.environment:TemplateModule.__init__"

    def __init__(self, n, stream_given):
        self.n, self.stream_given = n, stream_given
        super().__init__("C05", f"C05.TemplateModule.__init__[exports={n},body_stream={'given' if stream_given else 'None'}]")
        self.bound_text = "number of exported names n <= 2"

    def configure(self, I):
        c = self

        def get_exported(I_, st, args, kwargs, node):
            r = st.alloc(HDict(items={f"exp{i}": c.vals[i] for i in range(c.n)}))
            st.trace.append(Event("call", "context.get_exported", args, kwargs, r))
            return [(st, r)]

        I.specs["Context.get_exported"] = get_exported
        I.specs["call_obj"] = A.abstract_fn("root_render_func", returns="obj")
        I.specs[("fn", id(list))] = lambda I_, st, args, kwargs, node: (A.abstract_fn("list", returns="obj")(I_, st, args, kwargs, node)
                                                                       if args and isinstance(args[0], Sym) else I_.instantiate(st, list, args, kwargs, node))

    def setup(self, I, st):
        self.vals = [sym(f"exported_value{i}", "obj") for i in range(self.n)]
        self.env_async = sym("environment.is_async", "bool")
        self.env = A.obj(st, Environment, "environment", fields={"is_async": self.env_async})
        self.ctx = A.obj(st, R.Context, "context", fields={"environment": self.env})
        self.tname = sym("template_name", "str")
        self.tmpl = A.obj(st, E.Template, "template", fields={"name": self.tname, "root_render_func": sym("root_render_func", "obj")})
        self.obj = st.alloc(HObj(E.TemplateModule), initial=True)
        self.stream = sym("body_stream", "obj") if self.stream_given else None
        if self.stream_given:
            st.assume(self.stream.t != host_const(None))
        return [self.obj, self.tmpl, self.ctx] + ([self.stream] if self.stream_given else []), {}

    def p_post(self, pre, out):
        rr, ls = A.calls(out, "root_render_func"), A.calls(out, "list")
        if out.raised:
            # only: no body stream in an async environment
            if out.value.cls is RuntimeError and not self.stream_given and not rr:
                return self.env_async.t
            return False
        f = out.st.get(self.obj).fields
        want = {"_body_stream", "__name__"} | {f"exp{i}" for i in range(self.n)}
        if set(f) != want or f["__name__"] is not self.tname or any(f[f"exp{i}"] is not self.vals[i] for i in range(self.n)):
            return False
        if len(A.calls(out, "context.get_exported")) != 1:
            return False
        if self.stream_given:
            return f["_body_stream"] is self.stream and not rr
        ok = len(rr) == 1 and len(rr[0].args) == 2 and rr[0].args[1] == self.ctx and len(ls) == 1 and ls[0].args[0] is rr[0].result and f["_body_stream"] is ls[0].result
        return z3.Not(self.env_async.t) if ok else False

    posts = [("exports_exactly_get_exported_and_renders_body_once", p_post)]


# ================================================================== Environment.get_template / select_template / get_or_select_template

load_outcome = z3.Function("load_outcome", Obj, z3.IntSort())   # 0 loads, 1 TemplateNotFound, 2 UndefinedError, 3 any other error
loaded = z3.Function("loaded_template", Obj, Obj)
joined = z3.Function("join_path", Obj, Obj, Obj)
is_template = isinst_fn(E.Template)


class OtherLoadError(Exception):
    """stands for any exception of a loader that is neither TemplateNotFound nor UndefinedError"""


def install_loading(I):
    def load(I_, st, args, kwargs, node):
        name = to_term(args[1], "obj")
        out = []
        for code, exc in ((1, TemplateNotFound), (2, UndefinedError), (3, OtherLoadError)):
            s = st.fork()
            s.assume(load_outcome(name) == code)
            e = Exc(exc, (), tag=f"load#{len(s.trace)}", origin=getattr(node, "lineno", None))
            s.trace.append(Event("call", "_load_template", args[1:], kwargs, e))
            out.append((s, Raised(e)))
        st.assume(load_outcome(name) == 0)
        v = Sym(loaded(name), "obj")
        st.trace.append(Event("call", "_load_template", args[1:], kwargs, v))
        out.append((st, v))
        return out

    I.specs["Environment._load_template"] = load
    I.specs["Environment.join_path"] = lambda I_, st, args, kwargs, node: [(st, Sym(joined(to_term(args[1], "obj"), to_term(args[2], "obj")), "obj"))]


def eff(name_t, parent):
    """effective name looked up for a requested name"""
    if parent is None:
        return name_t
    return joined(name_t, to_term(parent, "obj"))


class GetTemplate(CtxVC):
    target = "jinja2.environment:Environment.get_template"

    def __init__(self, with_parent):
        self.with_parent = with_parent
        super().__init__("C05", f"C05.Environment.get_template[parent={'str' if with_parent else 'None'}]")

    def configure(self, I):
        install_loading(I)

    def setup(self, I, st):
        self.env = A.obj(st, Environment, "self")
        self.nm = sym("name", "obj")
        self.parent = sym("parent", "str") if self.with_parent else None
        if self.with_parent:
            st.assume(to_term(self.parent, "obj") != host_const(None))  # a str is not None
        self.globals = sym("globals", "obj")
        return [self.env, self.nm, self.parent, self.globals], {}

    def p_result(self, pre, out):
        ld = A.calls(out, "_load_template")
        is_t = is_template(self.nm.t)
        e = eff(self.nm.t, self.parent)
        if len(ld) > 1:
            return False
        if ld and not (to_term(ld[0].args[0], "obj").eq(e) and ld[0].args[1] is self.globals):
            return False  # looked up under another name / without the globals
        if out.raised:
            return z3.And(z3.Not(is_t), load_outcome(e) != 0) if ld and out.value is ld[0].result else False
        if not ld:
            return z3.And(is_t, to_term(out.value, "obj") == self.nm.t)
        return z3.And(z3.Not(is_t), to_term(out.value, "obj") == loaded(e))

    posts = [("template_object_unchanged_else_loaded_under_joined_name", p_result)]


class SelectTemplate(CtxVC):
    target = "jinja2.environment:Environment.select_template"

    def __init__(self, with_parent):
        self.with_parent = with_parent
        super().__init__("C05", f"C05.Environment.select_template[parent={'str' if with_parent else 'None'}]")

    def configure(self, I):
        install_loading(I)
        c = self
        I.specs["isinstance_obj"] = lambda I_, st, args, kwargs, node: None

        def inv(ctx):
            j = z3.Int(fresh_name("j"))
            return [z3.ForAll([j], z3.Implies(z3.And(0 <= j, j < ctx.k), c.fails(z3.Select(c.arr, j))))]

        I.loops[("Environment.select_template", 0)] = LoopSpec(inv, havoc={"name": "obj"}, name="try_names")

    def fails(self, x):
        o = load_outcome(eff(x, self.parent))
        return z3.And(z3.Not(is_template(x)), z3.Or(o == 1, o == 2))

    def setup(self, I, st):
        self.env = A.obj(st, Environment, "self")
        self.names = A.alist(st, "names", "obj")
        h = st.get(self.names)
        self.arr, self.n = h.arr, h.n
        self.parent = sym("parent", "str") if self.with_parent else None
        if self.with_parent:
            st.assume(to_term(self.parent, "obj") != host_const(None))  # a str is not None
        self.globals = sym("globals", "obj")
        return [self.env, self.names, self.parent, self.globals], {}

    def p_result(self, pre, out):
        i, j = z3.Int("first_hit"), z3.Int(fresh_name("j"))
        x = z3.Select(self.arr, i)
        first = z3.And(0 <= i, i < self.n, z3.Not(self.fails(x)), z3.ForAll([j], z3.Implies(z3.And(0 <= j, j < i), self.fails(z3.Select(self.arr, j)))))
        none = z3.ForAll([j], z3.Implies(z3.And(0 <= j, j < self.n), self.fails(z3.Select(self.arr, j))))
        e = eff(x, self.parent)
        if out.raised:
            if out.value.cls is TemplatesNotFound:
                return none  # includes the empty list
            if out.value.cls is OtherLoadError:
                return z3.Exists([i], z3.And(first, z3.Not(is_template(x)), load_outcome(e) == 3))
            return False
        r = to_term(out.value, "obj")
        return z3.Exists([i], z3.And(first, z3.If(is_template(x), r == x, z3.And(load_outcome(e) == 0, r == loaded(e)))))

    def p_globals(self, pre, out):
        return all(ev.args[1] is self.globals for ev in A.calls(out, "_load_template"))

    posts = [("first_name_that_loads_else_TemplatesNotFound", p_result), ("globals_passed_to_every_lookup", p_globals)]

    def concretize(self, model, pre, out):
        n = max(0, min(5, model_value(model, self.n)))
        return {"vc": self.name, "n_names": n, "raises": repr(out.value) if out.raised else None}


class SelectUndefined(CtxVC):
    """select_template(<Undefined>) fails with the undefined's own error before anything is loaded"""
    target = "jinja2.environment:Environment.select_template"

    def __init__(self):
        super().__init__("C05", "C05.Environment.select_template[names=Undefined]")

    def configure(self, I):
        install_loading(I)

        def fail(I_, st, args, kwargs, node):
            # contract of Undefined._fail_with_undefined_error (declared NoReturn; C11): always raises the undefined's exception
            e = Exc(UndefinedError, (), tag="undefined", origin=getattr(node, "lineno", None))
            st.trace.append(Event("call", "names._fail_with_undefined_error", args, kwargs, e))
            return [(st, Raised(e))]

        I.specs["Undefined._fail_with_undefined_error"] = fail

    def setup(self, I, st):
        self.env = A.obj(st, Environment, "self")
        self.names = A.obj(st, Undefined, "names")
        return [self.env, self.names, None, None], {}

    def p_fails(self, pre, out):
        return out.raised and out.value.cls is UndefinedError and not A.calls(out, "_load_template")

    posts = [("UndefinedError_before_any_lookup", p_fails)]


class GetOrSelect(CtxVC):
    target = "jinja2.environment:Environment.get_or_select_template"

    def __init__(self):
        super().__init__("C05", "C05.Environment.get_or_select_template")

    def configure(self, I):
        I.specs["Environment.get_template"] = A.abstract_fn("self.get_template", returns="obj", raises=[("any", Exception)])
        I.specs["Environment.select_template"] = A.abstract_fn("self.select_template", returns="obj", raises=[("any", Exception)])

    def setup(self, I, st):
        self.env = A.obj(st, Environment, "self")
        self.x = sym("template_name_or_list", "obj")
        self.parent, self.globals = sym("parent", "obj"), sym("globals", "obj")
        # a value is not at the same time a name (str / Undefined) and a Template
        st.assume(z3.Not(z3.And(z3.Or(isinst_fn(str)(self.x.t), isinst_fn(Undefined)(self.x.t)), is_template(self.x.t))))
        return [self.env, self.x, self.parent, self.globals], {}

    def p_dispatch(self, pre, out):
        gt, sl = A.calls(out, "self.get_template"), A.calls(out, "self.select_template")
        one = z3.Or(isinst_fn(str)(self.x.t), isinst_fn(Undefined)(self.x.t))
        want_args = [self.x, self.parent, self.globals]
        if gt or sl:
            ev = (gt + sl)[0]
            if len(gt) + len(sl) != 1 or any(a is not b for a, b in zip(ev.args[1:], want_args)) or len(ev.args) != 4 or out.value is not ev.result:
                return False
            return one if gt else z3.And(z3.Not(one), z3.Not(is_template(self.x.t)))
        if out.raised:
            return False
        return z3.And(z3.Not(one), is_template(self.x.t), to_term(out.value, "obj") == self.x.t)

    posts = [("dispatch_on_name_template_or_iterable", p_dispatch)]


RUNTIME_TASKS = ([NewContext(True, True, True), NewContext(True, True, False), NewContext(True, False, True), NewContext(True, False, False),
                  NewContext(False, True, False), NewContext(False, False, False),
                  GetAll(), GetExported(), TemplateNewContext(), MakeModule(False), MakeModule(True)]
                 + [DefaultModule(a, c) for a in (False, True) for c in (False, True)]
                 + [ModuleInit(n, s) for n in (0, 2) for s in (False, True)]
                 + [GetTemplate(False), GetTemplate(True), SelectTemplate(False), SelectTemplate(True), SelectUndefined(), GetOrSelect()])

TASKS = RUNTIME_TASKS



# ================================================================== emission: visit_Include / visit_Import / visit_FromImport / dump_local_context

TOP = z3.Bool("frame.toplevel")
WITH_CTX = z3.Bool("node.with_context")
IGNORE = z3.Bool("node.ignore_missing")


def is_locals_dump(d, ph):
    """{...} built by dump_local_context(frame) (its own obligation: C05.emit.dump_local_context)"""
    inner = [x for x in ast.walk(d) if isinstance(x, ast.Name)]
    return isinstance(d, (ast.Dict, ast.Set)) and len(inner) == 1 and inner[0].id in ph and "dump_stores" in str(ph[inner[0].id][1])


def is_get_all(n):
    return isinstance(n, ast.Call) and emit.call_name(n) == "context.get_all" and not n.args and not n.keywords


def is_true(n):
    return isinstance(n, ast.Constant) and n.value is True


def lookup_call(n, ph, func):
    return (isinstance(n, ast.Call) and emit.call_name(n) == f"environment.{func}" and len(n.args) == 2 and not n.keywords
            and is_hole(n.args[0], ph, "node.template") and is_repr_of(n.args[1], ph, "template_name"))


def include_pred(func):
    def pred(sc, tree, ph, txt):
        if sc.outcome == "raise":
            return [f"visit_Include raises {sc.value!r}"]
        ignore, with_ctx, is_async = decide(sc, IGNORE), decide(sc, WITH_CTX), decide(sc, IS_ASYNC)
        if None in (ignore, with_ctx, is_async):
            return ["path does not decide node.ignore_missing / node.with_context / environment.is_async"]
        body = list(tree.body)
        fails = []
        if ignore:
            t = body[0] if len(body) == 1 else None
            ok = (isinstance(t, ast.Try) and len(t.body) == 1 and len(t.handlers) == 1 and not t.finalbody and is_name(t.handlers[0].type, "TemplateNotFound")
                  and t.handlers[0].name is None and len(t.handlers[0].body) == 1 and isinstance(t.handlers[0].body[0], ast.Pass))
            if not ok:
                return [f"`ignore missing` must wrap exactly the template lookup in try/except TemplateNotFound: pass, rendering in the else branch: {txt!r}"]
            look, render = t.body[0], list(t.orelse)
        else:
            if any(isinstance(n, ast.Try) and n.handlers for n in ast.walk(tree)):
                fails.append("an include without `ignore missing` must not catch exceptions")
            look, render = (body[0] if body else None), body[1:]
        if not (isinstance(look, ast.Assign) and len(look.targets) == 1 and is_name(look.targets[0], "template") and lookup_call(look.value, ph, func)):
            fails.append(f"the target must be looked up as template = environment.{func}(<node.template>, <this template's name>): {ast.unparse(look) if look else None}")
        if with_ctx:
            # rendered in a context that shares the includer's whole context plus its current locals
            a = render[0] if render else None
            ok = isinstance(a, ast.Assign) and len(a.targets) == 1 and is_name(a.targets[0], "gen") and isinstance(a.value, ast.Call) \
                and emit.call_name(a.value) == "template.root_render_func" and len(a.value.args) == 1 and not a.value.keywords
            if ok:
                nc = a.value.args[0]
                ok = (isinstance(nc, ast.Call) and emit.call_name(nc) == "template.new_context" and len(nc.args) == 3 and not nc.keywords
                      and is_get_all(nc.args[0]) and is_true(nc.args[1]) and is_locals_dump(nc.args[2], ph))
            if not ok:
                fails.append(f"with context: gen = template.root_render_func(template.new_context(context.get_all(), True, <locals>)) expected: {txt!r}")
            else:
                r = stream_loop(render, is_async, sc.buffer, "gen", "included stream")
                if r:
                    fails.append(r)
        else:
            # without context: the body of the default module (globals only); nothing of the includer's context is passed
            if any(isinstance(n, ast.Name) and n.id == "context" for s in render for n in ast.walk(s)):
                fails.append("without context: the includer's context must not be handed to the included template")
            mod_call = "template._get_default_module_async" if is_async else "template._get_default_module"

            def is_body_stream(n):
                if not (isinstance(n, ast.Attribute) and n.attr == "_body_stream"):
                    return False
                c = n.value
                if is_async:
                    c = c.value if isinstance(c, ast.Await) else None
                return isinstance(c, ast.Call) and emit.call_name(c) == mod_call and not c.args and not c.keywords

            # "an include renders the target": every execution of the statement renders it anew, in a context of its own that holds the
            # globals only - gen = template.root_render_func(template.new_context()) + the stream loop
            a0 = render[0] if render else None
            if (isinstance(a0, ast.Assign) and is_name(a0.targets[0], "gen") and isinstance(a0.value, ast.Call) and emit.call_name(a0.value) == "template.root_render_func"
                    and len(a0.value.args) == 1 and isinstance(a0.value.args[0], ast.Call) and emit.call_name(a0.value.args[0]) == "template.new_context"
                    and not a0.value.args[0].args and not a0.value.args[0].keywords):
                r = stream_loop(render, is_async, sc.buffer, "gen", "included stream")
                return fails + ([r] if r else [])
            fails.append("[replays-cached-default-module] without context the target is not rendered: the statement passes on the body stream stored in the target's "
                         "cached default module (Template._module) - output of an earlier render, stale when a global changed, a counter global advances once")
            s = render[0] if len(render) == 1 else None
            if isinstance(s, ast.Expr) and isinstance(s.value, ast.YieldFrom):
                if sc.buffer is not None:
                    fails.append(f"the included events are yielded although the frame collects its output in {sc.buffer!r}: {ast.unparse(s)}")
                elif is_async or not is_body_stream(s.value.value):
                    fails.append(f"without context: expected the default module's body stream: {ast.unparse(s)}")
            elif isinstance(s, ast.For) and is_name(s.target, "event") and is_body_stream(s.iter) and len(s.body) == 1 and not s.orelse:
                b = s.body[0]
                if sc.buffer is None:
                    ok = isinstance(b, ast.Expr) and isinstance(b.value, ast.Yield) and is_name(b.value.value, "event")
                else:
                    ok = isinstance(b, ast.Expr) and isinstance(b.value, ast.Call) and emit.call_name(b.value) == f"{sc.buffer}.append" and len(b.value.args) == 1 and is_name(b.value.args[0], "event")
                if not ok:
                    fails.append(f"every event of the included body must be passed on unchanged: {ast.unparse(b)}")
            else:
                fails.append(f"without context: expected the default module's body stream to be passed on: {txt!r}")
        return fails
    return pred


def include_fields(kind):
    def mk(st):
        p = "node.template"
        if kind == "const_str":
            return {"template": emit.make_node(st, N.Const, p, fields={"value": sym(p + ".value", "str")})}
        if kind == "const_tuple":
            return {"template": emit.make_node(st, N.Const, p, fields={"value": ("a", "b")})}
        if kind == "const_list":
            return {"template": emit.make_node(st, N.Const, p, fields={"value": st.alloc(HList(items=["a", "b"]), initial=True)})}
        if kind == "const_other":
            return {"template": emit.make_node(st, N.Const, p, fields={"value": 7})}
        return {"template": emit.make_node(st, {"tuple": N.Tuple, "list": N.List, "name": N.Name, "getattr": N.Getattr}[kind], p)}
    return mk


INCLUDE_KINDS = {"const_str": "get_template", "const_tuple": "select_template", "const_list": "select_template", "const_other": "get_or_select_template",
                 "tuple": "select_template", "list": "select_template", "name": "get_or_select_template", "getattr": "get_or_select_template"}


class IncludeTask(EmitTask):
    """finding key = failure category + buffer (a different failure of the same obligation stays a violation)"""

    def finding_key(self, res):
        w = res.witness or {}
        d = res.detail or ""
        cat = "yield-into-buffered-frame" if "although the frame collects its output" in d else "other"
        if cat == "other" and "[replays-cached-default-module]" in d and d.count("; ") == 0:
            return "replays-cached-default-module"  # (and nothing else wrong on this path)
        return f"{cat}:buffer={w.get('buffer')}"

    def replay(self, witness):
        v, d = native_include_rerenders(witness)
        return (v, d) if v else EmitTask.replay(self, witness)


def ref_alias(sc, ident_term):
    """the name whose symbol reference an identifier placeholder stands for (from the symbols.ref events)"""
    for e in sc.st.trace:
        if e.kind == "call" and e.name == "symbols.ref" and isinstance(e.result, Sym) and e.result.t.eq(ident_term):
            return e.args[0]
    return None


def ident_refers_to(sc, n, ph, name):
    if not (isinstance(n, ast.Name) and n.id in ph and isinstance(ph[n.id], tuple) and ph[n.id][0] == "ident"):
        return False
    a = ref_alias(sc, ph[n.id][1])
    return a is name or (isinstance(a, Sym) and isinstance(name, Sym) and a.t.eq(name.t))


def import_value(v, ph, with_ctx, is_async):
    """<[await] environment.get_template(<node.template>, <name>).<make_module...|_get_default_module...>(...)> -> failure or None"""
    if is_async:
        if not isinstance(v, ast.Await):
            return "async: the module must be awaited"
        v = v.value
    elif isinstance(v, ast.Await):
        return "sync: unexpected await"
    if not (isinstance(v, ast.Call) and isinstance(v.func, ast.Attribute) and lookup_call(v.func.value, ph, "get_template")):
        return f"the module must come from environment.get_template(<node.template>, <this template's name>): {ast.unparse(v)}"
    meth = v.func.attr
    if with_ctx:
        if meth != "make_module" + ("_async" if is_async else ""):
            return f"with context: make_module{'_async' if is_async else ''} expected, got {meth}"
        if not (len(v.args) == 3 and not v.keywords and is_get_all(v.args[0]) and is_true(v.args[1]) and is_locals_dump(v.args[2], ph)):
            return f"with context: the module must be built from (context.get_all(), True, <locals>): {ast.unparse(v)}"
    else:
        if meth != "_get_default_module" + ("_async" if is_async else ""):
            return f"without context: the default module expected, got {meth}"
        if not (len(v.args) == 1 and not v.keywords and is_name(v.args[0], "context")):
            return f"the default module is requested with the importing context (for its extra globals) and nothing else: {ast.unparse(v)}"
    return None


def is_ctx_vars_item(n, ph, term_text):
    return isinstance(n, ast.Subscript) and emit.call_name(n.value) == "context.vars" and is_repr_of(n.slice, ph, term_text)


def import_pred(sc, tree, ph, txt):
    if sc.outcome == "raise":
        return [f"visit_Import raises {sc.value!r}"]
    top, with_ctx, is_async = decide(sc, TOP), decide(sc, WITH_CTX), decide(sc, IS_ASYNC)
    if None in (top, with_ctx, is_async):
        return ["path does not decide toplevel / with_context / is_async"]
    target = sc.st.get(sc.node).fields["target"]
    body = list(tree.body)
    a = body[0] if body else None
    if not isinstance(a, ast.Assign):
        return [f"expected an assignment: {txt!r}"]
    fails = []
    want_targets = 2 if top else 1
    if len(a.targets) != want_targets or not ident_refers_to(sc, a.targets[0], ph, target) or (top and not is_ctx_vars_item(a.targets[1], ph, "node.target")):
        fails.append(f"the module must be bound to the local `target`{' and to context.vars[target]' if top else ' only'}: {ast.unparse(a)[:120]}")
    r = import_value(a.value, ph, with_ctx, is_async)
    if r:
        fails.append(r)
    private = decide(sc, z3.PrefixOf(z3.StringVal("_"), target.t))
    rest = body[1:]
    if top and private is None:
        return fails + ["path does not decide whether the target is private"]
    if top and not private:
        d = rest[0].value if len(rest) == 1 and isinstance(rest[0], ast.Expr) else None
        if not (isinstance(d, ast.Call) and emit.call_name(d) == "context.exported_vars.discard" and len(d.args) == 1 and is_repr_of(d.args[0], ph, "node.target")):
            fails.append(f"an imported name must be discarded from the export set: {txt!r}")
    elif rest:
        fails.append(f"unexpected statements after the import: {txt!r}")
    return fails


def from_fields(st):
    return {"names": st.alloc(HList(items=[sym("n0", "str"), (sym("n1", "str"), sym("a1", "str"))]), initial=True)}


def from_fields_single(st):
    return {"names": st.alloc(HList(items=[sym("n0", "str")]), initial=True)}


def from_pred(pairs):
    """pairs: [(name symbol text, alias symbol text)]"""
    def pred(sc, tree, ph, txt):
        if sc.outcome == "raise":
            return [f"visit_FromImport raises {sc.value!r}"]
        top, with_ctx, is_async = decide(sc, TOP), decide(sc, WITH_CTX), decide(sc, IS_ASYNC)
        if None in (top, with_ctx, is_async):
            return ["path does not decide toplevel / with_context / is_async"]
        body = list(tree.body)
        fails = []
        a = body[0] if body else None
        if not (isinstance(a, ast.Assign) and len(a.targets) == 1 and is_name(a.targets[0], "included_template")):
            return [f"expected included_template = ...: {txt!r}"]
        r = import_value(a.value, ph, with_ctx, is_async)
        if r:
            fails.append(r)
        pos = 1
        syms = {}
        for nm, al in pairs:
            g, chk = (body[pos], body[pos + 1]) if pos + 1 < len(body) else (None, None)
            pos += 2
            alias = z3.String(al)
            syms[al] = alias
            ok = (isinstance(g, ast.Assign) and len(g.targets) == 1 and isinstance(g.value, ast.Call) and is_name(g.value.func, "getattr") and len(g.value.args) == 3
                  and is_name(g.value.args[0], "included_template") and is_repr_of(g.value.args[1], ph, nm) and is_name(g.value.args[2], "missing")
                  and ident_refers_to(sc, g.targets[0], ph, Sym(alias, "str")))
            if not ok:
                fails.append(f"name {nm} must be read as <alias {al}> = getattr(included_template, {nm!r}, missing): {ast.unparse(g) if g else None}")
            ok = (isinstance(chk, ast.If) and not chk.orelse and isinstance(chk.test, ast.Compare) and isinstance(chk.test.ops[0], ast.Is) and is_name(chk.test.comparators[0], "missing")
                  and ident_refers_to(sc, chk.test.left, ph, Sym(alias, "str")) and len(chk.body) == 1 and isinstance(chk.body[0], ast.Assign)
                  and ident_refers_to(sc, chk.body[0].targets[0], ph, Sym(alias, "str")) and isinstance(chk.body[0].value, ast.Call) and is_name(chk.body[0].value.func, "undefined"))
            if not ok:
                fails.append(f"a name the module does not export must become undefined: {ast.unparse(chk)[:100] if chk else None}")
        rest = body[pos:]
        if not top:
            if rest:
                fails.append(f"below the top level nothing is stored in the context: {txt!r}")
            return fails
        # context.vars gets every alias; the public aliases are discarded from the export set
        stored, discarded = {}, []
        for s in rest:
            v = s.value if isinstance(s, ast.Expr) else None
            if isinstance(s, ast.Assign) and len(s.targets) == 1 and isinstance(s.targets[0], ast.Subscript) and emit.call_name(s.targets[0].value) == "context.vars":
                stored[s.targets[0].slice.value] = s.value
            elif isinstance(v, ast.Call) and emit.call_name(v) == "context.vars.update" and len(v.args) == 1 and isinstance(v.args[0], ast.Dict):
                for k, x in zip(v.args[0].keys, v.args[0].values):
                    stored[getattr(k, "value", None)] = x
            elif isinstance(v, ast.Call) and emit.call_name(v) == "context.exported_vars.discard" and len(v.args) == 1:
                discarded.append(v.args[0])
            elif isinstance(v, ast.Call) and emit.call_name(v) == "context.exported_vars.difference_update" and len(v.args) == 1 and isinstance(v.args[0], ast.Tuple):
                discarded += list(v.args[0].elts)
            else:
                fails.append(f"unexpected statement: {ast.unparse(s)[:100]}")

        def term_of(c):
            p = ph.get(f"'{c}'") if isinstance(c, str) else None
            return str(p[1]) if p else None

        got_stored = {term_of(k): x for k, x in stored.items()}
        if set(got_stored) != {al for _, al in pairs} or any(not ident_refers_to(sc, got_stored[al], ph, Sym(syms[al], "str")) for _, al in pairs if al in got_stored):
            fails.append(f"context.vars must receive every imported alias bound to its local: {sorted(map(str, got_stored))}")
        got_disc = sorted(str(term_of(getattr(d, "value", None))) for d in discarded)
        want = []
        for _, al in pairs:
            private = decide(sc, z3.PrefixOf(z3.StringVal("_"), syms[al]))
            if private is None:
                return fails + ["path does not decide whether an alias is private"]
            if not private:
                want.append(al)
        if got_disc != sorted(want):
            fails.append(f"exactly the public imported aliases must be discarded from the export set: discarded {got_disc}, expected {sorted(want)}")
        return fails
    return pred


def configure_from(I):
    def map_spec(I_, st, args, kwargs, node):
        out = []
        for x in I_.iter_concrete(st, args[1], node):
            rs = I_.call(st, args[0], [x], {}, node)
            if len(rs) != 1 or isinstance(rs[0][1], Raised):
                raise Unsupported("map() with a forking function", node)
            out.append(rs[0][1])
        return [(st, tuple(out))]

    I.specs[("fn", id(map))] = map_spec


def dump_local_context_task(task, tier, seed):
    """dump_local_context(frame) = {'<name>': <target>, ...} over frame.symbols.dump_stores() (here: two stores, names and targets symbolic)"""
    from pyvc.engine import Interp
    from pyvc import extract
    rs = []
    I = Interp()
    emit.install(I)
    st = State()
    g = emit.Gen(st)
    names = [sym("store_name0", "str"), sym("store_name1", "str")]
    targets = [sym("l_target0", "str", tags={"ident"}), sym("l_target1", "str", tags={"ident"})]

    class Stores:
        pass

    def dump_stores(I_, s, args, kwargs, node):
        return [(s, s.alloc(HObj(Stores, path="stores")))]

    I.specs["Symbols.dump_stores"] = dump_stores
    I.specs["Stores.items"] = lambda I_, s, args, kwargs, node: [(s, tuple(zip(names, targets)))]
    clo = I.closure_of_function(extract.resolve("jinja2.compiler:CodeGenerator.dump_local_context"))
    try:
        results = I.call_closure(st, clo, [g.gen, g.frame], {})
    except Unsupported as ex:
        return [Res("C05.emit.dump_local_context.engine", "unknown", "pyvc-emit", 0, str(ex), "emission")]
    for i, (s, v) in enumerate(results):
        fails = []
        if isinstance(v, Raised):
            fails.append(f"raises {v.exc!r}")
        else:
            ph = {}
            txt = emit._render_term(to_term(v, "str"), ph, v)
            try:
                t = emit.parse_expr(txt)
            except SyntaxError:
                t = None
            ok = isinstance(t, ast.Dict) and len(t.keys) == 2
            if ok:
                for j, (k, x) in enumerate(zip(t.keys, t.values)):
                    kp = ph.get(f"'{getattr(k, 'value', None)}'")
                    xp = ph.get(getattr(x, "id", None))
                    ok = ok and kp is not None and kp[0] == "repr" and str(kp[1]) == f"store_name{j}" and xp is not None and str(xp[1]) == f"l_target{j}"
            if not ok:
                fails.append(f"expected {{'<name0>': <target0>, '<name1>': <target1>}}, got {txt!r}")
            if s.ghost.get("out"):
                fails.append("dump_local_context must not write to the stream")
        rs.append(Res(f"C05.emit.dump_local_context#p{i}", "refuted" if fails else "discharged", "pyvc-emit", 0, "; ".join(fails), "emission",
                      {"emit": "dump_local_context"} if fails else None))
    return rs


EMIT_TASKS = (
    [IncludeTask("C05", f"C05.emit.include[{k}]", "jinja2.compiler:CodeGenerator.visit_Include", N.Include, include_pred(fn), mode="stmts", buffers=(None, "t_buf"),
                 replay_fn=native_all, node_fields=include_fields(k), min_paths=16,
                 # a frame that renders its output (whether an include renders at all in a template that extends: C04.emit.output_check.visit_Include)
                 frame_flags={"require_output_check": False}) for k, fn in INCLUDE_KINDS.items()]
    + [EmitTask("C05", "C05.emit.import", "jinja2.compiler:CodeGenerator.visit_Import", N.Import, import_pred, mode="stmts", buffers=(None, "t_buf"),
                replay_fn=native_context, min_paths=20),
       EmitTask("C05", "C05.emit.from_import[name, name as alias]", "jinja2.compiler:CodeGenerator.visit_FromImport", N.FromImport, from_pred([("n0", "n0"), ("n1", "a1")]),
                mode="stmts", buffers=(None,), replay_fn=native_context, node_fields=from_fields, configure=configure_from, min_paths=16),
       EmitTask("C05", "C05.emit.from_import[name]", "jinja2.compiler:CodeGenerator.visit_FromImport", N.FromImport, from_pred([("n0", "n0")]),
                mode="stmts", buffers=(None,), replay_fn=native_context, node_fields=from_fields_single, configure=configure_from, min_paths=8),
       FnTask("C05", "C05.emit.dump_local_context", dump_local_context_task, "emission", native_context)]
)
for _t in EMIT_TASKS:
    if "from_import" in _t.name:
        _t.bound_text = "shape bound: FromImport.names is this concrete list (names and aliases symbolic)"


# ---------------------------------------------------------------- exports: pop_assign_tracking

# (upper-case names sort before "_", lower-case ones after it: both orders of public/private in sorted() are covered)
EXPORT_NAME_SETS = [("a",), ("_p",), ("a", "_p"), ("A", "_p"), ("a", "b"), ("_p", "_q"), ("a", "b", "_p"), ("_p", "a", "_q"), ("B", "_p", "_q"), ("A", "_p", "b"),
                    ("c", "_p", "a", "_q", "b")]
BLOCK_FRAME, LOOP_FRAME = z3.Bool("frame.block_frame"), z3.Bool("frame.loop_frame")


class ExportsTask(Task):
    """C05.emit.exports[<names>]: the real CodeGenerator.pop_assign_tracking(frame) on the set of names one assignment statement
    stored (frame flags symbolic).  Obligation (from the statement: a module exposes exactly the PUBLIC TOP-LEVEL assignments):
      * at the top level (not in a loop / block frame) every name is stored in context.vars and context.exported_vars receives
        exactly the names that do not start with "_" - in the single-name `add` form and in the multi-name `update` form alike;
      * in a loop or block frame the names go to _loop_vars / _block_vars and nothing is exported; otherwise nothing is emitted."""
    kind = "emission"

    def __init__(self, names):
        self.names = tuple(names)
        self.prop = "C05"
        self.name = f"C05.emit.exports[{','.join(names)}]"
        self.bound_text = "the set of names stored by one statement is this concrete set (8 sets: all mixes of public/private up to 5 names); frame flags symbolic"

    def replay(self, w):
        return native_context(w)

    def schemas(self):
        from pyvc.engine import Interp
        from pyvc import extract
        I = Interp()
        emit.install(I)

        def sorted_spec(I_, s, args, kwargs, node):
            items = I_.iter_concrete(s, args[0], node)
            if kwargs or not all(isinstance(x, str) for x in items):
                raise Unsupported("sorted() of non-constant names", node)
            return [(s, s.alloc(HList(items=sorted(items))))]

        I.specs[("fn", id(sorted))] = sorted_spec
        configure_from(I)  # map(repr, names)
        st = State()
        g = emit.Gen(st)
        # the tracking layer pushed by push_assign_tracking(), filled by visit_Name(store) with the statement's names
        st.get(g.gen).fields["_assign_stack"] = st.alloc(HList(items=[frozenset(self.names)]), initial=True)
        clo = I.closure_of_function(extract.resolve("jinja2.compiler:CodeGenerator.pop_assign_tracking"))
        out = []
        for s, v in I.call_closure(st, clo, [g.gen, g.frame], {}):
            sc = emit.Schema(list(s.ghost.get("out", [])), list(s.pc), list(s.notes), "raise" if isinstance(v, Raised) else "return", s)
            sc.value = v.exc if isinstance(v, Raised) else v
            sc.gen = g
            out.append(sc)
        return out

    def check(self, sc, tree, ph):
        top, blk, lp = decide(sc, TOP), decide(sc, BLOCK_FRAME), decide(sc, LOOP_FRAME)
        stores = {"context.vars": {}, "_loop_vars": {}, "_block_vars": {}}
        exported, fails = [], []

        def ident_of(n):
            return ref_alias(sc, ph[n.id][1]) if isinstance(n, ast.Name) and n.id in ph and ph[n.id][0] == "ident" else None

        for s in tree.body:
            v = s.value if isinstance(s, ast.Expr) else None
            if isinstance(s, ast.Assign) and len(s.targets) == 1 and isinstance(s.targets[0], ast.Subscript) and emit.call_name(s.targets[0].value) in stores \
                    and isinstance(s.targets[0].slice, ast.Constant):
                stores[emit.call_name(s.targets[0].value)][s.targets[0].slice.value] = ident_of(s.value)
            elif isinstance(v, ast.Call) and emit.call_name(v) in tuple(k + ".update" for k in stores) and len(v.args) == 1 and isinstance(v.args[0], ast.Dict):
                d = stores[emit.call_name(v)[:-len(".update")]]
                for k, x in zip(v.args[0].keys, v.args[0].values):
                    d[getattr(k, "value", None)] = ident_of(x)
            elif isinstance(v, ast.Call) and emit.call_name(v) == "context.exported_vars.add" and len(v.args) == 1 and isinstance(v.args[0], ast.Constant):
                exported.append(v.args[0].value)
            elif isinstance(v, ast.Call) and emit.call_name(v) == "context.exported_vars.update" and len(v.args) == 1 and isinstance(v.args[0], ast.Tuple):
                exported += [getattr(e, "value", None) for e in v.args[0].elts]
            else:
                fails.append(f"unexpected statement: {ast.unparse(s)[:80]}")
        names = sorted(self.names)
        public = [n for n in names if not n.startswith("_")]
        if lp is None or blk is None:
            return fails + ["path does not decide the frame kind"] if any(stores.values()) or exported else fails
        where = "_loop_vars" if lp else "_block_vars" if blk else "context.vars" if top else None
        if where is None and top is None and not any(stores.values()):
            where = None
        for k, d in stores.items():
            want = names if k == where else []
            if sorted(d) != want or any(d[n] != n for n in d):
                fails.append(f"{k} receives {sorted(d)} (bound to {[d[n] for n in sorted(d)]}), expected {want} each bound to its own local")
        want_exp = public if where == "context.vars" else []
        if sorted(exported) != want_exp or len(set(exported)) != len(exported):
            fails.append(f"context.exported_vars receives {sorted(exported)}; a module must export exactly the public top-level names {want_exp} "
                         f"of the assignment {names} (frame: toplevel={top} loop={lp} block={blk})")
        return fails

    def run(self, tier, seed):
        try:
            scs = self.schemas()
        except Unsupported as ex:
            return [Res(self.name + ".engine", "unknown", "pyvc-emit", 0, f"unsupported: {ex}", self.kind)]
        res = []
        for i, sc in enumerate(scs):
            fails = []
            if sc.outcome == "raise":
                fails.append(f"pop_assign_tracking raises {sc.value!r}")
            else:
                txt, ph = sc.texts()[0]
                try:
                    fails += self.check(sc, emit.parse_stmts(txt), ph)
                except SyntaxError as ex:
                    fails.append(f"emitted text does not parse: {txt!r}")
            if fails:
                res.append(Res(f"{self.name}#p{i}", "refuted", "pyvc-emit", 0, f"under {[str(c)[:40] for c in sc.pc][:6]}: " + "; ".join(fails[:2]), self.kind,
                               witness={"names": list(self.names), "schema": sc.describe()[:300]}))
            else:
                res.append(Res(f"{self.name}#p{i}", "discharged", "pyvc-emit", 0, "", self.kind))
        if len(scs) < 3:
            res.append(Res(self.name + ".paths", "error", "pyvc-emit", 0, f"only {len(scs)} paths", self.kind))
        return res


def configure_macro(I):
    """macro_body / macro_def are used through their contracts (C06.emit.*): markers in the stream, arguments recorded"""
    def macro_body(I_, st, args, kwargs, node):
        fr = st.alloc(HObj(C.Frame, path="macro_frame"))
        ref = st.alloc(HObj(C.MacroRef, path="macro_ref"))
        st.trace.append(Event("call", "macro_body", args[1:], kwargs, (fr, ref)))
        return [(s, (fr, ref)) for s, _ in I_.call_method(st, args[0], "writeline", ["__macro_body__()"], {}, node)]

    def macro_def(I_, st, args, kwargs, node):
        st.trace.append(Event("call", "macro_def", args[1:], kwargs, None))
        return I_.call_method(st, args[0], "write", ["__macro_def__"], {}, node)

    I.specs["CodeGenerator.macro_body"] = macro_body
    I.specs["CodeGenerator.macro_def"] = macro_def


def macro_export_pred(sc, tree, ph, txt):
    """C05.emit.macro_export: a macro is stored in context.vars and (unless its name starts with "_") added to context.exported_vars
    exactly when frame.toplevel holds - independently of frame.rootlevel (the branches of a top-level {% if %} are soft frames:
    toplevel kept, rootlevel cleared); below the top level only the local name is bound"""
    if sc.outcome == "raise":
        return [f"visit_Macro raises {sc.value!r}"]
    top = decide(sc, TOP)
    if top is None:
        return [f"whether the macro is exported must be decided by frame.toplevel alone; this path decides {[str(c) for c in sc.pc][:4]} instead"]
    name = sc.st.get(sc.node).fields["name"]
    private = decide(sc, z3.PrefixOf(z3.StringVal("_"), name.t))
    body = list(tree.body)
    fails = []
    mb, md = [e for e in sc.st.trace if e.kind == "call" and e.name == "macro_body"], [e for e in sc.st.trace if e.kind == "call" and e.name == "macro_def"]
    if len(mb) != 1 or len(md) != 1 or mb[0].args[0] != sc.node or tuple(md[0].args) != (mb[0].result[1], mb[0].result[0]):
        fails.append("macro_def must be given the macro reference and frame that macro_body returned for this node")
    if not (body and isinstance(body[0], ast.Expr) and isinstance(body[0].value, ast.Call) and is_name(body[0].value.func, "__macro_body__")):
        return fails + [f"the macro function must be emitted first: {txt!r}"]
    body = body[1:]
    a = body[-1] if body else None
    if not (isinstance(a, ast.Assign) and is_name(a.value, "__macro_def__")):
        return fails + [f"the macro object must be assigned last: {txt!r}"]
    pre = body[:-1]
    local_ok = ident_refers_to(sc, a.targets[-1], ph, name)
    if top:
        if not (len(a.targets) == 2 and is_ctx_vars_item(a.targets[0], ph, "node.name") and local_ok):
            fails.append(f"a top-level macro must be bound to context.vars[name] and to its local: {ast.unparse(a)[:100]}")
        if private is None:
            return fails + ["path does not decide whether the macro name is private"]
        adds = [s.value for s in pre if isinstance(s, ast.Expr) and isinstance(s.value, ast.Call) and emit.call_name(s.value) == "context.exported_vars.add"]
        if len(adds) != len(pre):
            fails.append(f"unexpected statements: {txt!r}")
        if private and adds:
            fails.append("a macro whose name starts with an underscore must not be exported")
        if not private and not (len(adds) == 1 and len(adds[0].args) == 1 and is_repr_of(adds[0].args[0], ph, "node.name")):
            fails.append(f"a public top-level macro must be added to context.exported_vars: {txt!r}")
    else:
        if pre or len(a.targets) != 1 or not local_ok or "context" in {n.id for n in ast.walk(tree) if isinstance(n, ast.Name)}:
            fails.append(f"a macro below the top level is bound to its local name only: {txt!r}")
    return fails


EMIT_TASKS = EMIT_TASKS + [ExportsTask(ns) for ns in EXPORT_NAME_SETS] + [
    EmitTask("C05", "C05.emit.macro_export", "jinja2.compiler:CodeGenerator.visit_Macro", N.Macro, macro_export_pred, mode="stmts", buffers=(None, "t_buf"),
             replay_fn=native_context, configure=configure_macro, min_paths=6)]

TASKS = RUNTIME_TASKS + EMIT_TASKS


# ================================================================== parser: defaults and the `with/without context` suffix

from contracts import c01_parser as PP  # noqa: E402  (abstract token stream / parser world of C01)
import jinja2.parser as P  # noqa: E402


def tok_is(st, tok, expr):
    f = st.get(tok).fields
    return PP.token_test_term(f["type"], f["value"], expr)


class CtxParse(PP.ParseVC):
    """the real Parser.parse_include / parse_import / parse_from / parse_import_context over the abstract token stream"""
    prop = "C05"

    def __init__(self, method):
        label, builder = PP.arg_variants(method)[0]
        PP.ParseVC.__init__(self, method, label, builder)
        self.prop = "C05"
        self.name = f"C05.parser.{method}"

    def configure(self, I):
        PP.ParseVC.configure(self, I)
        if self.method != "parse_import_context":
            orig = I.specs["Parser.parse_import_context"]
            c = self

            def wrapped(I_, st, args, kwargs, node):
                h = st.get(c.world.stream)
                st.ghost = dict(st.ghost)
                st.ghost["ctx_call"] = list(st.ghost.get("ctx_call", [])) + [(h.fields["current"], h.fields.get("_peek"), tuple(args[1:]), dict(kwargs))]
                return orig(I_, st, args, kwargs, node)

            I.specs["Parser.parse_import_context"] = wrapped

    # ---- parse_import_context
    def p_suffix(self, pre, out):
        if out.raised or self.method != "parse_import_context":
            return None
        st, w = out.st, self.world
        node, default = self.args
        if out.value != node:
            return False
        wc = st.get(node).fields.get("with_context", "<unset>")
        toks = st.ghost.get("tokens", [])
        first = w.first
        peek = toks[1] if len(toks) > 1 and st.get(toks[1]).path == "peek" else None
        kw = z3.Or(tok_is(st, first, "name:with"), tok_is(st, first, "name:without"))
        consumed = st.ghost.get("consumed", [])
        if wc is default:
            # no suffix: nothing consumed, the default applies
            if consumed:
                return False
            return z3.Not(kw) if peek is None else z3.Not(z3.And(kw, tok_is(st, peek, "name:context")))
        if not (isinstance(wc, Sym) and wc.k == "bool") or peek is None or consumed != [first, peek]:
            return False
        return z3.And(kw, tok_is(st, peek, "name:context"), wc.t == (to_term(st.get(first).fields["value"], "str") == z3.StringVal("with")))

    # ---- parse_include / parse_import
    def p_default(self, pre, out):
        if out.raised or self.method not in ("parse_include", "parse_import"):
            return None
        st = out.st
        calls = st.ghost.get("ctx_call", [])
        if len(calls) != 1:
            return False
        cur, peek, args, kwargs = calls[0]
        want = self.method == "parse_include"   # documented: include -> with context, import -> without context
        if kwargs or len(args) != 2 or args[1] is not want or args[0] != out.value:
            return False
        h = st.get(out.value)
        if h.cls is not (N.Include if want else N.Import):
            return False
        ex = [e for e in st.trace if e.kind == "call" and e.name == "Parser.parse_expression" and e.result != "raise"]
        if len(ex) != 1 or h.fields.get("template") != ex[0].result:
            return False
        if self.method == "parse_import":
            tg = [e for e in st.trace if e.kind == "call" and e.name == "Parser.parse_assign_target" and e.result != "raise"]
            if len(tg) != 1 or tg[0].kwargs.get("name_only") is not True:
                return False
            nm = st.get(tg[0].result).fields.get("name")
            return h.fields.get("target") is nm and nm is not None
        skips = [e for e in st.trace if e.kind == "call" and e.name == "TokenStream.skip" and e.result != "raise"]
        im = h.fields.get("ignore_missing")
        if im is True:
            return z3.And(tok_is(st, skips[0].result, "name:ignore"), tok_is(st, skips[1].result, "name:missing")) if len(skips) == 2 else False
        if im is not False or skips:
            return False
        c = tok_is(st, cur, "name:ignore")
        return z3.Not(c) if peek is None else z3.Not(z3.And(c, tok_is(st, peek, "name:missing")))

    # ---- parse_from
    def p_from(self, pre, out):
        if out.raised or self.method != "parse_from":
            return None
        st = out.st
        h = st.get(out.value) if isinstance(out.value, Ref) else None
        if h is None or h.cls is not N.FromImport:
            return False
        wc = h.fields.get("with_context", "<unset>")
        if wc is False:
            return True   # documented default of `from ... import`: without context
        if not (isinstance(wc, Sym) and wc.k == "bool"):
            return False
        # set by a `with context` / `without context` suffix: the value is (<consumed token>.value == "with")
        # (matched structurally: the interpreter builds exactly this term; keeps the string solver out of the search)
        for t in st.ghost.get("tokens", []):
            v = to_term(st.get(t).fields["value"], "str")
            if wc.t.eq(v == z3.StringVal("with")):
                return z3.Or(v == z3.StringVal("with"), v == z3.StringVal("without"))
        return False

    posts = [("only_TemplateSyntaxError", PP.ParseVC.p_raises), ("suffix_sets_with_context_else_default", p_suffix),
             ("documented_default_and_fields", p_default), ("from_import_default_without_context", p_from)]

    def replay(self, w):
        return native_parser_defaults(w)

    def finding_key(self, res):
        return None


def native_parser_defaults(w=None):
    v, d, n = parser_family()
    return v, d


def parser_family():
    """the real parser on every combination of statement x suffix x `ignore missing` (+ name lists for `from`)"""
    import jinja2
    env = jinja2.Environment()
    problems, n = [], 0
    suffixes = {"": None, " with context": True, " without context": False}
    for sfx, wc in suffixes.items():
        for ign in ("", " ignore missing"):
            src = "{% include 'a'" + ign + sfx + " %}"
            node = env.parse(src).body[0]
            n += 1
            if (node.with_context, node.ignore_missing) != (True if wc is None else wc, bool(ign)):
                problems.append(f"{src}: with_context={node.with_context} ignore_missing={node.ignore_missing}")
        src = "{% import 'a' as m" + sfx + " %}"
        node = env.parse(src).body[0]
        n += 1
        if (node.with_context, node.target) != (False if wc is None else wc, "m"):
            problems.append(f"{src}: with_context={node.with_context} target={node.target}")
        for names, want in (("x", ["x"]), ("x, y", ["x", "y"]), ("x as a, y", [("x", "a"), "y"]), ("x, y as b", ["x", ("y", "b")]),
                            ("with", ["with"]), ("x, context", ["x", "context"]), ("without, with", ["without", "with"])):
            src = "{% from 'a' import " + names + sfx + " %}"
            try:
                node = env.parse(src).body[0]
                got = (node.with_context, node.names)
            except Exception as ex:
                got = type(ex).__name__
            n += 1
            if got != (False if wc is None else wc, want):
                problems.append(f"{src}: parsed as {got}")
    for src in ("{% from 'a' import _x %}", "{% from 'a' import x, _y %}", "{% from 'a' import _x as y %}"):
        n += 1
        try:
            env.parse(src)
            problems.append(f"{src}: a private name was accepted")
        except TemplateAssertionError:
            pass
        except Exception as ex:
            problems.append(f"{src}: {type(ex).__name__} instead of TemplateAssertionError")
    return (bool(problems), "; ".join(problems[:3]) or f"{n} statements parsed with the documented defaults", n)


def parser_family_task(task, tier, seed):
    v, d, n = parser_family()
    task.stats = {"statements": n}
    return [Res("C05.parser.family", "refuted" if v else "bounded-ok", "native", 0, d, "bounded", {"family": "parser"} if v else None)]


_pf = FnTask("C05", "C05.parser.family", parser_family_task, "bounded", native_parser_defaults)
_pf.bound_text = "include/import/from x {no suffix, with context, without context} x {ignore missing} x 7 name lists + 3 private-name imports"
PARSER_TASKS = [CtxParse(m) for m in ("parse_import_context", "parse_include", "parse_import", "parse_from")] + [_pf]



def bounded_task(name, fn, bound):
    def run(task, tier, seed):
        problems = guarded(fn)
        return [Res(name, "refuted" if problems else "bounded-ok", "native", 0, "; ".join(problems[:3]) or bound, "bounded", {"family": name} if problems else None)]
    t = FnTask("C05", name, run, "bounded", lambda w: (lambda p: (bool(p), "; ".join(p[:3]) or "family agrees"))(guarded(fn)))
    t.bound_text = bound
    return t


BOUNDED_TASKS = [
    bounded_task("C05.new_context.family", native_new_context,
                 "real new_context on shared x vars in {None, {}, 2 keys} x globals in {None, {}, 2 keys} x locals in {None, {}, {x: missing}, 3 keys incl. missing} (72 calls) "
                 "+ get_all/get_exported on one context"),
    bounded_task("C05.select.family", native_select,
                 "real select_template / get_or_select_template on 6 name lists, 3 failing lists, Undefined, a loader raising RuntimeError; default-module caching with extra globals"),
]

TASKS = RUNTIME_TASKS + EMIT_TASKS + PARSER_TASKS + BOUNDED_TASKS


META = {
    "level": "other",
    "explanation": "mechanisms proved, end-to-end statement argued by induction over the chain: runtime.new_context (loop invariant over unbounded "
                   "dicts), Context.get_all/get_exported, Template.new_context/make_module(_async)/_get_default_module(_async), TemplateModule.__init__ "
                   "and Environment.get_template/select_template/get_or_select_template are VCs on the real bodies; visit_Include/visit_Import/"
                   "visit_FromImport/dump_local_context are emission contracts on the real visitors; the parser defaults are VCs on the real parse "
                   "methods over the abstract token stream of C01 plus a bounded family on the real parser. How the pieces compose over a set of "
                   "templates (which context object reaches which render function) is argued, not derived.",
    "assumptions": [
        "A-EQ equality of names/keys coincides with term equality; dict keys are strings",
        "A7 await / async comprehensions are transparent",
        "exported_vars is a subset of dom(vars) (established by the generated code: a name is exported after it is stored; C03.assign_tracking)",
        "a value is not both a name (str/Undefined) and a Template",
        "Undefined._fail_with_undefined_error always raises (declared NoReturn; C11)",
        "abstract callees used through their contracts: Context(...), TemplateModule(...), new_context, make_module, _load_template, join_path, "
        "root_render_func; the loader outcome of a name is a function of the effective name (no concurrent loader change during select_template)",
        "FromImport.names and the number of exported names are bounded in the two shape-bounded obligations (stated on the tasks)",
        "Output/Import node fields come from the parser (FromImport names are str or (str, str))",
    ],
    "trusted_base": ["z3 5.1 / cvc5 1.0.3", "pyvc symbolic executor and emission engine", "dict(a, **b) / dict.items / set(mapping) / set difference / "
                     "dict comprehension over a set (generic member) dependency specs (contracts/c05.py)", "C01 abstract token stream model (contracts/c01_parser.py)"],
}


# ================================================================== hunt round: derived contexts keep the template globals; `loop` for includes

from contracts.c04 import ContextDerived as _C04Derived, ForScopedBlockTask as _ForTask  # noqa: E402


class DerivedKeepsGlobals(_C04Derived):
    """C05.Context.derived.keeps_template_globals: the context derived for a scoped block (or a pass_context call) belongs to the
    same template: it remembers the same globals (globals_keys, and the mapping when the context keeps one), so that an import
    without context executed in it sees the template's globals like anywhere else in the template."""

    def __init__(self):
        _C04Derived.__init__(self)
        self.prop = "C05"
        self.name = "C05.Context.derived.keeps_template_globals"

    def configure(self, I):
        _C04Derived.configure(self, I)
        base = I.specs["jinja2.runtime:new_context"]

        def new_context_spec(I_, st, args, kwargs, node):
            rs = base(I_, st, args, kwargs, node)
            for s, r in rs:
                # Context.__init__ with globals=None (C04.Context.__init__[globals=None]): no globals remembered
                s.get(r).fields["globals_keys"] = s.alloc(HSet(items=[]))
                s.get(r).fields["template_globals"] = s.alloc(HDict(items={}))
            return rs

        I.specs["jinja2.runtime:new_context"] = new_context_spec

    def p_globals(self, pre, out):
        if out.raised:
            return False
        f = out.st.get(out.value).fields
        gk = f.get("globals_keys")
        if gk == self.gkeys:
            ok_keys = True
        elif isinstance(gk, Ref) and isinstance(out.st.get(gk), HSet) and out.st.get(gk).items is None:
            q = z3.Const(fresh_name("q"), S_)
            ok_keys = z3.ForAll([q], z3.Select(out.st.get(gk).dom, q) == z3.Select(out.st.get(self.gkeys).dom, q))
        else:
            ok_keys = False  # e.g. the empty set of a context created with globals=None
        if ok_keys is False:
            return False
        tg = f.get("template_globals")
        return ok_keys if tg == self.tglobals else False

    posts = [("same_globals_as_the_receiver", p_globals)]

    def replay(self, w):
        return native_import_sees_globals(w)

    def finding_key(self, res):
        return "derived-context-forgets-globals"


class ForContextTask(_ForTask):
    """C05.emit.for.context_sees_loop[<shape>]: the real visit_For on a loop whose body (a concrete small tree of symbolic statements)
    contains include / import / from-import statements with a symbolic `with_context` flag, anywhere in the subtree.  Obligation: on
    every path on which the special `loop` variable is not created, every such statement is known to be `without context` - a template
    included or imported with context is handed the current locals (dump_local_context) and must find THIS loop's `loop` among them."""
    shapes = {"I": ("I",), "M": ("M",), "F": ("F",), "If[I]": (("If", ("I",)),), "With[M]": (("With", ("M",)),), "For[I]": (("For", ("I",)),),
              "S,If[F],I": ("S", ("If", ("F",)), "I"), "B,If[I]": ("B", ("If", ("I",)))}

    def __init__(self, label):
        _ForTask.__init__(self, label)
        self.prop = "C05"
        self.name = f"C05.emit.for.context_sees_loop[{label}]"

    def replay(self, w):
        return native_loop_in_include(w)

    def finding_key(self, res):
        import re
        m = re.search(r"\[([a-z][a-z0-9_.-]+)\]", res.detail or "")
        return m.group(1) if m else "other"


def native_loop_in_include(w=None):
    problems = []
    for is_async in (False, True):
        env = _env({"inc": "{{ loop.index if loop is defined else '?' }}", "lib": "{% macro m() %}{{ loop.index if loop is defined else '?' }}{% endmacro %}",
                    "single": "{% for j in 'xyz' %}{% include 'inc' %}{% endfor %}",
                    "nested": "{% for i in 'ab' %}{{ loop.index }}:{% for j in 'xyz' %}{% include 'inc' %}{% endfor %};{% endfor %}",
                    "nested_if": "{% for i in 'ab' %}{% for j in 'xyz' %}{% if j %}{% include 'inc' %}{% endif %}{% endfor %};{% endfor %}",
                    "imp": "{% for j in 'xyz' %}{% from 'lib' import m with context %}{{ m() }}{% endfor %}",
                    "imp2": "{% for j in 'xyz' %}{% import 'lib' as l with context %}{{ l.m() }}{% endfor %}",
                    "nocontext": "{% for j in 'xy' %}{% include 'inc' without context %}{% endfor %}",
                    "control": "{% for j in 'xyz' %}{% if loop.first %}{% endif %}{% include 'inc' %}{% endfor %}"}, is_async)
        for name, want in (("single", "123"), ("nested", "1:123;2:123;"), ("nested_if", "123;123;"), ("imp", "123"), ("imp2", "123"), ("nocontext", "??"), ("control", "123")):
            got = _render(env, name)
            if got != want:
                problems.append(f"async={is_async} {name}: rendered {got!r}, expected {want!r} (an include / import with context sees the current loop's `loop`)")
    return (bool(problems), "; ".join(problems[:2]) or "includes and imports with context see the innermost loop")


HUNT_TASKS = [DerivedKeepsGlobals()] + [ForContextTask(k) for k in ForContextTask.shapes]
TASKS = TASKS + HUNT_TASKS


# ================================================================== last hunt round: macro specials for includes / imports with context

class MacroContextTask(Task):
    """C05.emit.macro.context_sees_specials[<shape>]: the real CodeGenerator.macro_body on a macro without parameters whose body is a
    concrete small tree containing include / import / from-import statements with a symbolic `with_context` flag.  Obligation: on every
    path on which the macro does not accept all of varargs, kwargs and caller (MacroRef.accesses_*), every such statement is known to
    be `without context` - a template included or imported with context is handed the macro's locals and may read the three special
    variables every macro documents.  (Macro counterpart of C05.emit.for.context_sees_loop.)"""
    kind = "emission"
    shapes = {"I": ("I",), "M": ("M",), "F": ("F",), "If[I]": (("If", ("I",)),), "S,I": ("S", "I")}

    def __init__(self, label):
        self.label, self.shape = label, self.shapes[label]
        self.prop = "C05"
        self.name = f"C05.emit.macro.context_sees_specials[{label}]"
        self.bound_text = "shape bound: macro without parameters, body is this concrete tree (with_context flags, other statements symbolic)"

    def replay(self, w):
        return native_macro_specials(w)

    def finding_key(self, res):
        return "context-without-macro-specials" if "[context-without-macro-specials]" in (res.detail or "") else "other"

    def run(self, tier, seed):
        from contracts.c04 import build_for_body
        info = {}

        def fields(st):
            blocks, every = [], []
            kids = build_for_body(st, self.shape, "node.body", blocks, every)
            info["every"] = every
            return {"body": st.alloc(HList(items=kids), initial=True), "args": st.alloc(HList(items=[]), initial=True), "defaults": st.alloc(HList(items=[]), initial=True)}

        def configure(I):
            def find_all(I_, s, args, kwargs, node):
                return [(s, tuple(r for r in info["every"] if issubclass(s.get(r).cls, args[1])))]
            I.specs["Node.find_all"] = find_all

        try:
            scs, I = emit.run_visitor("jinja2.compiler:CodeGenerator.macro_body", N.Macro, buffer=None, node_fields=fields, configure=configure)
        except Unsupported as ex:
            return [Res(self.name + ".engine", "unknown", "pyvc-emit", 0, f"unsupported: {ex}", self.kind)]
        res = []
        for i, sc in enumerate(scs):
            fails = []
            if sc.outcome == "raise":
                fails.append(f"macro_body raises {sc.value!r}")
            else:
                mref = sc.st.get(sc.value[1]).fields if isinstance(sc.value, tuple) else {}
                missing_ = [k for k in ("accesses_varargs", "accesses_kwargs", "accesses_caller") if mref.get(k, False) is not True]
                if missing_:
                    for r in info["every"]:
                        h = sc.st.get(r)
                        if h.cls in (N.Include, N.Import, N.FromImport) and not sc.holds(z3.Not(z3.Bool(h.path + ".with_context"))):
                            fails.append(f"[context-without-macro-specials] the include / import at {h.path} may be `with context`, but the macro does not accept "
                                         f"{[m.split('_')[1] for m in missing_]}: the target template is handed the macro's locals and cannot see them "
                                         f"(calling the macro with extra arguments / a caller fails with TypeError)")
                            break
            res.append(Res(f"{self.name}#p{i}", "refuted" if fails else "discharged", "pyvc-emit", 0, "; ".join(fails[:1]), self.kind,
                           {"shape": self.label} if fails else None))
        if len(scs) < 4:
            res.append(Res(self.name + ".paths", "error", "pyvc-emit", 0, f"only {len(scs)} paths", self.kind))
        return res


def native_macro_specials(w=None):
    problems = []
    for is_async in (False, True):
        env = _env({"va": "[{{ varargs|join(',') }}]", "kw": "[{{ kwargs|dictsort|join(',') }}]", "ca": "[{{ caller() }}]"}, is_async)
        for src, want in (("{% macro m() %}{% include 'va' %}{% endmacro %}{{ m(1, 2) }}", "[1,2]"),
                          ("{% macro m() %}{% include 'kw' %}{% endmacro %}{{ m(a=1) }}", "[('a', 1)]"),
                          ("{% macro m() %}{% include 'ca' %}{% endmacro %}{% call m() %}C{% endcall %}", "[C]"),
                          ("{% macro m() %}{% import 'va' as i with context %}{{ i }}{% endmacro %}{{ m(1, 2) }}", "[1,2]"),
                          ("{% macro m() %}{{ varargs|length }}{% include 'va' %}{% endmacro %}{{ m(1, 2) }}", "2[1,2]")):
            try:
                got = env.from_string(src).render()
            except Exception as ex:
                got = type(ex).__name__
            if got != want:
                problems.append(f"async={is_async} {src!r}: {got!r}, expected {want!r}")
    return (bool(problems), "; ".join(problems[:2]) or "templates included in a macro see varargs / kwargs / caller")


MACRO_TASKS = [MacroContextTask(k) for k in MacroContextTask.shapes]
TASKS = TASKS + MACRO_TASKS
