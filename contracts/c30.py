"""C30  Template compilation is deterministic.

PROOF (information-flow contract on iteration order) by abstract interpretation of the REAL function bodies
(contracts/c30_taint.py): ghost tag "ordered"; iterating a set / frozenset - or a dict / list filled in set order - is an
unordered context; sorted(), membership, len, truthiness, set algebra, next(iter(s)) under len(s) == 1 give ordered
results; sinks are every effectful call in an unordered context (write / writeline and whatever calls them), every
order- or value-tainted argument of an effectful self-call, the returned value (the AST returned by parser / extension
parse methods, the text returned by helpers), and every container reachable from the parameters that is left in set order.

  C30.<function>.ordered            one obligation per function under contract (DESIGN list) - expected to fail for
                                    ext.InternationalizationExtension.parse (F21: `for name in referenced` fills `variables`)
  C30.extra.<function>.ordered      the same analysis over every other method of the compile pipeline classes
  C30.lemma.branch_update.*         VC on the real Symbols.branch_update (symbolic dict/set state, set loop cut at a generic
                                    element): under the Symbols invariant every `self.loads[target] = ...` in the set loop
                                    overwrites an EXISTING key (so the dict order is untouched) and the key is the
                                    element's own identifier
  C30.lemma.symbols_inv.<method>    the invariant (stores <= dom refs, refs[n] in dom loads, refs[n] = 'l_<level>_<n>') is
                                    preserved by _define_ref / store / declare_parameter / load / branch_update
  C30.lemma.symbols_private         refs / loads / stores are mutated only inside class Symbols
  C30.lemma.lookup_only             Parser.extensions (filled in tag-set order) is only ever used for lookups
  C30.consttext.*                   every compile-time value whose str()/repr() is written into the generated source has a text that
                                    is the same in every process: has_safe_repr accepts exact types only (no set / frozenset / arbitrary
                                    objects / subclasses) and recurses into containers; the output fold (_output_child_to_const, also the
                                    native code generator) raises Impossible unless has_safe_repr; Const nodes come from lexer tokens or
                                    Const.from_untrusted; native: has_safe_repr(v) => repr(v), str(v) identical in 4 processes (bounded)
  C30.typing.probe (bounded)        the analyser's typing assumption, checked natively: every iteration site it classified
                                    as ordered never sees a set / frozenset while the corpus is compiled
  C30.native.hashseed (bounded)     a corpus of templates covering every statement kind compiled in subprocesses under 8
                                    PYTHONHASHSEED values (sync and async, with the i18n / do / loopcontrols extensions):
                                    identical generated sources
"""
from __future__ import annotations

import ast
import hashlib
import inspect
import json
import os
import re
import subprocess
import sys
import time
import z3

from pyvc.contract import Res, FnTask, Task
from pyvc import extract, abstract as A
from pyvc.values import State, Sym, Ref, HObj, HList, HDict, HSet, KIND_SORT, Unsupported, fresh, fresh_name, sym
from pyvc.interp import Raised, OK
from pyvc.smt import check_sat
from contracts import c30_taint as T

import jinja2.idtracking as IDT

FUC = [
    "jinja2.compiler:CodeGenerator.pull_dependencies", "jinja2.compiler:CodeGenerator.enter_frame", "jinja2.compiler:CodeGenerator.leave_frame",
    "jinja2.compiler:CodeGenerator.pop_assign_tracking", "jinja2.compiler:CodeGenerator.dump_local_context", "jinja2.compiler:CodeGenerator.visit_Template",
    "jinja2.compiler:CodeGenerator.visit_FromImport", "jinja2.compiler:CodeGenerator.visit_Assign", "jinja2.compiler:CodeGenerator.macro_body",
    "jinja2.compiler:CodeGenerator.visit_For", "jinja2.compiler:find_undeclared", "jinja2.idtracking:Symbols.branch_update",
    "jinja2.idtracking:Symbols.dump_stores", "jinja2.idtracking:Symbols.dump_param_targets", "jinja2.parser:Parser._fail_ut_eof",
    "jinja2.ext:InternationalizationExtension.parse", "jinja2.ext:InternationalizationExtension._parse_block",
    "jinja2.ext:InternationalizationExtension._make_node",
]

# dict stores inside an unordered iteration that a lemma proves to overwrite existing keys
LEMMAS = {"jinja2.idtracking:Symbols.branch_update": {"self.loads[target]"}}
# containers filled in set order that are only ever used for lookups (lemma lookup_only)
LOOKUP_ONLY = {"jinja2.parser:Parser.__init__": {"self.extensions"}}

EXTRA_CLASSES = [("jinja2.compiler", ["CodeGenerator", "DependencyFinderVisitor", "UndeclaredNameVisitor", "Frame", "MacroRef"]),
                 ("jinja2.parser", ["Parser"]), ("jinja2.idtracking", ["Symbols", "RootVisitor", "FrameSymbolVisitor"]),
                 ("jinja2.ext", ["Extension", "InternationalizationExtension", "ExprStmtExtension", "LoopControlExtension", "DebugExtension"]),
                 ("jinja2.optimizer", ["Optimizer"]), ("jinja2.visitor", ["NodeVisitor", "NodeTransformer"]), ("jinja2.nodes", ["Node"]),
                 ("jinja2.lexer", ["Lexer", "TokenStream"])]
EXTRA_FUNCS = ["jinja2.compiler:generate", "jinja2.compiler:has_safe_repr", "jinja2.idtracking:find_symbols", "jinja2.idtracking:symbols_for_node",
               "jinja2.optimizer:optimize", "jinja2.environment:Environment._parse", "jinja2.environment:Environment._generate",
               "jinja2.environment:Environment.compile", "jinja2.environment:Environment.iter_extensions", "jinja2.environment:load_extensions",
               # how an environment comes to its extensions / settings (the order of extensions decides preprocess, filter_stream, tags)
               "jinja2.environment:Template.__new__", "jinja2.environment:get_spontaneous_environment", "jinja2.environment:Environment.__init__",
               "jinja2.environment:Environment.add_extension", "jinja2.environment:Environment.extend", "jinja2.environment:Environment.overlay",
               "jinja2.environment:Environment.preprocess", "jinja2.environment:Environment._tokenize", "jinja2.environment:Environment.from_string"]


def extra_targets():
    import importlib
    out = []
    for modname, classes in EXTRA_CLASSES:
        mod = importlib.import_module(modname)
        for cn in classes:
            cls = getattr(mod, cn)
            for name, raw in cls.__dict__.items():
                f = raw.__func__ if isinstance(raw, (staticmethod, classmethod)) else raw
                f = inspect.unwrap(f) if callable(f) else f
                if inspect.isfunction(f) and f.__qualname__ == f"{cn}.{name}":
                    q = f"{modname}:{cn}.{name}"
                    if q not in FUC:
                        out.append(q)
    return out + EXTRA_FUNCS


# ------------------------------------------------------------------------------------------ native oracle: hash seeds

def corpus():
    """~60 templates covering every statement kind and the anchored sites (several names per set)"""
    c = {
        "output": "a{{ x }}b{{ y|upper }}{{ z|default('d')|trim|lower|title }}",
        "filters_tests": "{{ a|upper|lower|trim|title|capitalize|length }}{{ b is defined }}{{ b is none }}{{ b is string }}{{ b is odd }}{{ b is even }}{{ b is mapping }}",
        "filters_in_if": "{% if a|upper is string and b|lower is defined %}{{ c|trim|escape|e|safe|striptags }}{% endif %}",
        "set_multi": "{% set a, b, c, d = 1, 2, 3, 4 %}{{ a }}{{ b }}{{ c }}{{ d }}",
        "set_multi_private": "{% set _a, b, _c, d, e = 1, 2, 3, 4, 5 %}{{ b }}",
        "set_many": "{% set zeta = 1 %}{% set alpha = 2 %}{% set m1, m2, m3, m4, m5, m6 = 1, 2, 3, 4, 5, 6 %}",
        "set_in_block": "{% block b %}{% set p, q, r, s = 1, 2, 3, 4 %}{{ p }}{% endblock %}",
        "set_in_for": "{% for i in xs %}{% set p, q, r, s = i, i, i, i %}{{ p }}{% endfor %}",
        "set_block": "{% set body %}x{{ y }}{% endset %}{% set f | upper %}y{% endset %}{{ body }}{{ f }}",
        "namespace": "{% set ns = namespace(a=1, b=2) %}{% set ns.a, ns.b, ns.c = 3, 4, 5 %}{{ ns.a }}",
        "if_stores": "{% if c %}{% set a1 = 1 %}{% set b1 = 2 %}{% set c1 = 3 %}{% set d1 = 4 %}{% else %}{% set e1 = 5 %}{% set f1 = 6 %}{% set a1 = 7 %}{% endif %}{{ a1 }}{{ b1 }}{{ c1 }}{{ d1 }}{{ e1 }}{{ f1 }}",
        "if_elif_stores": "{% if c %}{% set u1 = 1 %}{% elif d %}{% set u2 = 1 %}{% set u3 = 1 %}{% elif e %}{% set u4, u5, u6 = 1, 2, 3 %}{% else %}{% set u7 = 1 %}{% endif %}{{ u1 }}{{ u7 }}",
        "if_nested_stores": "{% for i in xs %}{% if i %}{% set v1, v2, v3 = 1, 2, 3 %}{% if v1 %}{% set w1, w2, w3, w4 = 1, 2, 3, 4 %}{% endif %}{% endif %}{{ v1 }}{{ w1 }}{% endfor %}",
        "for_plain": "{% for a in xs %}{{ a }}{% endfor %}",
        "for_unpack": "{% for a, b, (c, d), e in xs %}{{ a }}{{ b }}{{ c }}{{ d }}{{ e }}{% endfor %}",
        "for_else_loop": "{% for a in xs %}{{ loop.index }}{{ loop.first }}{% else %}none{% endfor %}",
        "for_filter": "{% for a in xs if a > lim and a is odd %}{{ a }}{% endfor %}",
        "for_recursive": "{% for n in tree recursive %}{{ n.v }}{% if n.c %}{{ loop(n.c) }}{% endif %}{% endfor %}",
        "for_scoped_block": "{% for a, b, c in xs %}{% block item scoped %}{{ a }}{{ b }}{{ c }}{% set t1, t2, t3 = a, b, c %}{% endblock %}{% endfor %}",
        "for_break": "{% for a in xs %}{% if a %}{% break %}{% endif %}{% continue %}{% endfor %}",
        "macro_simple": "{% macro m(a, b=1, c=2) %}{{ a }}{{ b }}{{ c }}{% endmacro %}{{ m(1) }}",
        "macro_special": "{% macro m(a) %}{{ caller() }}{{ kwargs }}{{ varargs }}{{ a }}{% endmacro %}{% call m(1, 2, x=3) %}c{% endcall %}",
        "macro_special2": "{% macro m(varargs, kwargs, caller=none) %}{{ caller }}{{ kwargs }}{{ varargs }}{% endmacro %}{{ m(1, 2) }}",
        "macro_many": "{% macro a1() %}{% endmacro %}{% macro b1() %}{% endmacro %}{% macro c1() %}{% endmacro %}{% macro _p() %}{% endmacro %}{{ a1() }}",
        "macro_closure": "{% set g1, g2, g3 = 1, 2, 3 %}{% macro m() %}{{ g1 }}{{ g2 }}{{ g3 }}{{ free1 }}{{ free2 }}{% endmacro %}{{ m() }}",
        "call_block_args": "{% macro m() %}{{ caller(1, 2) }}{% endmacro %}{% call(p, q) m() %}{{ p }}{{ q }}{{ outer1 }}{{ outer2 }}{% endcall %}",
        "block_plain": "{% block a %}A{{ x }}{% endblock %}{% block b %}B{{ self.a() }}{% endblock %}{% block c %}{{ super() }}{% endblock %}",
        "block_required": "{% block a required %}{% endblock %}",
        "extends_static": "{% extends 'base' %}{% block a %}x{{ super() }}{% set k1, k2, k3 = 1, 2, 3 %}{% endblock %}{% block b %}{{ y|upper|trim is string }}{% endblock %}",
        "extends_dynamic": "{% extends layout %}{% block a %}x{% endblock %}",
        "extends_conditional": "{% if c %}{% extends 'base' %}{% endif %}{% block a %}{{ x }}{% endblock %}text",
        "include_ctx": "{% set l1, l2, l3, l4 = 1, 2, 3, 4 %}{% for i in xs %}{% set m1 = i %}{% include 'inc' %}{% include ['a', 'b'] ignore missing %}{% endfor %}",
        "include_noctx": "{% include 'inc' without context %}{% include name ignore missing without context %}",
        "import_plain": "{% import 'lib' as lib %}{% import 'lib' as _priv %}{{ lib.m() }}",
        "import_ctx": "{% set a1, a2, a3 = 1, 2, 3 %}{% import 'lib' as lib with context %}{{ lib.m() }}",
        "from_import": "{% from 'lib' import m1, m2 as n2, m3, _m4, m5 as _n5 %}{{ m1() }}{{ n2 }}",
        "from_import_one": "{% from 'lib' import m1 %}{{ m1 }}",
        "from_import_in_block": "{% block a %}{% from 'lib' import m1, m2, m3 with context %}{{ m1 }}{% endblock %}",
        "with_stmt": "{% with a = 1, b = 2, c = a %}{{ a }}{{ b }}{{ c }}{% set d9, e9, f9 = 1, 2, 3 %}{% endwith %}",
        "filter_block": "{% filter upper|trim %}x{{ y }}{% set fb1, fb2, fb3 = 1, 2, 3 %}{% endfilter %}",
        "autoescape": "{% autoescape true %}{{ x }}{% autoescape false %}{{ y }}{% endautoescape %}{% endautoescape %}",
        "do_stmt": "{% do xs.append(1) %}{% do ys.update(a=1, b=2, c=3) %}",
        "calls": "{{ f(1, 2, a=3, b=4, *args, **kw) }}{{ g(class=1, def=2, **kw) }}{{ x.y.z(1)[2]['k'] }}",
        "exprs": "{{ a + b * c // d % e ** f - -g }}{{ a ~ b ~ c }}{{ a if b else c }}{{ a and b or not c }}{{ a < b <= c != d in e not in f }}",
        "literals": "{{ [1, 2, 3] }}{{ (1, 2) }}{{ {'a': 1, 'b': 2, 'c': 3} }}{{ 'x' }}{{ 1.5 }}{{ true }}{{ none }}{{ x[1:2:3] }}",
        "dict_literal_vars": "{{ {'k1': v1, 'k2': v2, 'k3': v3, 'k4': v4} }}{{ dict(a=u1, b=u2, c=u3) }}",
        "many_names": "{{ n1 }}{{ n2 }}{{ n3 }}{{ n4 }}{{ n5 }}{{ n6 }}{{ n7 }}{{ n8 }}{{ n9 }}",
        "cond_expr_filters": "{{ (a|upper if b is defined else c|lower)|trim }}{{ a|missingfilter if false }}",
        "test_filter_names": "{{ a is divisibleby 3 }}{{ a is sameas b }}{{ a|selectattr('x')|map('upper')|select('odd')|reject('even')|list|join(',') }}",
        "trans_plain": "{% trans %}Hello{% endtrans %}",
        "trans_one_var": "{% trans %}Hello {{ user }}{% endtrans %}",
        "trans_vars3": "{% trans %}{{ a }} {{ b }} {{ c }}{% endtrans %}",
        "trans_declared": "{% trans a=x, b=y, c=z %}{{ a }} {{ b }} {{ c }}{% endtrans %}",
        "trans_plural": "{% trans count=n %}{{ count }} item{% pluralize %}{{ count }} items{% endtrans %}",
        "trans_plural_vars": "{% trans count=n %}{{ count }} {{ p }} {{ q }} {{ r }}{% pluralize %}{{ count }} {{ s }} {{ t }} {{ u }}{% endtrans %}",
        "trans_trimmed_ctx": "{% trans trimmed %}  a  {{ w }}  b  {% endtrans %}{{ _('x') }}{{ gettext('y') }}{{ ngettext('a', 'b', 2) }}",
        "loops_nested_vars": "{% for a in xs %}{% for b in a %}{% for c in b %}{{ a }}{{ b }}{{ c }}{{ loop.index }}{% set z1, z2, z3 = a, b, c %}{% endfor %}{% endfor %}{% endfor %}",
        "blocks_many": "{% block z9 %}{% endblock %}{% block a9 %}{% endblock %}{% block m9 %}{% endblock %}{% block b9 %}{% endblock %}{% block y9 %}{% endblock %}",
        "toplevel_mix": "{% set t1 = 1 %}{% macro t2() %}{% endmacro %}{% import 'lib' as t3 %}{% from 'lib' import t4, t5 %}{% set t6, t7 = 1, 2 %}{% block t8 %}{% endblock %}",
        "raw_and_comments": "{% raw %}{{ x }}{% endraw %}{# c #}a\n  b\n{%- if x -%} c {%- endif -%}",
        "overlay": "{% set a = 1 %}{% if a %}{% set a = 2 %}{% set b = 3 %}{% set c = 4 %}{% endif %}{% for a in xs %}{% set b = a %}{% endfor %}{{ a }}{{ b }}{{ c }}",
        # compile-time folding of values whose text is not the same in every process (custom filters of the seed script)
        "fold_generator": "{{ [1, 2]|unique }}{{ [3, 1]|unique|list }}",
        "fold_set": "{{ 'x'|mkset }}",
        "fold_frozenset_nested": "{{ 'x'|mknested }}",
        "fold_object": "{{ 'x'|mkobj }}",
        "fold_set_assigned": "{% set s = 'x'|mkset %}{{ s }}{% set t = ['x'|mkset, 1] %}{{ t }}",
        "fold_set_argument": "{{ f('x'|mkset, k='y'|mkobj) }}{{ 'x'|mkset|length }}{{ ('x'|mkset)|sort|join(',') }}",
        # nested folds: an un-representable intermediate value turned into a str by the next fold
        "fold_nested_string": "{{ [1, 2]|batch(1)|string }}{{ [1]|unique|string|upper }}",
        "fold_nested_concat": "{{ ''.join ~ 'x' }}{{ [1]|map('string') ~ '' }}",
        "fold_nested_format": "{{ '%s'|format([1]|unique) }}{{ {'a': ''.join}|pprint }}",
        "fold_nested_assign": "{% set v = [[1]|batch(1)]|join %}{{ v }}",
        "fold_nested_getitem": "{{ ''['join']|string }}{{ ([1]|batch(1)).__class__|string }}",
        # compiled through the Template constructor with two equal-priority extensions given by import name (see the seed script)
        "template_ctor_extensions": "x @@ y",
        "syntax_error_eof": "{% for a in xs %}{% if a %}{% block b %}",
        "syntax_error_tag": "{% for a in xs %}{% endif %}",
        "unknown_tag": "{% for a in xs %}{% if a %}{% frobnicate %}{% endif %}{% endfor %}",
    }
    return c


_SEED_SCRIPT = r"""
import sys, json, hashlib
from jinja2 import Environment
_corpus = json.loads(sys.stdin.read())
corpus = lambda: _corpus
out = {}
want_src = set(sys.argv[1:])
import types
from jinja2 import Template
from jinja2.ext import Extension
_m = types.ModuleType("c30_exts")
class First(Extension):
    def preprocess(self, source, name, filename=None):
        return source.replace("@@", "{{ first }}")
class Second(Extension):
    def preprocess(self, source, name, filename=None):
        return source.replace("@@", "{{ second }}")
for _c in (First, Second):
    _c.__module__ = "c30_exts"
    setattr(_m, _c.__name__, _c)
sys.modules["c30_exts"] = _m
try:
    _t = Template(_corpus["template_ctor_extensions"], extensions=["c30_exts.First", "c30_exts.Second"])
    _code = _t.environment.compile(_corpus["template_ctor_extensions"], "ctor", "ctor.html", raw=True)
except Exception as ex:
    _code = "EXC " + type(ex).__name__ + ": " + str(ex)
out["template_ctor_extensions/ctor"] = _code if "template_ctor_extensions" in want_src else hashlib.sha1(_code.encode()).hexdigest()
for is_async in (False, True):
    env = Environment(enable_async=is_async, extensions=["jinja2.ext.i18n", "jinja2.ext.do", "jinja2.ext.loopcontrols", "jinja2.ext.debug"])
    env.filters["mkset"] = lambda v: {"alpha", "beta", "gamma", "delta", "epsilon", "zeta"}
    env.filters["mknested"] = lambda v: [v, {"k": frozenset(["p", "q", "r", "s", "t", "u"])}]
    env.filters["mkobj"] = lambda v: object()
    for name, src in corpus().items():
        try:
            code = env.compile(src, name, name + ".html", raw=True)
        except Exception as ex:
            code = "EXC " + type(ex).__name__ + ": " + str(ex)
        key = name + ("/async" if is_async else "/sync")
        out[key] = code if name in want_src else hashlib.sha1(code.encode()).hexdigest()
print(json.dumps(out))
"""


def compile_under_seeds(seeds, full_sources=()):
    """-> {seed: {template/mode: sha1 or source}} compiled in fresh interpreters"""
    root = os.path.dirname(os.path.dirname(os.path.abspath(__file__)))
    procs = []
    for sd in seeds:
        env = dict(os.environ)
        env["PYTHONHASHSEED"] = str(sd)
        env["PYTHONPATH"] = os.pathsep.join([root] + [p for p in sys.path if p and "jinja" not in os.path.basename(p)] + [env.get("PYTHONPATH", "")])
        # the jinja2 under check is the one this process imported
        import jinja2
        src_root = os.path.dirname(os.path.dirname(os.path.abspath(jinja2.__file__)))
        env["PYTHONPATH"] = os.pathsep.join([root, src_root])
        procs.append((sd, subprocess.Popen([sys.executable, "-c", _SEED_SCRIPT] + list(full_sources), stdin=subprocess.PIPE, stdout=subprocess.PIPE,
                                           stderr=subprocess.PIPE, text=True, env=env)))
    out = {}
    payload = json.dumps(corpus())
    for sd, p in procs:
        so, se = p.communicate(payload, timeout=300)
        if p.returncode != 0:
            raise RuntimeError(f"seed {sd}: {se[-500:]}")
        out[sd] = json.loads(so.strip().splitlines()[-1])
    return out


def differing(results):
    keys = sorted(next(iter(results.values())))
    bad = {}
    for k in keys:
        vals = {sd: r[k] for sd, r in results.items()}
        if len(set(vals.values())) > 1:
            bad[k] = vals
    return bad


def replay_seeds(w=None):
    """compile the corpus (or the witness template) under 6 hash seeds in subprocesses and compare the sources"""
    seeds = (0, 1, 2, 3, 4, 5)
    res = compile_under_seeds(seeds)
    bad = differing(res)
    only = (w or {}).get("templates")
    if only:
        bad = {k: v for k, v in bad.items() if k.split("/")[0] in only}
    if not bad:
        return (False, f"{len(next(iter(res.values())))} compilations identical under PYTHONHASHSEED {seeds}")
    k = sorted(bad)[0]
    return (True, f"{len(bad)} compilations differ between hash seeds, e.g. template {k!r} ({corpus()[k.split('/')[0]]!r}): "
                  f"{len(set(bad[k].values()))} different sources under seeds {seeds}; all: {sorted(bad)[:8]}")


def hashseed_standin(task, tier, seed):
    t0 = time.time()
    seeds = tuple(range(8)) if tier == "quick" else tuple(range(16))
    c = corpus()
    task.bound_text = (f"{len(c)} templates (every statement kind, tuple unpacking, branch stores, imports, macros with special parameters, many "
                       f"filters and tests, trans blocks, syntax errors) x {{sync, async}} compiled with the i18n/do/loopcontrols/debug extensions in "
                       f"{len(seeds)} subprocesses with PYTHONHASHSEED={seeds[0]}..{seeds[-1]}; oracle: identical generated source (or identical error text)")
    res = compile_under_seeds(seeds)
    bad = differing(res)
    rs = []
    for name in c:
        ks = [k for k in bad if k.split("/")[0] == name]
        if ks:
            rs.append(Res(f"C30.native.hashseed.{name}", "refuted", "native", 0,
                          f"template {c[name]!r}: {len(set(bad[ks[0]].values()))} different generated sources under {len(seeds)} hash seeds ({', '.join(ks)})",
                          "bounded", witness={"templates": [name]}))
        else:
            rs.append(Res(f"C30.native.hashseed.{name}", "bounded-ok", "native", 0, "identical under all seeds", "bounded"))
    task.stats = {"compilations": len(c) * 2 * len(seeds), "seconds": round(time.time() - t0, 2)}
    return rs


# ------------------------------------------------------------------------------------------ the analysis obligations

ORIGIN = re.compile(r"in ([^`]+)` over")


def finding_origin(f):
    m = ORIGIN.search(f.msg)
    if m is None:
        m = re.search(r"passed to `([\w.]+)` as `(\w+)`", f.msg)
        return f"{m.group(1)}:{m.group(2)}" if m else "?"
    return m.group(1).strip()


def analysis_res(qual, name):
    t0 = time.time()
    try:
        a = T.analyze(qual, existing_key_lemma=LEMMAS.get(qual, ()), lookup_only=LOOKUP_ONLY.get(qual, ()))
    except (LookupError, AttributeError) as ex:
        return Res(name, "error", "taint", time.time() - t0, f"cannot analyse {qual}: {ex}", "path"), None
    if a.findings:
        keys = sorted({f"{f.kind}<={finding_origin(f)}" for f in a.findings})
        detail = f"{qual}: " + " | ".join(f"line {f.lineno}: {f.msg}" for f in a.findings[:3]) + f" [key:{';'.join(keys)}]"
        return Res(name, "refuted", "order-taint", time.time() - t0, detail[:1500], "path",
                   witness={"function": qual, "findings": [repr(f)[:300] for f in a.findings[:6]]}), a
    extra = f"{a.n_unordered_loops // 2} unordered iteration(s) analysed" if a.n_unordered_loops else "no unordered iteration"
    if a.used_lemmas:
        extra += f"; uses lemma existing-key for {sorted(a.used_lemmas)}"
    return Res(name, "discharged", "order-taint", time.time() - t0, extra, "path"), a


def short(qual):
    return qual.split(":")[1]


def fuc_task(qual):
    def fn(task, tier, seed):
        r, a = analysis_res(qual, f"C30.{short(qual)}.ordered")
        rs = [r]
        need = LEMMAS.get(qual, set())
        if a is not None and need and not a.findings and set(a.used_lemmas) != set(need):
            rs.append(Res(f"C30.{short(qual)}.lemma_used", "error", "order-taint", 0, f"lemmas {sorted(need)} listed but {sorted(a.used_lemmas)} used", "path"))
        return rs
    t = FnTask("C30", f"C30.{short(qual)}.ordered", fn, "path", replay_seeds)
    t.finding_key = finding_key
    return t


def finding_key(res):
    m = re.search(r"\[key:([^\]]*)\]", res.detail or "")
    return m.group(1) if m else "?"


def extras(task, tier, seed):
    rs = []
    for q in extra_targets():
        r, _ = analysis_res(q, f"C30.extra.{short(q)}.ordered")
        if r.status == "error":
            r.status = "unknown"
        rs.append(r)
    return rs


# ------------------------------------------------------------------------------------------ lemmas on Symbols

STR = z3.StringSort()
OBJ = KIND_SORT["obj"]
NAMES = z3.ArraySort(OBJ, z3.BoolSort())   # sets of template names: names are abstract atoms (only equality matters)
IDENTS = z3.ArraySort(STR, z3.BoolSort())  # sets of generated identifiers (strings built by the real f-string)
MAP = z3.ArraySort(OBJ, STR)


def mk_symbols(st, tag, parent=None, level=None):
    refs = st.alloc(HDict(dom=z3.Const(f"{tag}.refs.dom", NAMES), val=z3.Const(f"{tag}.refs.val", MAP), size=z3.Int(f"{tag}.refs.n"), kk="obj", vk="str"), initial=True)
    loads = st.alloc(HDict(dom=z3.Const(f"{tag}.loads.dom", IDENTS), val=z3.Const(f"{tag}.loads.val", z3.ArraySort(STR, OBJ)),
                           size=z3.Int(f"{tag}.loads.n"), kk="str", vk="obj"), initial=True)
    stores = st.alloc(HSet(dom=z3.Const(f"{tag}.stores.dom", NAMES), size=z3.Int(f"{tag}.stores.n"), kk="obj"), initial=True)
    o = A.obj(st, IDT.Symbols, tag, fields={"level": level if level is not None else sym("level", "int"), "parent": parent, "refs": refs, "loads": loads, "stores": stores})
    return o, refs, loads, stores


F_NORM = z3.Function("unicodedata.normalize.NFKC", OBJ, OBJ)
F_ENC = z3.Function("str.encode", OBJ, OBJ)
F_HEX = z3.Function("bytes.hex", OBJ, STR)


def ident_term(level, name_t):
    """the identifier _define_ref builds - the term the interpreter produces for the real code: f"l_{level}_{name}", or, for a
    name that changes under NFKC normalisation, f"l_{level}_0{name.encode().hex()}" (normalize / encode / hex uninterpreted)"""
    from pyvc import models
    lv = models.py_str_int(level.t) if isinstance(level, Sym) else z3.StringVal(str(level))
    plain = z3.Concat(z3.StringVal("l_"), lv, z3.StringVal("_"), models.py_str_obj(name_t))
    spelled = z3.Concat(z3.StringVal("l_"), lv, z3.StringVal("_0"), F_HEX(F_ENC(name_t)))
    return z3.If(F_NORM(name_t) != name_t, spelled, plain)


def name_specs(I):
    """dependency specs for the operations _define_ref applies to a (symbolic, atom-valued) name"""
    import unicodedata
    from pyvc.values import BoundMethod
    from pyvc.smt import to_term

    def normalize(I_, st, args, kwargs, node):
        if args[0] != "NFKC":
            raise Unsupported("normalize with another form", node)
        return [(st, Sym(F_NORM(to_term(args[1], "obj")), "obj"))]

    I.specs[("fn", id(unicodedata.normalize))] = normalize
    base_ga = I.specs.get("getattr_obj")

    def getattr_obj(I_, st, args, kwargs, node):
        if args[1] in ("encode", "hex"):
            return [(st, BoundMethod(args[0], args[1]))]
        return base_ga(I_, st, args, kwargs, node) if base_ga is not None else None

    I.specs["getattr_obj"] = getattr_obj
    base_m = I.specs.get("method_obj")

    def method_obj(I_, st, args, kwargs, node):
        o, name = args[0], args[1]
        if name == "encode" and len(args) == 2:
            return [(st, Sym(F_ENC(o.t), "obj"))]
        if name == "hex" and len(args) == 2:
            return [(st, Sym(F_HEX(o.t), "str"))]
        return base_m(I_, st, args, kwargs, node) if base_m is not None else None

    I.specs["method_obj"] = method_obj


def inv_terms(st, refs, loads, stores, level):
    n = z3.Const(fresh_name("n"), OBJ)
    r, l, s = st.get(refs), st.get(loads), st.get(stores)
    return [z3.ForAll([n], z3.Implies(z3.Select(s.dom, n), z3.Select(r.dom, n))),
            z3.ForAll([n], z3.Implies(z3.Select(r.dom, n), z3.Select(l.dom, z3.Select(r.val, n)))),
            z3.ForAll([n], z3.Implies(z3.Select(r.dom, n), z3.Select(r.val, n) == ident_term(level, n)))]


def set_specs(I):
    def set_update(I_, s, args, kwargs, node):
        h = s.get(args[0])
        src = args[1]
        if not (isinstance(src, Ref) and isinstance(s.get(src), HSet) and s.get(src).items is None):
            return None
        hs = s.get(src)
        if h.items is not None:
            if h.items:
                return None
            h.items, h.dom, h.size, h.kk = None, z3.K(OBJ, z3.BoolVal(False)), z3.IntVal(0), "obj"
        nd = z3.Const(fresh_name("set_upd"), NAMES)
        k = z3.Const(fresh_name("k"), OBJ)
        s.assume(z3.ForAll([k], z3.Select(nd, k) == z3.Or(z3.Select(h.dom, k), z3.Select(hs.dom, k))))
        h.dom, h.size = nd, z3.Int(fresh_name("set_n"))
        return [(s, None)]

    def set_diff(I_, s, args, kwargs, node):
        h = s.get(args[0])
        src = args[1]
        if not (isinstance(src, Ref) and isinstance(s.get(src), HSet) and s.get(src).items is None) or h.items is not None:
            return None
        hs = s.get(src)
        nd = z3.Const(fresh_name("set_diff"), NAMES)
        k = z3.Const(fresh_name("k"), OBJ)
        s.assume(z3.ForAll([k], z3.Select(nd, k) == z3.And(z3.Select(h.dom, k), z3.Not(z3.Select(hs.dom, k)))))
        h.dom, h.size = nd, z3.Int(fresh_name("set_n"))
        return [(s, None)]

    I.specs["set.update"] = set_update
    I.specs["set.difference_update"] = set_diff


def branch_update_lemma(task, tier, seed):
    """real Symbols.branch_update, two generic branches (copies at the same level, same parent), with / without a parent"""
    from pyvc.engine import Interp
    rs = []
    timeout = 20000 if tier == "quick" else 60000
    for with_parent in (False, True):
        tag = "parent" if with_parent else "noparent"
        t0 = time.time()
        I = Interp()
        I.inline.add("jinja2.idtracking:Symbols.find_ref")
        set_specs(I)
        name_specs(I)
        st = State()
        level = sym("level", "int")
        parent = None
        if with_parent:
            parent, *_ = mk_symbols(st, "parent", level=sym("parent_level", "int"))
        selfo, refs, loads, stores = mk_symbols(st, "self", parent, level)
        branches = []
        hyps = []  # the invariant of self and of every branch: hypotheses of every obligation (not needed to run the body)
        for i in range(2):
            b, br, bl, bs = mk_symbols(st, f"b{i}", parent, level)
            branches.append(b)
            hyps += inv_terms(st, br, bl, bs, level)
        hyps += inv_terms(st, refs, loads, stores, level)
        obligations = []
        seen_loop = []

        def for_abstract(I_, n, s, fr, itv):
            if not (isinstance(itv, Ref) and isinstance(s.heap.get(itv.id), HSet) and s.get(itv).items is None):
                return None
            seen_loop.append(n.lineno)
            hs = s.get(itv)
            D0 = s.get(loads).dom
            R0d, R0v = s.get(refs).dom, s.get(refs).val
            body = s.fork()
            body.get(loads).val = z3.Const(fresh_name("loads_val_havoc"), body.get(loads).val.sort())
            name = fresh("name", "obj")
            body.assume(z3.Select(hs.dom, name.t))
            n_trace = len(body.trace)
            outs = []
            for s2, r in I_.assign(n.target, name, body, fr):
                for s3, c in I_.exec_block(n.body, s2, fr):
                    if c.kind in ("ok", "continue"):
                        writes = [e for e in s3.trace[n_trace:] if e.kind == "write" and e.name == "dict.__setitem__" and e.args[0] == loads]
                        other = [e for e in s3.trace[n_trace:] if e.kind == "write" and e.args and e.args[0] != loads]
                        same_refs = s3.get(refs).dom.eq(R0d) and s3.get(refs).val.eq(R0v)
                        obligations.append(("refs_untouched", list(s3.pc), z3.BoolVal(bool(same_refs and not other)), n.lineno))
                        if len(writes) != 1:
                            obligations.append(("one_store_per_element", list(s3.pc), z3.BoolVal(False), n.lineno))
                        for wr in writes:
                            key = wr.args[1]
                            # the key is already a key of loads at loop entry (the dict order is untouched) ...
                            obligations.append(("existing_key", list(s3.pc), z3.Select(D0, key.t), n.lineno))
                            # ... and it is the identifier of this very element (distinct elements write distinct keys)
                            obligations.append(("key_is_own_identifier", list(s3.pc), key.t == ident_term(level, name.t), n.lineno))
                    elif c.kind == "raise":
                        # `assert target is not None`: deterministic failure, no store happens on this path
                        pass
                    else:
                        raise Unsupported("break / return inside the set loop", n)
            after = s.fork()
            after.get(loads).val = z3.Const(fresh_name("loads_val_after"), after.get(loads).val.sort())
            # after the loop every key of loads is still a key; values of the touched keys are functions of their own name
            outs.append((after, OK))
            return outs

        I.specs["for_abstract"] = for_abstract
        clo = I.closure_of_function(extract.resolve("jinja2.idtracking:Symbols.branch_update"))
        bl_ = st.alloc(HList(items=branches), initial=True)
        try:
            res = I.call_closure(st, clo, [selfo, bl_], {})
        except Unsupported as ex:
            rs.append(Res(f"C30.lemma.branch_update.{tag}.engine", "unknown", "pyvc", time.time() - t0, f"unsupported: {ex}", "vc"))
            continue
        if not seen_loop:
            rs.append(Res(f"C30.lemma.branch_update.{tag}.set_loop_found", "refuted", "pyvc", 0, "branch_update has no loop over a symbolic set any more", "vc",
                          witness={"function": "Symbols.branch_update"}))
        # the invariant is re-established for self (so that the lemma composes)
        for s, v in res:
            if isinstance(v, Raised):
                continue
            for j, t in enumerate(inv_terms(s, refs, loads, stores, level)):
                if j == 1:
                    continue  # loads values were havoced by the cut; key sets are what matters: checked through dom below
                obligations.append((f"inv_restored[{j}]", list(s.pc), t, 0))
            n_ = z3.Const(fresh_name("n"), OBJ)
            r_, l_ = s.get(refs), s.get(loads)
            obligations.append(("inv_restored[1]", list(s.pc), z3.ForAll([n_], z3.Implies(z3.Select(r_.dom, n_), z3.Select(l_.dom, z3.Select(r_.val, n_)))), 0))
        by = {}
        for nm, pc, cond, ln in obligations:
            r = check_sat(hyps + pc + [z3.Not(cond)], timeout, seed)
            if r.status == "unsat":
                st_ = "discharged"
            elif r.status == "sat":
                # a raise path / false obligation is a refutation only if its path is feasible
                st_ = "refuted"
            else:
                st_ = "unknown"
            by.setdefault(nm, []).append((st_, r))
        for nm, lst in by.items():
            sts = {x for x, _ in lst}
            status = "refuted" if "refuted" in sts else ("unknown" if "unknown" in sts else "discharged")
            rr = lst[0][1]
            rs.append(Res(f"C30.lemma.branch_update.{tag}.{nm}", status, rr.backend, sum(x.seconds for _, x in lst),
                          f"{len(lst)} path(s)" if status == "discharged" else f"{status}: a store in the set loop may hit a new key / another identifier",
                          "vc", witness={"function": "Symbols.branch_update", "lemma": nm} if status == "refuted" else None))
        # non-vacuity: the loop body is reachable
        reach = [pc for nm, pc, cond, ln in obligations if nm == "existing_key"]
        if not reach or check_sat(hyps + reach[0], 1500, seed, use_cvc5=False).status == "unsat":
            rs.append(Res(f"C30.lemma.branch_update.{tag}.nonvacuous", "error", "z3", 0, "set loop body unreachable under the assumed invariant", "vc"))
    return rs


def symbols_inv(method):
    """the invariant is preserved by the Symbols mutators (so every branch copy satisfies it)"""
    def fn(task, tier, seed):
        from pyvc.engine import Interp
        rs = []
        timeout = 20000
        for with_parent in (False, True):
            t0 = time.time()
            tag = "parent" if with_parent else "noparent"
            I = Interp()
            I.inline.add("jinja2.idtracking:Symbols._define_ref")
            I.inline.add("jinja2.idtracking:Symbols.find_ref")
            set_specs(I)
            name_specs(I)
            st = State()
            level = sym("level", "int")
            parent = None
            if with_parent:
                parent, *_ = mk_symbols(st, "parent", level=sym("parent_level", "int"))
            selfo, refs, loads, stores = mk_symbols(st, "self", parent, level)
            hyps = inv_terms(st, refs, loads, stores, level)
            name = sym("name", "obj")
            args = [selfo, name]
            if method == "_define_ref":
                args = [selfo, name, (sym("action", "str"), sym("param", "obj"))]
            clo = I.closure_of_function(extract.resolve(f"jinja2.idtracking:Symbols.{method}"))
            try:
                res = I.call_closure(st, clo, args, {})
            except Unsupported as ex:
                rs.append(Res(f"C30.lemma.symbols_inv.{method}.{tag}.engine", "unknown", "pyvc", time.time() - t0, f"unsupported: {ex}", "vc"))
                continue
            status, secs, bad = "discharged", 0.0, ""
            n_paths = 0
            for s, v in res:
                if isinstance(v, Raised):
                    continue
                n_paths += 1
                for j, t in enumerate(inv_terms(s, refs, loads, stores, level)):
                    r = check_sat(hyps + list(s.pc) + [z3.Not(t)], timeout, seed)
                    secs += r.seconds
                    if r.status == "sat":
                        status, bad = "refuted", f"invariant clause {j} broken"
                    elif r.status != "unsat" and status != "refuted":
                        status, bad = "unknown", f"clause {j}: {r.reason}"
            if n_paths == 0:
                status, bad = "error", "no returning path"
            rs.append(Res(f"C30.lemma.symbols_inv.{method}.{tag}", status, "z3", secs, bad or f"{n_paths} path(s)", "vc",
                          witness={"function": f"Symbols.{method}"} if status == "refuted" else None))
        return rs
    return fn


LEMMA_FUNCS = {}


def _lemma_entry(name, tier, seed, offset):
    for _ in range(offset):
        fresh_name("offset")
    fn = LEMMA_FUNCS[name]
    return fn(FnTask("C30", name, None), tier, seed)


def hard_timeout(name, seconds=60, attempts=2):
    """z3 does not always honour its own timeout on quantified string/array goals: the lemma runs in a child
    process that is killed after `seconds`; it is retried with shifted fresh-name counters (another search order);
    if every attempt is killed the obligation is reported undecided, never discharged"""
    def fn(task, tier, seed):
        root = os.path.dirname(os.path.dirname(os.path.abspath(__file__)))
        import jinja2
        src_root = os.path.dirname(os.path.dirname(os.path.abspath(jinja2.__file__)))
        env = dict(os.environ)
        env["PYTHONPATH"] = os.pathsep.join([root, src_root])
        code = ("import sys, json; from contracts import c30; "
                "rs = c30._lemma_entry(sys.argv[1], sys.argv[2], int(sys.argv[3]), int(sys.argv[4])); "
                "from pyvc import extract; "
                "print(json.dumps({'results': [r.to_json() for r in rs], 'extracted': list(extract.EXTRACTED.values())}, default=str))")
        last = ""
        for k in range(attempts):
            try:
                p = subprocess.run([sys.executable, "-c", code, name, tier, str(seed), str(k * 211)], capture_output=True, text=True, env=env, timeout=seconds)
            except subprocess.TimeoutExpired:
                last = f"attempt {k + 1}: solver did not return within {seconds}s (killed)"
                continue
            if p.returncode != 0:
                last = p.stderr[-600:]
                continue
            data = json.loads(p.stdout.strip().splitlines()[-1])
            for e in data["extracted"]:
                extract.EXTRACTED.setdefault(e["qualname"], e)
            out = []
            for j in data["results"]:
                out.append(Res(j["name"], j["status"], j.get("backend", ""), j.get("seconds", 0.0), j.get("detail", ""), j.get("kind", "vc"), j.get("witness")))
            return out
        return [Res(f"{name}.solver", "unknown", "z3", 0, last, "vc")]
    return fn


def symbols_tables(task, tier, seed):
    rs = []
    import importlib
    fails = []
    for modname in ("jinja2.compiler", "jinja2.idtracking", "jinja2.meta", "jinja2.ext", "jinja2.optimizer", "jinja2.parser", "jinja2.nodes", "jinja2.environment"):
        mod = importlib.import_module(modname)
        tree, src, path = extract.module_ast(mod)
        for cls_or_fn in tree.body:
            inside_symbols = isinstance(cls_or_fn, ast.ClassDef) and cls_or_fn.name == "Symbols"
            for n in ast.walk(cls_or_fn):
                tgt = None
                if isinstance(n, (ast.Assign, ast.AugAssign, ast.AnnAssign, ast.Delete)):
                    tgts = n.targets if isinstance(n, (ast.Assign, ast.Delete)) else [n.target]
                    for t in tgts:
                        for s in ast.walk(t):
                            if isinstance(s, ast.Attribute) and s.attr in ("refs", "loads", "stores") and isinstance(s.ctx, (ast.Store, ast.Del)):
                                tgt = s
                            if isinstance(s, ast.Subscript) and isinstance(s.value, ast.Attribute) and s.value.attr in ("refs", "loads", "stores") and isinstance(s.ctx, (ast.Store, ast.Del)):
                                tgt = s
                if isinstance(n, ast.Call) and isinstance(n.func, ast.Attribute) and isinstance(n.func.value, ast.Attribute) \
                        and n.func.value.attr in ("refs", "loads", "stores") and n.func.attr in (T.SET_MUTATORS | T.DICT_MUTATORS | T.LIST_MUTATORS):
                    tgt = n
                if tgt is not None and not inside_symbols:
                    fails.append(f"{modname} line {tgt.lineno}: `{ast.unparse(tgt)[:60]}` mutates symbol tables outside class Symbols")
    rs.append(Res("C30.lemma.symbols_private", "refuted" if fails else "discharged", "ast-scan", 0, "; ".join(fails[:3]), "table",
                  witness={"failures": fails[:5]} if fails else None))
    # Symbols.copy (semantic, on the real method): an equal symbol table whose three containers are new objects with equal
    # content in the same order (branches start as copies, hence satisfy the invariant), everything else shared
    fails = []
    par = IDT.Symbols()
    s0 = IDT.Symbols(parent=par)
    for nm in ("zeta", "alpha", "mid"):
        s0.store(nm)
        s0.load(nm + "_read")
    s0.declare_parameter("p")
    c0 = s0.copy()
    if type(c0) is not type(s0) or c0.parent is not par or c0.level != s0.level:
        fails.append("Symbols.copy does not keep class / parent / level")
    for fld in ("refs", "loads", "stores"):
        a, b = getattr(s0, fld), getattr(c0, fld)
        if a is b:
            fails.append(f"Symbols.copy shares .{fld} with the original")
        elif a != b or (isinstance(a, dict) and list(a) != list(b)):
            fails.append(f"Symbols.copy changes the content / order of .{fld}")
    rs.append(Res("C30.lemma.symbols_inv.copy", "refuted" if fails else "discharged", "native", 0, "; ".join(fails), "table", witness={"failures": fails} if fails else None))
    # lookup-only: Parser.extensions is filled per extension tag (a set) and only ever looked up
    fails = []
    for modname in ("jinja2.parser", "jinja2.ext", "jinja2.environment", "jinja2.compiler", "jinja2.lexer"):
        mod = importlib.import_module(modname)
        tree, src, path = extract.module_ast(mod)
        par = {}
        for n in ast.walk(tree):
            for c in ast.iter_child_nodes(n):
                par[c] = n
        for n in ast.walk(tree):
            if isinstance(n, ast.Attribute) and n.attr == "extensions" and isinstance(n.value, ast.Name) and n.value.id in ("self", "parser") and modname in ("jinja2.parser", "jinja2.ext"):
                p = par.get(n)
                ok = (isinstance(p, ast.Attribute) and p.attr == "get") or (isinstance(p, ast.Subscript) and p.value is n) or \
                     (isinstance(p, ast.Compare)) or (isinstance(p, ast.AnnAssign) and p.target is n) or (isinstance(p, ast.Assign) and n in p.targets)
                if not ok:
                    fails.append(f"{modname} line {n.lineno}: parser.extensions used in `{ast.unparse(p)[:60]}` (not a lookup)")
    rs.append(Res("C30.lemma.lookup_only.Parser.extensions", "refuted" if fails else "discharged", "ast-scan", 0, "; ".join(fails[:3]), "table",
                  witness={"failures": fails[:5]} if fails else None))
    from contracts.emit_template import soften
    return soften(rs, replay_seeds, only=lambda r: "symbols_inv.copy" not in r.name)


# ------------------------------------------------------------------------------------------ text of compile-time values

ALLOWED_CONST_TYPES = {"float", "complex", "int", "bool", "range", "str", "Markup", "tuple", "list", "dict"}
CONTAINER_TYPES = {"tuple", "list", "dict", "set", "frozenset", "deque"}
SINGLETONS = {"None", "NotImplemented", "Ellipsis"}


def _types_in_test(test):
    """-> (type names compared with type(value), names compared with `value is`), other = anything else in the test"""
    types, singles, other = set(), set(), []
    for n in ([test] if not isinstance(test, ast.BoolOp) else test.values):
        if isinstance(n, ast.Compare) and len(n.ops) == 1:
            l, op, r = n.left, n.ops[0], n.comparators[0]
            is_type_of_value = isinstance(l, ast.Call) and isinstance(l.func, ast.Name) and l.func.id == "type" and len(l.args) == 1 and isinstance(l.args[0], ast.Name)
            if is_type_of_value and isinstance(op, (ast.Is, ast.Eq)) and isinstance(r, (ast.Name, ast.Attribute)):
                types.add(r.id if isinstance(r, ast.Name) else r.attr)
                continue
            if is_type_of_value and isinstance(op, ast.In) and isinstance(r, (ast.Set, ast.Tuple, ast.List)) and all(isinstance(e, (ast.Name, ast.Attribute)) for e in r.elts):
                types.update(e.id if isinstance(e, ast.Name) else e.attr for e in r.elts)
                continue
            if isinstance(l, ast.Name) and isinstance(op, ast.Is) and isinstance(r, (ast.Name, ast.Constant)):
                singles.add(r.id if isinstance(r, ast.Name) else repr(r.value))
                continue
        other.append(ast.unparse(n))
    return types, singles, other


def consttext_tables(task, tier, seed):
    """every value whose str()/repr() is written into the generated source has a text that is the same in every process"""
    import jinja2.compiler as C
    import jinja2.nodes as N
    import importlib
    rs = []

    def row(name, fails):
        rs.append(Res(f"C30.consttext.{name}", "refuted" if fails else "discharged", "ast+table", 0, "; ".join(fails[:3])[:900], "table",
                      witness={"failures": fails[:5]} if fails else None))

    # ---- has_safe_repr accepts exact types only, each with a process-independent text; containers recurse into their elements
    fails = []
    node, _ = extract.function_ast(extract.resolve("jinja2.compiler:has_safe_repr"))
    body = [s_ for s_ in node.body if not (isinstance(s_, ast.Expr) and isinstance(s_.value, ast.Constant))]
    arg = node.args.args[0].arg
    for n in ast.walk(node):
        if isinstance(n, ast.Call) and isinstance(n.func, ast.Name) and n.func.id in ("isinstance", "issubclass", "hasattr", "callable"):
            fails.append(f"has_safe_repr line {n.lineno} uses {n.func.id}(): a subclass or arbitrary object can define its own __repr__ (address, hash order)")
    if not (body and isinstance(body[-1], ast.Return) and isinstance(body[-1].value, ast.Constant) and body[-1].value.value is False):
        fails.append("has_safe_repr does not end with `return False` (unknown types must be rejected)")
    for st_ in body[:-1]:
        if not isinstance(st_, ast.If) or st_.orelse:
            fails.append(f"has_safe_repr line {st_.lineno}: unexpected statement `{ast.unparse(st_)[:60]}`")
            continue
        types, singles, other = _types_in_test(st_.test)
        if other:
            fails.append(f"has_safe_repr line {st_.lineno}: accepts values by `{other[0][:60]}` (not an exact-type test)")
        bad = sorted(t for t in types if t not in ALLOWED_CONST_TYPES)
        for t in bad:
            why = "its text is written in hash order, which depends on PYTHONHASHSEED" if t in ("set", "frozenset") else "its text is not known to be the same in every process"
            fails.append(f"has_safe_repr accepts type {t}: {why}")
        if singles - SINGLETONS:
            fails.append(f"has_safe_repr accepts `{arg} is {sorted(singles - SINGLETONS)[0]}`")
        rets = [r for r in ast.walk(st_) if isinstance(r, ast.Return)]
        if types & CONTAINER_TYPES:
            for r in rets:
                txt = ast.unparse(r.value) if r.value is not None else ""
                calls = [c for c in ast.walk(r) if isinstance(c, ast.Call) and isinstance(c.func, ast.Name) and c.func.id == "has_safe_repr"]
                ok = txt.startswith("all(") and calls
                if "dict" in types:
                    ok = ok and len(calls) >= 2 and ".items()" in txt
                if not ok:
                    fails.append(f"has_safe_repr accepts {sorted(types & CONTAINER_TYPES)} without checking every element: `{txt[:80]}`")
    row("has_safe_repr.types", fails)

    # ---- every compile-time value (result of as_const) that reaches the output stream is guarded by has_safe_repr
    fails = []
    sites = 0
    for modname, clsname in (("jinja2.compiler", "CodeGenerator"), ("jinja2.nativetypes", "NativeCodeGenerator")):
        mod = importlib.import_module(modname)
        cls = getattr(mod, clsname)
        for mname, raw in cls.__dict__.items():
            f = raw.__func__ if isinstance(raw, (staticmethod, classmethod)) else raw
            f = inspect.unwrap(f) if callable(f) else f
            if not inspect.isfunction(f):
                continue
            fn, _ = extract.function_ast(f)
            calls = [c for c in ast.walk(fn) if isinstance(c, ast.Call) and isinstance(c.func, ast.Attribute) and c.func.attr == "as_const"]
            if not calls:
                continue
            sites += len(calls)
            params = {a.arg: (ast.unparse(a.annotation) if a.annotation is not None else "") for a in fn.args.args}
            for c in calls:
                recv = ast.unparse(c.func.value)
                # (b) the node is a literal node by the visitor's signature: its value comes from the lexer or from Const.from_untrusted
                if recv in params and params[recv].split(".")[-1] in ("Const", "TemplateData") and mname in ("visit_Const", "visit_TemplateData"):
                    continue
                # find the statement that binds the result
                bound = None
                for st_ in ast.walk(fn):
                    if isinstance(st_, ast.Assign) and st_.value is c and len(st_.targets) == 1 and isinstance(st_.targets[0], ast.Name):
                        bound = (st_, st_.targets[0].id)
                if bound is None:
                    fails.append(f"{clsname}.{mname} line {c.lineno}: the result of as_const is used directly (`{ast.unparse(c)[:50]}`), not guarded by has_safe_repr")
                    continue
                st_, var = bound
                holder = next((h for h in ast.walk(fn) for fld in ("body", "orelse", "finalbody") if isinstance(getattr(h, fld, None), list) and st_ in getattr(h, fld)), None)
                lst = next(getattr(holder, fld) for fld in ("body", "orelse", "finalbody") if isinstance(getattr(holder, fld, None), list) and st_ in getattr(holder, fld))
                rest = lst[lst.index(st_) + 1:]
                # (a) immediately guarded:  if not has_safe_repr(var): raise ...Impossible()
                guarded = False
                if rest and isinstance(rest[0], ast.If):
                    t = rest[0].test
                    if isinstance(t, ast.UnaryOp) and isinstance(t.op, ast.Not) and isinstance(t.operand, ast.Call) and getattr(t.operand.func, "id", "") == "has_safe_repr" \
                            and [ast.unparse(a) for a in t.operand.args] == [var] and len(rest[0].body) == 1 and isinstance(rest[0].body[0], ast.Raise) \
                            and "Impossible" in ast.unparse(rest[0].body[0]):
                        guarded = True
                if guarded:
                    continue
                # (c) the value never reaches the output stream or the returned text
                reaches = False
                for n in ast.walk(fn):
                    if isinstance(n, ast.Call) and isinstance(n.func, ast.Attribute) and n.func.attr in ("write", "writeline", "simple_write") and any(
                            isinstance(x, ast.Name) and x.id == var for a in n.args for x in ast.walk(a)):
                        reaches = True
                    if isinstance(n, ast.Return) and n.value is not None and any(isinstance(x, ast.Name) and x.id == var for x in ast.walk(n.value)):
                        reaches = True
                if reaches:
                    fails.append(f"{clsname}.{mname} line {c.lineno}: `{var} = {ast.unparse(c)[:40]}` reaches the generated source without `if not has_safe_repr({var}): raise Impossible()`: "
                                 "the text of a set / generator / arbitrary object differs between processes")
    if sites < 3:
        fails.append(f"only {sites} as_const sites found in the code generators (expected the output fold, visit_Const, visit_TemplateData)")
    row("fold_guarded", fails)

    # ---- Const nodes are built from lexer tokens (parser / extensions) or through Const.from_untrusted, which is guarded
    fails = []
    fu, _ = extract.function_ast(extract.resolve("jinja2.nodes:Const.from_untrusted"))
    stmts = [s_ for s_ in fu.body if not (isinstance(s_, ast.Expr) and isinstance(s_.value, ast.Constant)) and not isinstance(s_, (ast.Import, ast.ImportFrom))]
    ok = (len(stmts) == 2 and isinstance(stmts[0], ast.If) and ast.unparse(stmts[0].test) == "not has_safe_repr(value)" and isinstance(stmts[0].body[0], ast.Raise)
          and "Impossible" in ast.unparse(stmts[0].body[0]) and isinstance(stmts[1], ast.Return))
    if not ok:
        fails.append(f"Const.from_untrusted is not `if not has_safe_repr(value): raise Impossible()` followed by the construction: {ast.unparse(fu)[-160:]!r}")
    if N.Const.from_untrusted.__func__.__globals__.get("has_safe_repr", C.has_safe_repr) is not C.has_safe_repr:
        fails.append("nodes.Const.from_untrusted uses another has_safe_repr")
    for modname in ("jinja2.optimizer", "jinja2.compiler", "jinja2.nodes", "jinja2.nativetypes", "jinja2.runtime", "jinja2.environment", "jinja2.idtracking", "jinja2.meta", "jinja2.visitor"):
        mod = importlib.import_module(modname)
        tree, src, path = extract.module_ast(mod)
        for n in ast.walk(tree):
            if isinstance(n, ast.Call) and ((isinstance(n.func, ast.Name) and n.func.id == "Const") or (isinstance(n.func, ast.Attribute) and n.func.attr == "Const")):
                fails.append(f"{modname} line {n.lineno}: a Const node is built directly (`{ast.unparse(n)[:60]}`), not through Const.from_untrusted")
    row("const_nodes_guarded", fails)

    # ---- intermediate folds: an as_const that calls into arbitrary Python (a filter / test function, environment.getattr /
    #      getitem / call) may hand back a generator, a bound method, any object; a later fold (|string, ~, |join, |format)
    #      turns its text into an ordinary str constant, which the final guard accepts.  Invariant: every as_const returns
    #      only has_safe_repr values - leaves by construction, containers and Python operators on safe operands by closure,
    #      and every opaque producer through an explicit guard.
    fails = []
    tree, src, path = extract.module_ast(N)
    guards = set()
    for fn in [n for n in tree.body if isinstance(n, ast.FunctionDef) and len(n.args.args) == 1]:
        pname = fn.args.args[0].arg
        stmts = [s_ for s_ in fn.body if not (isinstance(s_, ast.Expr) and isinstance(s_.value, ast.Constant)) and not isinstance(s_, (ast.Import, ast.ImportFrom))]
        if (len(stmts) == 2 and isinstance(stmts[0], ast.If) and ast.unparse(stmts[0].test) == f"not has_safe_repr({pname})" and isinstance(stmts[0].body[0], ast.Raise)
                and "Impossible" in ast.unparse(stmts[0].body[0]) and isinstance(stmts[1], ast.Return) and ast.unparse(stmts[1].value) == pname):
            guards.add(fn.name)
    n_opaque = 0
    for cls in [n for n in tree.body if isinstance(n, ast.ClassDef)]:
        for fn in [n for n in cls.body if isinstance(n, ast.FunctionDef) and n.name == "as_const"]:
            binds = {}
            for st_ in ast.walk(fn):
                if isinstance(st_, ast.Assign) and len(st_.targets) == 1 and isinstance(st_.targets[0], ast.Name):
                    binds.setdefault(st_.targets[0].id, []).append(st_)
            params = {a.arg for a in fn.args.args}

            def opaque(c):
                f = c.func
                if isinstance(f, ast.Attribute) and f.attr in ("getattr", "getitem", "call", "call_binop", "call_unop") and ast.unparse(f.value).endswith("environment"):
                    return f"environment.{f.attr}"
                if isinstance(f, ast.Name) and f.id in binds and f.id not in params:
                    vals = [b.value for b in binds[f.id]]
                    # python operators looked up in the module's operator tables: closed over safe operands
                    if all(isinstance(v, ast.Subscript) and isinstance(v.value, ast.Name) and v.value.id.endswith("_to_func") for v in vals):
                        return None
                    return f"{f.id}(...) where {f.id} = {ast.unparse(vals[0])[:40]}"
                return None

            par = {}
            for n in ast.walk(fn):
                for ch in ast.iter_child_nodes(n):
                    par[ch] = n
            for c in [n for n in ast.walk(fn) if isinstance(n, ast.Call)]:
                what = opaque(c)
                if what is None:
                    continue
                n_opaque += 1
                p_ = par.get(c)
                where = f"nodes.{cls.name}.as_const line {c.lineno}"
                if isinstance(p_, ast.Call) and isinstance(p_.func, ast.Name) and p_.func.id in guards and p_.args == [c]:
                    continue
                if not (isinstance(p_, ast.Assign) and len(p_.targets) == 1 and isinstance(p_.targets[0], ast.Name)):
                    fails.append(f"{where}: the result of {what} is returned / used without a has_safe_repr guard: a generator or bound method folded here is "
                                 "turned into an address-bearing str constant by the next fold (|string, ~, |join, |format)")
                    continue
                var = p_.targets[0].id
                inline = [i for i in ast.walk(fn) if isinstance(i, ast.If) and ast.unparse(i.test) == f"not has_safe_repr({var})" and i.lineno > c.lineno
                          and isinstance(i.body[0], ast.Raise) and "Impossible" in ast.unparse(i.body[0])]
                for r in [r for r in ast.walk(fn) if isinstance(r, ast.Return) and r.value is not None and r.lineno > c.lineno
                          and any(isinstance(x, ast.Name) and x.id == var for x in ast.walk(r.value))]:
                    v = r.value
                    ok = isinstance(v, ast.Call) and isinstance(v.func, ast.Name) and v.func.id in guards and [ast.unparse(a) for a in v.args] == [var]
                    ok = ok or any(i.lineno < r.lineno for i in inline)
                    if not ok:
                        fails.append(f"{where}: `{var} = {what}` is returned at line {r.lineno} without a has_safe_repr guard: a generator or bound method folded "
                                     "here is turned into an address-bearing str constant by the next fold (|string, ~, |join, |format)")
    if n_opaque < 3:
        fails.append(f"only {n_opaque} opaque fold sites found in nodes.py (expected the filter/test call, getattr, getitem)")
    row("intermediate_folds_guarded", sorted(set(fails)))
    from contracts.emit_template import soften
    return soften(rs, consttext_replay)


_CONSTTEXT_SCRIPT = r"""
import sys, json
from markupsafe import Markup
from jinja2.compiler import has_safe_repr
leaves = {
 "None": lambda: None, "True": lambda: True, "7": lambda: 7, "10**30": lambda: 10**30, "1.5": lambda: 1.5, "-0.0": lambda: -0.0, "1j": lambda: 1j,
 "'txt'": lambda: "txt", "Markup('<b>')": lambda: Markup("<b>"), "range(3)": lambda: range(3), "b'by'": lambda: b"by", "Ellipsis": lambda: Ellipsis,
 "NotImplemented": lambda: NotImplemented, "object()": lambda: object(), "lambda": lambda: (lambda: 0), "generator": lambda: (x for x in [1]),
 "instance": lambda: type("T", (), {})(), "set of 6 str": lambda: {"alpha", "beta", "gamma", "delta", "epsilon", "zeta"},
 "frozenset of 7 str": lambda: frozenset("abcdefg"), "empty set": lambda: set(), "set of one": lambda: {"only"}, "dict view": lambda: {"a": 1}.keys(),
 "str subclass": lambda: type("S", (str,), {"__repr__": lambda self: "S@%x" % id(self), "__str__": lambda self: "S@%x" % id(self)})("v"),
 "list subclass": lambda: type("L", (list,), {"__repr__": lambda self: "L@%x" % id(self)})([1]),
 "bound method": lambda: [].append, "type": lambda: int, "module": lambda: sys,
}
wrappers = {"v": lambda v: v, "[v]": lambda v: [v], "(v,)": lambda v: (v,), "{'k': v}": lambda v: {"k": v}, "[[v], 1]": lambda v: [[v], 1], "('s', {'k': (v,)})": lambda v: ("s", {"k": (v,)})}
out = {}
for ln, mk in leaves.items():
    for wn, wrap in wrappers.items():
        v = wrap(mk())
        try:
            acc = bool(has_safe_repr(v))
        except Exception as ex:
            acc = "EXC " + type(ex).__name__
        out[wn.replace("v", ln, 1) if wn != "v" else ln] = [acc, repr(v), str(v)]
    try:
        v = {mk(): 1}
        out["{%s: 1}" % ln] = [bool(has_safe_repr(v)), repr(v), str(v)]
    except TypeError:
        pass
print(json.dumps(out))
"""


def consttext_native(task, tier, seed):
    """the property's own oracle for has_safe_repr: a value it accepts has the same repr()/str() in every process"""
    t0 = time.time()
    root = os.path.dirname(os.path.dirname(os.path.abspath(__file__)))
    import jinja2
    src_root = os.path.dirname(os.path.dirname(os.path.abspath(jinja2.__file__)))
    seeds = (0, 1, 2, 3)
    procs = []
    for sd in seeds:
        env = dict(os.environ)
        env["PYTHONHASHSEED"] = str(sd)
        env["PYTHONPATH"] = os.pathsep.join([root, src_root])
        procs.append(subprocess.Popen([sys.executable, "-c", _CONSTTEXT_SCRIPT], stdout=subprocess.PIPE, stderr=subprocess.PIPE, text=True, env=env))
    results = []
    for p in procs:
        so, se = p.communicate(timeout=120)
        if p.returncode != 0:
            return [Res("C30.consttext.native", "error", "native", time.time() - t0, se[-600:], "bounded")]
        results.append(json.loads(so.strip().splitlines()[-1]))
    bad = []
    for k in results[0]:
        accs = {str(r[k][0]) for r in results}
        if accs != {"True"}:
            continue
        reprs, strs = {r[k][1] for r in results}, {r[k][2] for r in results}
        if len(reprs) > 1 or len(strs) > 1:
            bad.append(f"has_safe_repr accepts {k} but its text differs between processes: {sorted(reprs)[:2]}")
    task.bound_text = (f"{len(results[0])} values (27 leaves: scalars, strings, Markup, range, bytes, sets, frozensets, generators, objects, functions, subclasses with "
                       f"address-dependent repr, x 6 nestings in list / tuple / dict value, and as dict key) evaluated in {len(seeds)} processes with "
                       f"PYTHONHASHSEED={seeds}; oracle: has_safe_repr(v) implies repr(v) and str(v) identical in all processes")
    task.stats = {"values": len(results[0]), "accepted": sum(1 for k in results[0] if results[0][k][0] is True), "seconds": round(time.time() - t0, 2)}
    if bad:
        return [Res("C30.consttext.native", "refuted", "native", time.time() - t0, "; ".join(bad[:3])[:800], "bounded", witness={"values": bad[:6]})]
    return [Res("C30.consttext.native", "bounded-ok", "native", time.time() - t0, f"{task.stats['accepted']} accepted values have process-independent text", "bounded")]


def consttext_replay(w=None):
    rs = consttext_native(FnTask("C30", "C30.consttext.native", None, "bounded"), "quick", 0)
    v1 = rs[0].status == "refuted"
    v2, d2 = replay_seeds({"templates": ["fold_generator", "fold_set", "fold_frozenset_nested", "fold_object", "fold_set_assigned", "fold_set_argument",
                                          "fold_nested_string", "fold_nested_concat", "fold_nested_format", "fold_nested_assign", "fold_nested_getitem"]})
    return (v1 or v2, (rs[0].detail if v1 else "") + (" | " + d2 if v2 else "") or "accepted constants have process-independent text; folding templates compile identically")


# ------------------------------------------------------------------------------------------ typing probe (native, bounded)

_PROBE_SCRIPT = r"""
import sys, json, ast, inspect, textwrap
from contracts import c30, c30_taint as T
from pyvc import extract
observed = {}
def probe(site, value):
    observed.setdefault(site, set()).add(type(value).__name__)
    return value
targets = c30.FUC + c30.extra_targets()
installed = 0
class Tr(ast.NodeTransformer):
    def __init__(self, qual):
        self.qual = qual
    def wrap(self, e):
        site = f"{self.qual}@{e.lineno}:{e.col_offset}"
        return ast.copy_location(ast.Call(func=ast.Name(id="__c30_probe__", ctx=ast.Load()), args=[ast.Constant(site), e], keywords=[]), e)
    def visit_For(self, n):
        self.generic_visit(n)
        n.iter = self.wrap(n.iter)
        return n
    def visit_comprehension(self, n):
        self.generic_visit(n)
        n.iter = self.wrap(n.iter)
        return n
for q in targets:
    try:
        fn = extract.resolve(q)
        if fn.__closure__ or "super()" in inspect.getsource(fn) or inspect.isgeneratorfunction(fn) and False:
            continue
        node, module = extract.function_ast(fn)
        import copy
        node2 = Tr(q).visit(copy.deepcopy(node))
        node2.decorator_list = []
        mod = ast.Module(body=[node2], type_ignores=[])
        ast.fix_missing_locations(mod)
        ns = {}
        g = dict(vars(module)); g["__c30_probe__"] = probe
        exec(compile(mod, f"<probe {q}>", "exec"), g, ns)
        new = ns[node.name]
        new.__defaults__ = fn.__defaults__; new.__kwdefaults__ = fn.__kwdefaults__
        new.__globals__["__c30_probe__"] = probe
        owner = T._owner_class(fn)
        if owner is None:
            continue
        raw = inspect.getattr_static(owner, fn.__name__)
        if isinstance(raw, staticmethod): new = staticmethod(new)
        elif isinstance(raw, classmethod): new = classmethod(new)
        elif hasattr(raw, "__wrapped__"):
            continue
        setattr(owner, fn.__name__, new)
        installed += 1
    except Exception as ex:
        pass
from jinja2 import Environment
for is_async in (False, True):
    env = Environment(enable_async=is_async, extensions=["jinja2.ext.i18n", "jinja2.ext.do", "jinja2.ext.loopcontrols", "jinja2.ext.debug"])
    for name, src in c30.corpus().items():
        try:
            env.compile(src, name, name, raw=True)
        except Exception:
            pass
print(json.dumps({"installed": installed, "observed": {k: sorted(v) for k, v in observed.items()}}))
"""


def typing_probe(task, tier, seed):
    t0 = time.time()
    root = os.path.dirname(os.path.dirname(os.path.abspath(__file__)))
    import jinja2
    src_root = os.path.dirname(os.path.dirname(os.path.abspath(jinja2.__file__)))
    env = dict(os.environ)
    env["PYTHONPATH"] = os.pathsep.join([root, src_root])
    p = subprocess.run([sys.executable, "-c", _PROBE_SCRIPT], capture_output=True, text=True, env=env, timeout=600)
    if p.returncode != 0:
        return [Res("C30.typing.probe", "error", "native", time.time() - t0, p.stderr[-800:], "bounded")]
    data = json.loads(p.stdout.strip().splitlines()[-1])
    observed = data["observed"]
    # static classification of the same sites
    static = {}
    for q in FUC + extra_targets():
        try:
            a = T.analyze(q, existing_key_lemma=LEMMAS.get(q, ()), lookup_only=LOOKUP_ONLY.get(q, ()))
        except Exception:
            continue
        for s in a.sites:
            static.setdefault(f"{q}@{s.lineno}:{s.col}", []).append(s)
    bad = []
    n_sites = 0
    for site, types in observed.items():
        ss = static.get(site)
        if ss is None:
            continue
        n_sites += 1
        unordered_static = any(s.unordered for s in ss)
        saw_set = [t for t in types if t in ("set", "frozenset")]
        if saw_set and not unordered_static:
            bad.append(f"{site} (`{ss[0].text}`) iterates a {saw_set[0]} at run time but the analysis typed it {ss[0].kind!r} (ordered)")
    task.bound_text = (f"iteration sites (for loops and comprehensions) of {data['installed']} instrumented pipeline functions observed while compiling the "
                       f"{len(corpus())}-template corpus (sync and async, 4 extensions); oracle: a site classified ordered by the analysis never sees a set/frozenset")
    task.stats = {"instrumented_functions": data["installed"], "sites_observed": n_sites, "seconds": round(time.time() - t0, 2)}
    if bad:
        return [Res("C30.typing.probe", "refuted", "native", time.time() - t0, "; ".join(bad[:3]), "bounded", witness={"sites": bad[:6]})]
    return [Res("C30.typing.probe", "bounded-ok", "native", time.time() - t0, f"{n_sites} iteration sites observed, none iterates a set the analysis typed as ordered", "bounded")]


def probe_replay(w=None):
    t = FnTask("C30", "C30.typing.probe", typing_probe, "bounded")
    rs = typing_probe(t, "quick", 0)
    return (rs[0].status == "refuted", rs[0].detail)


# ------------------------------------------------------------------------------------------ tasks

LEMMA_FUNCS["C30.lemma.branch_update"] = branch_update_lemma
def _all_symbols_inv(task, tier, seed):
    rs = []
    for m in ("_define_ref", "store", "declare_parameter", "load"):
        rs += symbols_inv(m)(task, tier, seed)
    return rs


LEMMA_FUNCS["C30.lemma.symbols_inv"] = _all_symbols_inv


def _keyed(t, k):
    t.finding_key = k
    return t


def consttext_key(res):
    return ",".join(sorted(set(re.findall(r"(?:nodes|CodeGenerator|NativeCodeGenerator)\.(\w+)\.as_const|has_safe_repr accepts type (\w+)", res.detail or "")) and
                           {a or b for a, b in re.findall(r"(?:nodes)\.(\w+)\.as_const|has_safe_repr accepts type (\w+)", res.detail or "")})) or "?"


def native_key(res):
    return res.name.rsplit(".", 1)[-1]


TASKS = (
    [fuc_task(q) for q in FUC]
    + [_keyed(FnTask("C30", "C30.extra", extras, "path", replay_seeds), finding_key),
       FnTask("C30", "C30.lemma.branch_update", hard_timeout("C30.lemma.branch_update"), "vc", replay_seeds)]
    + [FnTask("C30", "C30.lemma.symbols_inv", hard_timeout("C30.lemma.symbols_inv", seconds=120), "vc", replay_seeds)]
    + [FnTask("C30", "C30.lemma.tables", symbols_tables, "table", replay_seeds),
       _keyed(FnTask("C30", "C30.consttext.tables", consttext_tables, "table", consttext_replay), consttext_key),
       FnTask("C30", "C30.consttext.native", consttext_native, "bounded", consttext_replay),
       FnTask("C30", "C30.typing.probe", typing_probe, "bounded", probe_replay),
       _keyed(FnTask("C30", "C30.native.hashseed", hashseed_standin, "bounded", replay_seeds), native_key)]
)

META = {
    "level": "other",
    "explanation": "Information-flow contract on iteration order, decided by an order-taint abstract interpretation of the real function bodies "
                   "(every function of the DESIGN list, plus every other method of the compile pipeline classes): an effect, a returned value or a "
                   "container reachable from the parameters may depend on the order in which a set is iterated only through sorted() or an "
                   "order-insensitive operation. The one place where a dict is written inside a set loop (Symbols.branch_update) is justified by a VC on "
                   "the real function (symbolic dict/set state, loop cut): under the symbol-table invariant, itself proved preserved by the Symbols "
                   "mutators, each store overwrites an existing key named after its own element. Bounded native cross-checks: hash-seed differential "
                   "compilation of a corpus and a run-time probe of the analyser's typing assumptions.",
    "assumptions": ["assume/guarantee: parameters and attributes of the objects passed in carry the `ordered` tag at entry; every analysed function re-establishes it",
                    "values whose type the live annotations do not reveal are not sets (checked natively on the corpus by C30.typing.probe, bounded)",
                    "id()/address dependent text does not occur (none found; has_safe_repr guards constants)",
                    "Python dicts keep insertion order; str/int hashing is the only seed-dependent order (CPython)",
                    "branch symbol tables are copies at the same level and with the same parent as the table they are merged into (FrameSymbolVisitor)"],
    "trusted_base": ["order-taint analyser contracts/c30_taint.py", "pyvc symbolic interpreter (lemmas)", "python ast", "z3 5.1 / cvc5"],
}
