"""C13  Equivalent syntax configurations render identically.

Proof of mechanism + bounded stand-in:
  C13.rules.order      lexer.compile_rules (real source, symbolic delimiter strings): the start rules come back ordered by delimiter
                       length, longest first, each rule paired with the escape of ITS delimiter (dependency spec of sorted()).
  C13.cache_key        every environment.<attr> read by Lexer.__init__ / compile_rules is a component of get_lexer's key (= C12.cache_key).
  C13.lexer_cache      lexer.get_lexer over an arbitrary state of the LRU cache satisfying "an entry stored under key k is a Lexer built
                       from options k": the returned Lexer is built from the caller's twelve options and the invariant is preserved
                       (LRUCache.get / __setitem__ through their C26 contracts).
  C13.overlay          Environment.overlay: a new object; every attribute not overridden is the original's; overridden ones are the
                       arguments; the original is not written; cache from create_cache / copy_cache; extensions re-bound to the overlay.
  C13.create_cache / C13.copy_cache   fresh empty caches.  C13.lexer_property: Environment.lexer recomputes get_lexer(self), stores nothing.
  C13.template_ctor    table: the arguments of get_spontaneous_environment(...) in Template.__new__ are, position by position, the
                       parameters of Environment.__init__ (loader None, cache_size 0, auto_reload False, bytecode_cache None); defaults agree.
  C13.spontaneous      get_spontaneous_environment: cls(*args) with only `shared` set afterwards.
  C13.config_check     _environment_config_check returns its argument unchanged and rejects only documented misconfigurations.
  C13.balancing_guard  table on the real Lexer.tokeniter: the end tokens deferred while brackets are open include variable_end, block_end
                       and linestatement_end (a tag may be wrapped inside brackets in every form).
  C13.bounded.delims   stand-in: a fixed corpus of generated templates translated into each delimiter family and into line-statement
                       form, rendered interleaved in one process through Environment, Template(...) and overlay chains; outputs agree and
                       previously created environments keep rendering as before.
"""
from __future__ import annotations

import ast
import inspect
import itertools
import random
import time

import z3

from pyvc.contract import VC, Res, FnTask
from pyvc.values import State, Sym, Ref, HObj, HList, HDict, SSeq, Exc, Event, Unsupported, sym, fresh, fresh_name, BoundMethod, Obj
from pyvc.smt import to_term, model_value, host_const
from pyvc.interp import Raised
from pyvc import abstract as A, extract

import jinja2
import jinja2.environment as E
import jinja2.lexer as L
import jinja2.utils as U

PROP = "C13"

# ====================================================================================================
# C13.bounded.delims
# ====================================================================================================

FAMILIES = {
    "default": ("{%", "%}", "{{", "}}", "{#", "#}"),
    "asp": ("<%", "%>", "<%=", "%>", "<!--", "-->"),
    "dollar": ("<?", "?>", "${", "}", "<!--", "-->"),
    "shared": ("{%%", "%%}", "{%%=", "=%%}", "{%%#", "#%%}"),
    "brackets": ("[%", "%]", "[[", "]]", "[#", "#]"),
    "angle": ("<<%", "%>>", "<<", ">>", "<<#", "#>>"),
}
SETTINGS = [  # (trim_blocks, lstrip_blocks, keep_trailing_newline, newline_sequence)
    (False, False, False, "\n"), (True, False, False, "\n"), (False, True, False, "\n"), (True, True, False, "\n"),
    (True, True, True, "\n"), (False, False, True, "\r\n"), (True, False, False, "\r\n"), (False, True, False, "\r"),
]
LINE_PREFIXES = [("#", "##"), ("%", "//")]
CONTEXT = dict(x=1, y=0, name="Nm", seq=[1, 2, 3], d={"k": "v"})
EXPRS = ["x", "name", "seq|length", "x + 1", "'lit'", "name|upper", "seq[0]", "{'a': 7}['a']", "(x, y)|join('-')", "d.k", "seq|join(',')", "x > y"]
WORDS = ["alpha", "beta", "gamma.", "delta,", "eps;", "zeta:", "eta!", "42", "t h e", "no # hash", "5 % off"]


def family_kwargs(fam):
    bs, be, vs, ve, cs, ce = FAMILIES[fam]
    return dict(block_start_string=bs, block_end_string=be, variable_start_string=vs, variable_end_string=ve, comment_start_string=cs, comment_end_string=ce)


def setting_kwargs(setting):
    return dict(trim_blocks=setting[0], lstrip_blocks=setting[1], keep_trailing_newline=setting[2], newline_sequence=setting[3])


class Gen:
    """abstract templates: a list of lines; a line is (indent, kind, payload)
         ("text", [str | ("var", expr) | ("tag", text, left, right) | ("comment", text)])   a data line with inline constructs
         ("tag", text)       a whole-line block tag without whitespace modifiers (can be written as a line statement)
         ("comment", text)   a whole-line comment"""

    def __init__(self, rnd):
        self.rnd = rnd
        self.macros = 0

    def expr(self, in_loop):
        pool = EXPRS + (["loop.index", "i"] if in_loop else [])
        return self.rnd.choice(pool)

    def text_line(self, in_loop):
        r = self.rnd
        segs = []
        for _ in range(r.randint(1, 4)):
            k = r.random()
            if k < 0.5:
                segs.append(r.choice(WORDS))
            elif k < 0.8:
                segs.append(("var", self.expr(in_loop)))
            elif k < 0.9:
                segs.append(("comment", "inline note"))
            else:
                mod = r.choice([("", ""), ("-", ""), ("", "-"), ("-", "-"), ("+", "")])
                segs.append(("tag", "if x", mod[0], mod[1]))
                segs.append(r.choice(WORDS))
                segs.append(("tag", "endif", "", r.choice(["", "-"])))
        if not any(isinstance(s, str) for s in segs):
            segs.insert(0, r.choice(WORDS))
        if not isinstance(segs[-1], str) and segs[-1][0] == "tag" and segs[-1][3] == "-":
            # a right-hand `-` at the end of a line would swallow the line break and the next line would no longer START with its
            # whole-line tag (outside the statement's "whole-line" premise)
            segs.append(r.choice(WORDS))
        return segs

    def body(self, depth, in_loop, indent):
        r = self.rnd
        lines = []
        for _ in range(r.randint(1, 3 if depth else 4)):
            k = r.random()
            ind = indent + r.choice(["", "", "  ", "\t"])
            if k < 0.45 or depth >= 3:
                lines.append((ind, "text", self.text_line(in_loop)))
            elif k < 0.6:
                lines.append((ind, "tag", "if " + r.choice(["x", "y", "x > y", "name == 'Nm'", "seq"])))
                lines += self.body(depth + 1, in_loop, ind)
                if r.random() < 0.4:
                    lines.append((ind, "tag", "else"))
                    lines += self.body(depth + 1, in_loop, ind)
                lines.append((ind, "tag", "endif"))
            elif k < 0.72:
                lines.append((ind, "tag", "for i in " + r.choice(["seq", "[]", "range(2)", "name"])))
                lines += self.body(depth + 1, True, ind)
                if r.random() < 0.3:
                    lines.append((ind, "tag", "else"))
                    lines += self.body(depth + 1, in_loop, ind)
                lines.append((ind, "tag", "endfor"))
            elif k < 0.76:
                lines.append((ind, "tag", "set v%d = %s" % (r.randint(0, 2), self.expr(in_loop))))
            elif k < 0.8:
                # a whole-line tag whose expression is wrapped over 2-3 lines inside open brackets (list, call, dict literal): a line statement
                # continues to the line on which the brackets are balanced again
                pad = ind + "      "
                which = r.randrange(4)
                if which == 0:
                    lines.append((ind, "tag", "for i in [10,\n%s20,\n%s30]" % (pad, pad)))
                    lines += self.body(depth + 1, True, ind)
                    lines.append((ind, "tag", "endfor"))
                elif which == 1:
                    lines.append((ind, "tag", "set v%d = {'a': x,\n%s'b': 2}['b']" % (r.randint(0, 2), pad)))
                elif which == 2:
                    lines.append((ind, "tag", "if (x,\n%sy)|length > 1" % pad))
                    lines += self.body(depth + 1, in_loop, ind)
                    lines.append((ind, "tag", "endif"))
                else:
                    lines.append((ind, "tag", "set v%d = range(1,\n%s3)|list|join(\n%s'+')" % (r.randint(0, 2), pad, pad)))
                    lines.append((ind, "text", ["joined", ("var", "v0 ~ v1 ~ v2")]))
            elif k < 0.86:
                lines.append((ind, "comment", "a whole line note"))
            elif k < 0.92:
                self.macros += 1
                m = "m%d" % self.macros
                lines.append((ind, "tag", "macro %s(a, b=2)" % m))
                lines.append((ind + "  ", "text", ["mac", ("var", "a"), ("var", "b")]))
                lines.append((ind, "tag", "endmacro"))
                lines.append((ind, "text", ["call", ("var", "%s(x)" % m)]))
            elif k < 0.96:
                lines.append((ind, "tag", "filter upper"))
                lines += self.body(depth + 1, in_loop, ind)
                lines.append((ind, "tag", "endfilter"))
            else:
                lines.append((ind, "tag", "raw"))
                lines.append((ind, "text", ["raw text stays"]))
                lines.append((ind, "tag", "endraw"))
        return lines

    def template(self):
        self.macros = 0
        lines = self.body(0, False, "")
        # the first and the last line are data lines (a whole-line tag at the very start / end behaves alike in all forms, but a
        # leading data line also exercises `line_starting`)
        if self.rnd.random() < 0.7:
            lines.insert(0, ("", "text", [self.rnd.choice(WORDS)]))
        if self.rnd.random() < 0.7:
            lines.append(("", "text", [self.rnd.choice(WORDS)]))
        return lines, self.rnd.choice(["", "\n"])


def render_source(tmpl, fam, line_form=None, comment_keeps_newline=True):
    """source text of an abstract template in a delimiter family; with line_form=(stmt prefix, comment prefix) whole-line tags and
    comments are written as line statements / line comments"""
    lines, trailer = tmpl
    bs, be, vs, ve, cs, ce = FAMILIES[fam]
    out = []
    for ind, kind, payload in lines:
        if kind == "tag":
            if line_form and payload not in ("raw", "endraw"):
                out.append(ind + line_form[0] + " " + payload)
            else:
                out.append(ind + bs + " " + payload + " " + be)
        elif kind == "comment":
            if line_form:
                out.append(ind + line_form[1] + " " + payload)
            else:
                out.append(ind + cs + " " + payload + (" +" if comment_keeps_newline else " ") + ce)
        else:
            parts = []
            for seg in payload:
                if isinstance(seg, str):
                    parts.append(seg)
                elif seg[0] == "var":
                    parts.append(vs + " " + seg[1] + " " + ve)
                elif seg[0] == "comment":
                    parts.append(cs + " " + seg[1] + " " + ce)
                else:
                    parts.append(bs + seg[2] + " " + seg[1] + " " + seg[3] + be)
            out.append(ind + " ".join(parts))
    return "\n".join(out) + trailer


CORPUS_SIZE = 400
CORPUS_SEED = 20260921
DELIM_SHARDS = 4


def corpus():
    rnd = random.Random(CORPUS_SEED)
    g = Gen(rnd)
    return [g.template() for _ in range(CORPUS_SIZE)]


def safe_render(make, src):
    try:
        return make(src).render(**CONTEXT)
    except Exception as ex:  # noqa
        return f"<{type(ex).__name__}: {ex}>"


class DelimRun:
    """one interleaved run over a slice of the corpus in this process"""

    def __init__(self):
        self.envs = {}      # (family, setting, line) -> first Environment created for that configuration
        self.probe = {}     # (key, template index) -> first output
        self.problems = []
        self.renders = 0

    def kwargs(self, fam, setting, line=None):
        kw = dict(family_kwargs(fam), **setting_kwargs(setting))
        if line:
            kw.update(line_statement_prefix=line[0], line_comment_prefix=line[1])
        return kw

    def env(self, fam, setting, line=None, fresh_env=False):
        key = (fam, setting, line)
        if fresh_env or key not in self.envs:
            e = jinja2.Environment(**self.kwargs(fam, setting, line))
            if key not in self.envs:
                self.envs[key] = e
            return e
        return self.envs[key]

    def note(self, idx, what, a, b, src_a, src_b):
        if len(self.problems) < 50:
            self.problems.append({"template": idx, "what": what, "detail": f"{what}: outputs differ: {a!r} vs {b!r}; sources {src_a!r} / {src_b!r}"})

    def run_template(self, idx, tmpl, rnd):
        base_env = self.env("default", SETTINGS[0])
        # --- A: delimiter families agree under every setting
        for setting in SETTINGS:
            ref_src = render_source(tmpl, "default")
            ref = safe_render(self.env("default", setting, fresh_env=rnd.random() < 0.2).from_string, ref_src)
            self.renders += 1
            self.probe.setdefault((("default", setting, None), idx), ref)
            for fam in FAMILIES:
                if fam == "default":
                    continue
                src = render_source(tmpl, fam)
                e = self.env(fam, setting, fresh_env=rnd.random() < 0.2)
                got = safe_render(e.from_string, src)
                self.renders += 1
                self.probe.setdefault(((fam, setting, None), idx), got)
                if got != ref:
                    self.note(idx, f"family {fam} vs default under (trim, lstrip, keep_trailing_newline, newline_sequence)={setting}", got, ref, src, ref_src)
                # --- C: Template(...) constructor;  D: overlay of a default environment and of another family's environment
                how = rnd.randrange(4)
                kw = self.kwargs(fam, setting)
                if how == 0:
                    got2 = safe_render(lambda s: jinja2.Template(s, **kw), src)
                    label = "Template(source, **options)"
                elif how == 1:
                    got2 = safe_render(base_env.overlay(**kw).from_string, src)
                    label = "overlay of a default environment"
                elif how == 2:
                    other = self.env(rnd.choice(sorted(FAMILIES)), rnd.choice(SETTINGS))
                    got2 = safe_render(other.overlay(**kw).overlay().from_string, src)
                    label = "overlay chain from a differently configured environment"
                else:
                    got2 = safe_render(e.overlay(cache_size=5).from_string, src)
                    label = "overlay with the same options"
                self.renders += 1
                if got2 != got:
                    self.note(idx, f"{label} vs Environment for family {fam} under {setting}", got2, got, src, src)
        # --- B: line statements / line comments in an environment that trims and left-strips blocks
        for ktn in (False, True):
            setting = (True, True, ktn, "\n")
            ref_src = render_source(tmpl, "default", comment_keeps_newline=True)
            ref = safe_render(self.env("default", setting).from_string, ref_src)
            for line in LINE_PREFIXES:
                src = render_source(tmpl, "default", line_form=line)
                got = safe_render(self.env("default", setting, line).from_string, src)
                self.renders += 2
                self.probe.setdefault((("default", setting, line), idx), got)
                if got != ref:
                    self.note(idx, f"line statements {line} vs block tags under trim_blocks+lstrip_blocks (keep_trailing_newline={ktn})", got, ref, src, ref_src)
                # the same block-tag source must also render alike in the environment that merely HAS line prefixes configured
                got3 = safe_render(self.env("default", setting, line).from_string, ref_src)
                if got3 != ref:
                    self.note(idx, f"block-tag source in an environment with line prefixes {line}", got3, ref, ref_src, ref_src)

    def recheck(self, templates):
        """previously created environments still render as before"""
        for (key, idx), first in self.probe.items():
            fam, setting, line = key
            src = render_source(templates[idx], fam, line_form=line)
            again = safe_render(self.envs[key].from_string, src)
            self.renders += 1
            if again != first:
                self.note(idx, f"first environment created for {key} renders differently at the end of the run", again, first, src, src)


def literal_linecomment_cases():
    """the literal reading of the statement for comments: a whole-line block comment (which trim_blocks removes together with its
    line break) rewritten as a line comment"""
    e_block = jinja2.Environment(trim_blocks=True, lstrip_blocks=True)
    out = []
    for line in LINE_PREFIXES:
        e_line = jinja2.Environment(trim_blocks=True, lstrip_blocks=True, line_statement_prefix=line[0], line_comment_prefix=line[1])
        for a, b in (("a\n{# note #}\nb", f"a\n{line[1]} note\nb"), ("  {# note #}\nb", f"  {line[1]} note\nb")):
            ra, rb = e_block.from_string(a).render(), e_line.from_string(b).render()
            if ra != rb:
                out.append(f"{a!r} renders {ra!r} but {b!r} renders {rb!r}")
    return out


def bounded_delims(shard):
    def run(task, tier, seed):
        t0 = time.time()
        templates = corpus()
        step = 1 if tier != "quick" else 2
        mine = [i for i in range(len(templates)) if i % DELIM_SHARDS == shard][::step]
        rnd = random.Random(CORPUS_SEED + shard)
        r = DelimRun()
        for i in mine:
            r.run_template(i, templates[i], rnd)
        r.recheck(templates)
        out = []
        seen = set()
        for p in r.problems:
            if p["what"].split(" under ")[0] in seen or len(out) >= 3:
                continue
            seen.add(p["what"].split(" under ")[0])
            out.append(Res("C13.bounded.delims", "refuted", "native", time.time() - t0, p["detail"][:1200], "bounded", {"shard": shard, "template": p["template"], "tier": tier}))
        if shard == 0:
            lit = literal_linecomment_cases()
            if lit:
                out.append(Res("C13.bounded.delims.linecomment_literal", "refuted", "native", time.time() - t0, "; ".join(lit[:2]), "bounded", {"literal_linecomment": True}))
        task.stats = {"templates": len(mine), "renders": r.renders, "configurations": len(r.envs)}
        if not [o for o in out if o.name == "C13.bounded.delims"]:
            out.append(Res(f"C13.bounded.delims[{shard}]", "bounded-ok", "native", time.time() - t0,
                           f"{len(mine)} templates, {r.renders} renders over {len(r.envs)} configurations interleaved in one process: all equivalent forms agree; "
                           "first-created environments render as before", "bounded"))
        return out
    return run


def replay_delims(w):
    if w.get("literal_linecomment"):
        lit = literal_linecomment_cases()
        return (bool(lit), "; ".join(lit[:2]) or "line comments and whole-line block comments agree")
    templates = corpus()
    idx = int(w["template"])
    r = DelimRun()
    rnd = random.Random(CORPUS_SEED + int(w.get("shard", 0)))
    # interleave with a few neighbours so that the caches are in a comparable state
    for i in sorted({max(0, idx - 1), idx}):
        r.run_template(i, templates[i], rnd)
    r.recheck(templates)
    bad = [p for p in r.problems if p["template"] == idx] or r.problems
    return (bool(bad), bad[0]["detail"][:1200] if bad else f"template #{idx}: all equivalent forms agree")


def delims_key(res):
    w = res.witness or {}
    return "linecomment-keeps-newline" if w.get("literal_linecomment") else f"template#{w.get('template')}"


# ====================================================================================================
# further native obligations (hunt round): right-strip before a line form, empty comments, shared bytecode cache
# ====================================================================================================


def rstrip_before_line_form_cases():
    """an INDENTED whole-line tag / comment that follows a tag ending with a right-strip modifier, block form vs line form"""
    out = []
    for prev in ("{{ x -}}", "{% if x -%}", "{# c -#}", "{% raw %}r{% endraw -%}"):
        closer = "\n{% endif %}" if prev.startswith("{% if") else ""
        for gap in ("\n", "\n\n"):
            out.append((prev + gap + "  {% set z = 1 %}\nA{{ z }}" + closer, prev + gap + "  # set z = 1\nA{{ z }}" + closer))
            out.append((prev + gap + "    {% for i in [1, 2] %}\n{{ i }}\n    {% endfor %}" + closer, prev + gap + "    # for i in [1, 2]\n{{ i }}\n    # endfor" + closer))
            out.append((prev + gap + "  {# note +#}\nA" + closer, prev + gap + "  ## note\nA" + closer))
    return out


def check_rstrip_before_line_form():
    e_block = jinja2.Environment(trim_blocks=True, lstrip_blocks=True)
    e_line = jinja2.Environment(trim_blocks=True, lstrip_blocks=True, line_statement_prefix="#", line_comment_prefix="##")
    bad = []
    for a, b in rstrip_before_line_form_cases():
        ra, rb = safe_render(e_block.from_string, a), safe_render(e_line.from_string, b)
        if ra != rb:
            bad.append(f"{a!r} renders {ra!r} but its line form {b!r} renders {rb!r}")
    return bad


def check_empty_comments():
    """comments without inner blanks (the empty comment, a one-character comment) in every delimiter family"""
    bad = []
    forms = [["a", ("c", ""), "b"], [("v", "x"), ("c", ""), "\n", ("c", " note "), "tail"], ["a", ("c", "-"), "b"], ["a", ("c", "x"), ("c", ""), ("c", ""), "b"], [("c", ""), ("v", "x")]]
    ref_env = jinja2.Environment()
    for form in forms:
        def src(fam):
            bs, be, vs, ve, cs, ce = FAMILIES[fam]
            return "".join(p if isinstance(p, str) else (vs + " " + p[1] + " " + ve if p[0] == "v" else cs + p[1] + ce) for p in form)
        want = safe_render(ref_env.from_string, src("default"))
        for fam in FAMILIES:
            kw = family_kwargs(fam)
            for how, make in (("Environment", jinja2.Environment(**kw).from_string), ("Template", lambda s_: jinja2.Template(s_, **kw)), ("overlay", jinja2.Environment().overlay(**kw).from_string)):
                got = safe_render(make, src(fam))
                if got != want:
                    bad.append(f"{src(fam)!r} ({fam}, {how}) renders {got!r}; default delimiters {src('default')!r} render {want!r}")
                    break
    return bad


def check_bytecode_cache_overlay():
    """using an overlay (other syntax options) must not change how the base environment renders, also when a bytecode cache is configured"""
    from jinja2.bccache import BytecodeCache

    class MemCache(BytecodeCache):
        def __init__(self):
            self.store = {}

        def load_bytecode(self, bucket):
            if bucket.key in self.store:
                bucket.bytecode_from_string(self.store[bucket.key])

        def dump_bytecode(self, bucket):
            self.store[bucket.key] = bucket.bytecode_to_string()

    bad = []
    source = "{% if true %}\nA\n{% endif %}\n<% if true %>B<% endif %>"
    for kw in (dict(trim_blocks=True), dict(block_start_string="<%", block_end_string="%>"), dict(lstrip_blocks=True, trim_blocks=True)):
        for first in ("overlay", "base"):
            def mk():
                return jinja2.Environment(loader=jinja2.DictLoader({"t.html": source}), bytecode_cache=MemCache())
            alone_base = mk().get_template("t.html").render()
            b0 = mk()
            alone_ov = b0.overlay(**kw).get_template("t.html").render()
            base = mk()
            ov = base.overlay(**kw)
            if first == "overlay":
                r_ov, r_base = ov.get_template("t.html").render(), base.get_template("t.html").render()
            else:
                r_base, r_ov = base.get_template("t.html").render(), ov.get_template("t.html").render()
            if r_base != alone_base or r_ov != alone_ov:
                bad.append(f"overlay({kw}) used {'before' if first == 'overlay' else 'after'} its base with a shared bytecode cache: base renders {r_base!r} (alone {alone_base!r}), "
                           f"overlay renders {r_ov!r} (alone {alone_ov!r})")
    return bad


HUNT_CHECKS = {
    "C13.bounded.rstrip_before_line_form": (check_rstrip_before_line_form, "rstrip-before-indented-line-form"),
    "C13.bounded.empty_comment": (check_empty_comments, "comment-end-delimiter-starts-with-sign"),
    "C13.bounded.bytecode_cache_overlay": (check_bytecode_cache_overlay, "F19:bytecode-cache-key-ignores-configuration"),
}


def hunt_forms(task, tier, seed):
    out = []
    for name, (fn, key) in HUNT_CHECKS.items():
        t0 = time.time()
        bad = fn()
        if bad:
            out.append(Res(name, "refuted", "native", time.time() - t0, "; ".join(bad[:2])[:1200], "bounded", {"check": name, "key": key}))
        else:
            out.append(Res(name, "bounded-ok", "native", time.time() - t0, "all cases of the fixed family agree", "bounded"))
    return out


def replay_hunt_forms(w):
    fn, key = HUNT_CHECKS[w["check"]]
    bad = fn()
    return (bool(bad), "; ".join(bad[:2])[:1200] or "all cases agree")



def bounded_tasks():
    ts = []
    for k in range(DELIM_SHARDS):
        t = FnTask(PROP, f"C13.bounded.delims[{k}]", bounded_delims(k), kind="bounded", replay_fn=replay_delims)
        t.bound_text = (f"fixed corpus of {CORPUS_SIZE} seeded generated templates (shard {k} of {DELIM_SHARDS}; quick tier: every second one): nested if/else, for/else, "
                        "set, macro, filter, raw, whole-line tags wrapped over 2-3 lines inside open brackets, inline tags with -/+ modifiers, comments; translated into 6 delimiter families (default, <% %>/<%= %>, "
                        "<? ?>/${ }, shared-prefix {%% %%}, [% %]/[[ ]], <<% %>>/<< >>) under 8 (trim, lstrip, keep_trailing_newline, newline_sequence) settings, into "
                        "line-statement form (# / ##, % / //) under trim+lstrip, through Environment, Template(...), overlay and overlay chains, interleaved in "
                        "one process (> 50 lexer configurations, so the lexer LRU cache evicts); first-created environments re-rendered at the end")
        t.finding_key = delims_key
        ts.append(t)
    t = FnTask(PROP, "C13.bounded.special_forms", hunt_forms, kind="bounded", replay_fn=replay_hunt_forms)
    t.bound_text = ("fixed families: an indented whole-line tag / comment after a tag ending in -}} / -%} / -#} / endraw -%} (block vs line form, trim+lstrip); comments without "
                    "inner blanks (empty, one character, adjacent) in all 6 delimiter families through Environment / Template / overlay; base + overlay with other syntax "
                    "options sharing a bytecode cache, in both orders")
    t.finding_key = lambda res: (res.witness or {}).get("key", "")
    ts.append(t)
    return ts


# ====================================================================================================
# tables: Template.__new__ -> get_spontaneous_environment, Environment.lexer, cache key
# ====================================================================================================

LEXER_OPTIONS = ("block_start_string", "block_end_string", "variable_start_string", "variable_end_string", "comment_start_string", "comment_end_string",
                 "line_statement_prefix", "line_comment_prefix", "trim_blocks", "lstrip_blocks", "newline_sequence", "keep_trailing_newline")
FIXED_FOR_TEMPLATE = {"loader": None, "cache_size": 0, "auto_reload": False, "bytecode_cache": None}


def tres(name, ok, detail, witness=None, t0=None, undecided=False):
    return Res(name, "discharged" if ok else ("unknown" if undecided else "refuted"), "table", (time.time() - t0) if t0 else 0.0, detail, "table",
               None if ok else (witness or {"table": name}))


def template_ctor(task, tier, seed):
    t0 = time.time()
    out = []
    node, _ = extract.function_ast(E.Template.__new__)
    init_params = [p for p in inspect.signature(E.Environment.__init__).parameters.values()][1:]
    new_params = {p.name: p for p in inspect.signature(E.Template.__new__).parameters.values()}
    cls_name = node.args.args[0].arg
    calls = [n for n in ast.walk(node) if isinstance(n, ast.Call) and isinstance(n.func, ast.Name) and n.func.id == "get_spontaneous_environment"]
    if len(calls) != 1 or calls[0].keywords or any(isinstance(a, ast.Starred) for a in calls[0].args):
        # another shape of the same constructor path: the position-by-position reading is not available, the semantic table decides
        return template_ctor_semantic(t0)
    call = calls[0]
    first = call.args[0]
    ok0 = isinstance(first, ast.Attribute) and first.attr == "environment_class" and isinstance(first.value, ast.Name) and first.value.id == cls_name
    out.append(tres("C13.template_ctor.class", ok0, f"first argument is {ast.unparse(first)} (expected {cls_name}.environment_class)", {"arg": "class"}, t0))
    args = call.args[1:]
    out.append(tres("C13.template_ctor.arity", len(args) == len(init_params), f"{len(args)} environment arguments for the {len(init_params)} parameters of Environment.__init__",
                    {"arg": "arity"}, t0))
    for i, (a, p) in enumerate(zip(args, init_params)):
        txt = ast.unparse(a)
        if p.name in FIXED_FOR_TEMPLATE:
            ok = isinstance(a, ast.Constant) and a.value is FIXED_FOR_TEMPLATE[p.name] or (isinstance(a, ast.Constant) and a.value == FIXED_FOR_TEMPLATE[p.name]
                                                                                             and type(a.value) is type(FIXED_FOR_TEMPLATE[p.name]))
            want = repr(FIXED_FOR_TEMPLATE[p.name])
        elif p.name == "extensions":
            ok = txt in ("extensions", "frozenset(extensions)", "tuple(extensions)") and "extensions" in new_params
            want = "extensions (hashable copy)"
        else:
            ok = isinstance(a, ast.Name) and a.id == p.name and p.name in new_params
            want = p.name
        out.append(tres(f"C13.template_ctor.arg[{i}:{p.name}]", bool(ok), f"position {i} of the environment arguments is `{txt}`, Environment.__init__ takes `{p.name}` there (expected {want})",
                        {"arg": p.name}, t0))
    for p in init_params:
        if p.name in FIXED_FOR_TEMPLATE:
            continue
        q = new_params.get(p.name)
        ok = q is not None and (q.default == p.default and type(q.default) is type(p.default))
        out.append(tres(f"C13.template_ctor.default[{p.name}]", ok, f"Template(...) default {getattr(q, 'default', '<missing>')!r} vs Environment(...) default {p.default!r}",
                        {"arg": p.name, "default": True}, t0))
    # the template is then built by that environment
    rets = [n for n in ast.walk(node) if isinstance(n, ast.Return)]
    ok = len(rets) == 1 and isinstance(rets[0].value, ast.Call) and ast.unparse(rets[0].value.func) == "env.from_string" and \
        ast.unparse(rets[0].value.args[0]) == "source" and {k.arg: ast.unparse(k.value) for k in rets[0].value.keywords} == {"template_class": cls_name}
    out.append(tres("C13.template_ctor.from_string", ok, "returns env.from_string(source, template_class=cls)", {"arg": "from_string"}, t0, undecided=not ok))
    return out + template_ctor_semantic(t0)


ALT = {"block_start_string": "<%", "block_end_string": "%>", "variable_start_string": "${", "variable_end_string": "}$", "comment_start_string": "<#", "comment_end_string": "#>",
       "line_statement_prefix": "%", "line_comment_prefix": "//", "trim_blocks": True, "lstrip_blocks": True, "newline_sequence": "\r\n", "keep_trailing_newline": True,
       "extensions": ("jinja2.ext.do",), "optimized": False, "undefined": jinja2.StrictUndefined, "finalize": str, "autoescape": True, "enable_async": True}


def replay_template_ctor(w):
    """native: Template(source, option=value) must behave like Environment(option=value).from_string(source), one option at a time"""
    import jinja2
    bad = []
    for name, value in ALT.items():
        try:
            t = jinja2.Template("x", **{name: value})
            e = jinja2.Environment(**{name: value})
        except Exception as ex:  # noqa
            bad.append(f"{name}: {type(ex).__name__}: {ex}")
            continue
        for attr in list(LEXER_OPTIONS) + ["optimized", "undefined", "finalize", "autoescape", "is_async"]:
            if getattr(t.environment, attr) != getattr(e, attr):
                bad.append(f"Template('x', {name}={value!r}).environment.{attr} = {getattr(t.environment, attr)!r}, Environment({name}={value!r}).{attr} = {getattr(e, attr)!r}")
        if sorted(t.environment.extensions) != sorted(e.extensions):
            bad.append(f"{name}: extensions differ")
        te = t.environment
        if te.cache is not None or te.loader is not None or te.auto_reload is not False or te.bytecode_cache is not None or te.shared is not True:
            bad.append(f"{name}: spontaneous environment has cache={te.cache!r} loader={te.loader!r} auto_reload={te.auto_reload!r} bytecode_cache={te.bytecode_cache!r} shared={te.shared!r}")
    try:
        d = jinja2.Template("x").environment
        e = jinja2.Environment()
        for attr in LEXER_OPTIONS:
            if getattr(d, attr) != getattr(e, attr):
                bad.append(f"default {attr}: Template -> {getattr(d, attr)!r}, Environment -> {getattr(e, attr)!r}")
    except Exception as ex:  # noqa
        bad.append(f"Template('x'): {type(ex).__name__}: {ex}")
    return (bool(bad), "; ".join(bad[:3]) or "Template(...) and Environment(...) agree option by option")


def lexer_property(task, tier, seed):
    t0 = time.time()
    prop = E.Environment.__dict__.get("lexer")
    ok = isinstance(prop, property) and prop.fset is None
    detail = "Environment.lexer is a read-only property"
    if ok:
        node, _ = extract.function_ast(prop.fget)
        body = [s for s in node.body if not (isinstance(s, ast.Expr) and isinstance(s.value, ast.Constant))]
        self_name = node.args.args[0].arg
        ok = len(body) == 1 and isinstance(body[0], ast.Return) and ast.unparse(body[0].value) == f"get_lexer({self_name})" and prop.fget.__globals__.get("get_lexer") is L.get_lexer
        detail = "Environment.lexer returns get_lexer(self) and stores nothing (recomputed from the attributes at every use)"
    e = jinja2.Environment()
    stored = [k for k in vars(e) if "lexer" in k.lower()]
    out = [tres("C13.lexer_property", bool(ok) and not stored, detail + (f"; instance attributes {stored}" if stored else ""), {"table": "lexer_property"}, t0)]
    uses = []
    for fn in (E.Environment._tokenize, E.Environment.lex, E.Environment.preprocess):
        node, _ = extract.function_ast(fn)
        uses += [n for n in ast.walk(node) if isinstance(n, ast.Attribute) and "lexer" in n.attr and n.attr != "lexer"]
    out.append(tres("C13.lexer_property.no_private_lexer", not uses, "Environment._tokenize / lex use self.lexer only", {"table": "lexer_property"}, t0))
    return out


def replay_lexer_property(w):
    import jinja2
    e = jinja2.Environment()
    o = e.overlay(block_start_string="<%", block_end_string="%>")
    a = o.from_string("<% if 1 %>y<% endif %>").render()
    e.variable_start_string, e.variable_end_string = "${", "}"
    b = e.from_string("${ 1 }").render()
    bad = a != "y" or b != "1"
    return (bad, f"overlay with other block delimiters renders {a!r} (expected 'y'); environment whose delimiters were changed afterwards renders {b!r} (expected '1')")


# ---- semantic forms (decide the obligations whatever the shape of the code)

KEY_VALUES = {  # three pairwise different admissible values per lexer option
    "block_start_string": ("{%", "<%", "[%"), "block_end_string": ("%}", "%>", "%]"), "variable_start_string": ("{{", "${", "[["), "variable_end_string": ("}}", "}$", "]]"),
    "comment_start_string": ("{#", "<#", "[#"), "comment_end_string": ("#}", "#>", "#]"), "line_statement_prefix": (None, "#", "%"), "line_comment_prefix": (None, "##", "//"),
    "trim_blocks": (False, True), "lstrip_blocks": (False, True), "newline_sequence": ("\n", "\r\n", "\r"), "keep_trailing_newline": (False, True),
}


def env_reads(fn, param_index):
    """attributes read as `<environment parameter>.<attr>` in a real function; other uses of the parameter (it escapes)"""
    node, _ = extract.function_ast(fn)
    pname = node.args.args[param_index].arg
    reads, escapes = set(), []
    parents = {}
    for n in ast.walk(node):
        for c in ast.iter_child_nodes(n):
            parents[c] = n
    for n in ast.walk(node):
        if isinstance(n, ast.Name) and n.id == pname and isinstance(n.ctx, ast.Load):
            par = parents.get(n)
            if isinstance(par, ast.Attribute) and par.value is n:
                reads.add(par.attr)
            else:
                escapes.append((n.lineno, ast.unparse(par) if par is not None else pname))
    return reads, escapes


def distinct_lexers(attr):
    """native: real environments that differ ONLY in `attr` get different lexers from the real get_lexer (pairwise over the values)"""
    vals = KEY_VALUES[attr]
    envs = []
    for v in vals:
        e = jinja2.Environment()
        setattr(e, attr, v)
        envs.append(e)
    shared = [(vals[i], vals[j]) for i in range(len(vals)) for j in range(i + 1, len(vals)) if L.get_lexer(envs[i]) is L.get_lexer(envs[j])]
    return shared


def cache_key(task, tier, seed):
    """every environment attribute read while a Lexer is built (Lexer.__init__, compile_rules: read-set from their real source)
    distinguishes lexers: environments differing only in that attribute never share a cached lexer (decided on the real get_lexer,
    whatever the shape of its key); the environment object does not escape to other code while the lexer is built"""
    t0 = time.time()
    out = []
    reads = {}
    for fn, idx in ((L.Lexer.__init__, 1), (L.compile_rules, 0)):
        r, esc = env_reads(fn, idx)
        for a in r:
            reads.setdefault(a, []).append(fn.__qualname__)
        for ln, txt in esc:
            ok = txt.startswith("compile_rules(")
            out.append(tres(f"C13.cache_key.environment_not_leaked[{fn.__qualname__}@{txt[:40]}]", ok, f"line {ln}: the environment object is passed on as `{txt}`"
                            + (" (a function under this contract)" if ok else ""), {"attr": None}, t0, undecided=not ok))
    for a, where in sorted(reads.items()):
        if a not in KEY_VALUES:
            out.append(tres(f"C13.cache_key.read[{a}]", False, f"environment.{a} is read by {where}: no table of alternative values for this attribute", None, t0, undecided=True))
            continue
        shared = distinct_lexers(a)
        out.append(tres(f"C13.cache_key.read[{a}]", not shared, f"environment.{a} is read by {where}; environments differing only in it "
                        + (f"SHARE one lexer for the values {shared[:2]}" if shared else f"get distinct lexers for all of {KEY_VALUES[a]}"), {"attr": a}, t0))
    out.append(tres("C13.cache_key.reads_found", len(reads) >= 12, f"{len(reads)} environment attributes read while a lexer is built: {sorted(reads)}", {"attr": None}, t0, undecided=True))
    # equal options share the cached lexer (the cache is used at all)
    a, b = jinja2.Environment(trim_blocks=True), jinja2.Environment(trim_blocks=True)
    out.append(tres("C13.cache_key.equal_options_share", L.get_lexer(a) is L.get_lexer(b), "two environments with equal options get the same cached lexer object", {"attr": None}, t0))
    return out


def replay_cache_key(w):
    attr = w.get("attr")
    if attr in KEY_VALUES:
        shared = distinct_lexers(attr)
        return (bool(shared), f"environments differing only in {attr}: shared lexer for {shared}" if shared else f"distinct lexers for all values of {attr}")
    a, b = jinja2.Environment(trim_blocks=True), jinja2.Environment(trim_blocks=True)
    return (L.get_lexer(a) is not L.get_lexer(b), "equal options share one lexer" if L.get_lexer(a) is L.get_lexer(b) else "equal options get different lexer objects")


def template_ctor_semantic(t0):
    """Template(source, option=value) builds, through the real constructor path, an environment with exactly that option and the
    defaults elsewhere - option by option, so any misalignment of the positional argument list shows; loader None, no template cache,
    auto_reload off, no bytecode cache, shared; defaults equal Environment()'s; template_class and environment_class are honoured"""
    out = []
    params = [p for p in inspect.signature(E.Environment.__init__).parameters if p != "self"]
    attr_of = {"enable_async": "is_async"}
    d = jinja2.Environment()
    observed = list(LEXER_OPTIONS) + ["optimized", "undefined", "finalize", "autoescape", "is_async"]
    for p in params:
        if p in FIXED_FOR_TEMPLATE:
            continue
        if p not in ALT:
            out.append(tres(f"C13.template_ctor.option[{p}]", False, f"no alternative value known for the Environment option {p}", None, t0, undecided=True))
            continue
        v = ALT[p]
        problems = []
        try:
            t = jinja2.Template("x", **{p: v})
            e = jinja2.Environment(**{p: v})
            te = t.environment
            for a in observed:
                if getattr(te, a) != getattr(e, a):
                    problems.append(f".{a} = {getattr(te, a)!r}, Environment({p}=...) has {getattr(e, a)!r}")
            if sorted(te.extensions) != sorted(e.extensions):
                problems.append(f"extensions {sorted(te.extensions)} vs {sorted(e.extensions)}")
            if p == "extensions" and list(te.iter_extensions()) and [type(x) for x in te.iter_extensions()] != [type(x) for x in e.iter_extensions()]:
                problems.append("extension order differs")
            if te.loader is not None or te.cache is not None or te.auto_reload is not False or te.bytecode_cache is not None or te.shared is not True:
                problems.append(f"loader={te.loader!r} cache={te.cache!r} auto_reload={te.auto_reload!r} bytecode_cache={te.bytecode_cache!r} shared={getattr(te, 'shared', None)!r}")
        except Exception as ex:  # noqa
            problems.append(f"{type(ex).__name__}: {ex}")
        out.append(tres(f"C13.template_ctor.option[{p}]", not problems, f"Template('x', {p}={v!r}).environment: " + ("; ".join(problems[:3]) or "that option set, every other option default"),
                        {"arg": p}, t0))
    problems = []
    try:
        te = jinja2.Template("x").environment
        problems += [f"default {a}: {getattr(te, a)!r} vs {getattr(d, a)!r}" for a in observed if getattr(te, a) != getattr(d, a)]

        class MyEnv(jinja2.Environment):
            pass

        class MyTemplate(jinja2.Template):
            environment_class = MyEnv

        mt = MyTemplate("a{{ 1 }}", trim_blocks=True)
        if type(mt) is not MyTemplate or type(mt.environment) is not MyEnv or mt.render() != "a1" or mt.environment.trim_blocks is not True:
            problems.append(f"Template subclass: type {type(mt).__name__}, environment {type(mt.environment).__name__}, render {mt.render()!r}")
    except Exception as ex:  # noqa
        problems.append(f"{type(ex).__name__}: {ex}")
    out.append(tres("C13.template_ctor.defaults_and_classes", not problems, "; ".join(problems[:3]) or "Template(source) has Environment()'s defaults; template_class / environment_class honoured",
                    {"arg": "defaults"}, t0))
    return out



# ====================================================================================================
# VCs: _environment_config_check, get_spontaneous_environment, create_cache / copy_cache
# ====================================================================================================


class WitnessAlways:
    def default_witness(self):
        return {"task": self.name}

    def discharge(self, name, pc, cond, timeout, seed, pre, out):
        r = VC.discharge(self, name, pc, cond, timeout, seed, pre, out)
        if r.status == "refuted" and not r.witness:
            r.witness = self.default_witness()
        return r


class ConfigCheck(WitnessAlways, VC):
    """_environment_config_check(env): returns env itself and writes nothing; it raises (AssertionError) only for a documented
    misconfiguration: `undefined` not a subclass of Undefined, two of the block / variable / comment start strings equal, or a
    newline_sequence other than \\n, \\r\\n, \\r - so a valid configuration (and hence every overlay / spontaneous environment of one)
    is never rejected, and whatever passes is handed back unchanged."""
    prop = PROP
    target = "jinja2.environment:_environment_config_check"

    def __init__(self, undefined_cls):
        self.ucls = undefined_cls
        VC.__init__(self, PROP, f"C13.config_check[undefined={undefined_cls.__name__}]")

    def setup(self, I, st):
        self.b, self.v, self.c = sym("block_start_string", "str"), sym("variable_start_string", "str"), sym("comment_start_string", "str")
        self.nl = sym("newline_sequence", "str")
        self.env = A.obj(st, E.Environment, "environment", fields={
            "undefined": self.ucls, "block_start_string": self.b, "variable_start_string": self.v, "comment_start_string": self.c, "newline_sequence": self.nl})
        return [self.env], {}

    def valid(self):
        nl_ok = z3.Or(*[self.nl.t == z3.StringVal(x) for x in ("\n", "\r\n", "\r")])
        distinct = z3.And(self.b.t != self.v.t, self.v.t != self.c.t, self.b.t != self.c.t)
        return z3.And(z3.BoolVal(issubclass(self.ucls, jinja2.Undefined)), distinct, nl_ok)

    def p_accepts_valid(self, pre, out):
        if out.raised:
            if out.value.cls is not AssertionError:
                return False
            return z3.Not(self.valid())
        return None

    def p_identity(self, pre, out):
        if out.raised:
            return None
        nl_ok = z3.Or(*[self.nl.t == z3.StringVal(x) for x in ("\n", "\r\n", "\r")])
        # what passes has a usable newline sequence, an Undefined subclass and block/variable resp. variable/comment starts that differ
        return z3.And(out.value == self.env, not out.st.written, issubclass(self.ucls, jinja2.Undefined), nl_ok, self.b.t != self.v.t, self.v.t != self.c.t)

    posts = [("rejects_only_documented_misconfigurations", p_accepts_valid), ("returns_argument_unchanged", p_identity)]

    def concretize(self, model, pre, out):
        return {"undefined": self.ucls.__name__, "block": model_value(model, self.b.t), "variable": model_value(model, self.v.t), "comment": model_value(model, self.c.t),
                "newline_sequence": model_value(model, self.nl.t)}

    def replay(self, w):
        return replay_config_check(w)


def replay_config_check(w):
    cases = []
    if all(isinstance(w.get(k), str) for k in ("block", "variable", "comment", "newline_sequence")):
        cases.append((w["block"], w["variable"], w["comment"], w["newline_sequence"], w.get("undefined", "Undefined")))
    cases += [("{%", "{{", "{#", "\n", "Undefined"), ("<%", "<%=", "<!--", "\r\n", "StrictUndefined"), ("{%", "{%", "{#", "\n", "Undefined"),
              ("{%", "{{", "{{", "\n", "Undefined"), ("{%", "{{", "{#", "\n\n", "Undefined"), ("{%", "{{", "{#", "\r", "object")]
    for b, v, c, nl, u in cases:
        ucls = {"Undefined": jinja2.Undefined, "StrictUndefined": jinja2.StrictUndefined, "object": object}.get(u, jinja2.Undefined)
        env = object.__new__(E.Environment)
        env.__dict__.update(undefined=ucls, block_start_string=b, variable_start_string=v, comment_start_string=c, newline_sequence=nl)
        before = dict(env.__dict__)
        valid = issubclass(ucls, jinja2.Undefined) and len({b, v, c}) == 3 and nl in ("\n", "\r\n", "\r")
        try:
            r = E._environment_config_check(env)
            got = "ok" if (r is env and env.__dict__ == before) else "changed"
        except AssertionError:
            got = "AssertionError"
        except Exception as ex:  # noqa
            got = type(ex).__name__
        if got not in ("ok", "AssertionError") or (valid and got != "ok") or (got == "ok" and (not issubclass(ucls, jinja2.Undefined) or nl not in ("\n", "\r\n", "\r") or b == v or v == c)):
            return (True, f"_environment_config_check(block={b!r}, variable={v!r}, comment={c!r}, newline_sequence={nl!r}, undefined={u}) -> {got}; valid configuration: {valid}")
    return (False, "_environment_config_check accepts the valid and rejects the invalid configurations of the family, returning its argument unchanged")


class Spontaneous(WitnessAlways, VC):
    """get_spontaneous_environment (the function under functools.lru_cache): returns cls(*args) - the class called with exactly the
    given arguments in order - and afterwards only sets `shared = True` on it."""
    prop = PROP
    target = "jinja2.environment:get_spontaneous_environment"

    def __init__(self):
        VC.__init__(self, PROP, "C13.spontaneous.get_spontaneous_environment")

    def closure(self, I):
        fn = E.get_spontaneous_environment
        inner = getattr(fn, "__wrapped__", None)
        if inner is None:
            raise Unsupported("get_spontaneous_environment is not an lru_cache wrapper any more")
        return I.closure_of_function(inner)

    def configure(self, I):
        c = self

        def call_obj(I_, st, args, kwargs, node):
            fn, rest = args[0], list(args[1:])
            if fn is c.cls:
                r = st.alloc(HObj(E.Environment, fields={}, path="new_env"))
                st.trace.append(Event("call", "cls", rest, dict(kwargs), r))
                return [(st, r)]
            return None

        I.specs["call_obj"] = call_obj

    def setup(self, I, st):
        self.cls = sym("cls", "obj")
        self.args = [sym(f"arg{i}", "obj") for i in range(22)]
        return "locals", {"cls": self.cls, "args": tuple(self.args)}

    def p_post(self, pre, out):
        if out.raised:
            return False
        calls = A.calls(out, "cls")
        if len(calls) != 1 or calls[0].kwargs or len(calls[0].args) != len(self.args) or any(a is not b for a, b in zip(calls[0].args, self.args)):
            return False
        r = calls[0].result
        if out.value != r:
            return False
        f = out.st.get(r).fields
        return f.get("shared") is True and set(f) == {"shared"} and all(rid == r.id for rid, _ in out.st.written)

    posts = [("class_called_with_the_arguments_in_order_only_shared_set", p_post)]

    def replay(self, w):
        return replay_template_ctor(w)


class CacheFactory(WitnessAlways, VC):
    """create_cache(size): None for 0, a fresh empty dict for a negative size, else a fresh LRUCache(size).
    copy_cache(cache): None for None, a fresh empty dict for a dict, else a fresh LRUCache of the same capacity.  Never the
    argument itself: environments (overlays) never share a template cache."""
    prop = PROP

    def __init__(self, which, variant):
        self.which, self.variant = which, variant
        self.target = f"jinja2.environment:{which}"
        VC.__init__(self, PROP, f"C13.{which}[{variant}]")

    def configure(self, I):
        def lru_new(I_, st, args, kwargs, node):
            r = st.alloc(HObj(U.LRUCache, fields={"capacity": args[0]}, path="new_lru"))
            st.trace.append(Event("call", "LRUCache", list(args), dict(kwargs), r))
            return [(st, r)]

        I.specs[("fn", id(U.LRUCache))] = lru_new

    def setup(self, I, st):
        if self.which == "create_cache":
            self.size = sym("size", "int")
            return [self.size], {}
        if self.variant == "None":
            self.arg = None
        elif self.variant == "dict":
            self.arg = A.adict(st, "cache")
        else:
            self.cap = sym("capacity", "int")
            self.arg = st.alloc(HObj(U.LRUCache, fields={"capacity": self.cap}, path="cache"), initial=True)
        return [self.arg], {}

    def p_post(self, pre, out):
        if out.raised:
            return False
        v, st = out.value, out.st
        if st.written:
            return False

        def fresh_empty_dict(v):
            return isinstance(v, Ref) and v.id in st.allocated and isinstance(st.get(v), HDict) and st.get(v).concrete and not st.get(v).items

        def fresh_lru(v, cap):
            return isinstance(v, Ref) and v.id in st.allocated and isinstance(st.get(v), HObj) and st.get(v).cls is U.LRUCache and st.get(v).fields["capacity"] is cap

        if self.which == "create_cache":
            s = self.size.t
            if v is None:
                return s == 0
            if fresh_empty_dict(v):
                return s < 0
            if fresh_lru(v, self.size):
                return s > 0
            return False
        if self.variant == "None":
            return v is None
        if self.variant == "dict":
            return fresh_empty_dict(v) and v != self.arg
        return fresh_lru(v, self.cap) and v != self.arg

    posts = [("fresh_cache_of_the_documented_kind", p_post)]

    def replay(self, w):
        return replay_caches(w)


def replay_caches(w):
    bad = []
    for size in (0, -1, 1, 7):
        c = E.create_cache(size)
        ok = (c is None) if size == 0 else (type(c) is dict and not c) if size < 0 else (isinstance(c, U.LRUCache) and c.capacity == size and len(c) == 0)
        if not ok:
            bad.append(f"create_cache({size}) -> {c!r}")
    for src in (None, {"a": 1}, U.LRUCache(3)):
        if isinstance(src, U.LRUCache):
            src["k"] = 1
        c = E.copy_cache(src)
        ok = (c is None) if src is None else (c is not src and len(c) == 0 and type(c) is type(src) and getattr(c, "capacity", None) == getattr(src, "capacity", None))
        if not ok:
            bad.append(f"copy_cache({src!r}) -> {c!r}")
    return (bool(bad), "; ".join(bad) or "create_cache / copy_cache return fresh empty caches of the documented kind")



# ====================================================================================================
# C13.rules.order: lexer.compile_rules
# ====================================================================================================

import re as _re

ESC = z3.Function("re.escape", z3.StringSort(), z3.StringSort())   # dependency: re.escape(s) matches exactly s


def install_basics(I):
    """`x is None` is False for a symbolic str / int / bool; re.escape as an uninterpreted function; sorted() of a list of
    tuples of known length = some permutation that is ordered (dependency spec; forks one path per permutation)"""
    if not getattr(I, "_typed_identical", False):
        base_identical = I.identical
        pytype = {"str": str, "int": int, "bool": bool}

        def identical(st, a, b):
            for x, y in ((a, b), (b, a)):
                if isinstance(x, Sym) and x.k in pytype and not isinstance(y, (Sym, Ref, BoundMethod, SSeq, Exc)) and not isinstance(y, pytype[x.k]):
                    return False
            return base_identical(st, a, b)

        I.identical = identical
        I._typed_identical = True

    def escape(I_, st, args, kwargs, node):
        a = args[0]
        if isinstance(a, str):
            return [(st, _re.escape(a))]
        return [(st, Sym(ESC(to_term(a, "str")), "str"))]

    I.specs[("fn", id(_re.escape))] = escape

    def sorted_spec(I_, st, args, kwargs, node):
        if set(kwargs) - {"reverse"} or len(args) != 1 or not isinstance(kwargs.get("reverse", False), bool):
            raise Unsupported("sorted() with a key / symbolic reverse flag", node)
        items = I_.iter_concrete(st, args[0], node)
        if not all(isinstance(x, tuple) and len(x) >= 2 and isinstance(x[1], str) for x in items) or len({x[1] for x in items}) != len(items) or len(items) > 5:
            raise Unsupported("sorted() of something else than <= 5 tuples (int, distinct literal str, ...)", node)
        rev = kwargs.get("reverse", False)
        out = []
        for perm in itertools.permutations(items):
            s = st.fork()
            asc = list(reversed(perm)) if rev else list(perm)
            for a, b in zip(asc, asc[1:]):  # a <= b in tuple order: first components, ties broken by the (distinct) literal second components
                a0, b0 = to_term(a[0], "int"), to_term(b[0], "int")
                s.assume(z3.Or(a0 < b0, z3.And(a0 == b0, z3.BoolVal(a[1] < b[1]))))
            from pyvc.smt import feasible
            if not feasible(s.pc, 2000):
                continue
            out.append((s, s.alloc(HList(items=list(perm)))))
        return out

    I.specs[("fn", id(sorted))] = sorted_spec


DELIM_OF = {L.TOKEN_COMMENT_BEGIN: "comment_start_string", L.TOKEN_BLOCK_BEGIN: "block_start_string", L.TOKEN_VARIABLE_BEGIN: "variable_start_string",
            L.TOKEN_LINESTATEMENT_BEGIN: "line_statement_prefix", L.TOKEN_LINECOMMENT_BEGIN: "line_comment_prefix"}


class RulesOrder(WitnessAlways, VC):
    """compile_rules(environment) for arbitrary delimiter strings: one rule per configured start delimiter (comment, block, variable,
    line statement / line comment when set), each carrying a pattern that ends with the escape of ITS OWN delimiter, ordered by
    delimiter length, longest first (so a delimiter that is a prefix of a longer one cannot shadow it in the root alternation)."""
    prop = PROP
    target = "jinja2.lexer:compile_rules"
    timeout_quick = 10000

    def __init__(self, line_stmt, line_comment):
        self.ls, self.lc = line_stmt, line_comment
        VC.__init__(self, PROP, f"C13.rules.order[line_statement={'set' if line_stmt else 'None'},line_comment={'set' if line_comment else 'None'}]")

    def configure(self, I):
        install_basics(I)

    def setup(self, I, st):
        self.d = {"comment_start_string": sym("comment_start_string", "str"), "block_start_string": sym("block_start_string", "str"),
                  "variable_start_string": sym("variable_start_string", "str"),
                  "line_statement_prefix": sym("line_statement_prefix", "str") if self.ls else None,
                  "line_comment_prefix": sym("line_comment_prefix", "str") if self.lc else None}
        self.env = A.obj(st, E.Environment, "environment", fields=dict(self.d))
        return [self.env], {}

    def rules(self, out):
        v = out.value
        if not isinstance(v, Ref) or not isinstance(out.st.get(v), HList) or not out.st.get(v).concrete:
            return None
        items = out.st.get(v).items
        if not all(isinstance(x, tuple) and len(x) == 2 and isinstance(x[0], str) for x in items):
            return None
        return items

    def p_rules(self, pre, out):
        if out.raised:
            return False
        items = self.rules(out)
        if items is None:
            return False
        names = [x[0] for x in items]
        if len(set(names)) != len(names) or any(n not in DELIM_OF or self.d[DELIM_OF[n]] is None for n in names):
            return False
        conds = []
        for n, a in DELIM_OF.items():
            # the three tag delimiters always have a rule; a line prefix has one exactly when it is configured: not None and (since the
            # fix "an empty line statement or line comment prefix means none") not the empty string
            optional = a in ("line_statement_prefix", "line_comment_prefix")
            if self.d[a] is None:
                continue
            if n in names:
                if optional:
                    conds.append(z3.Length(self.d[a].t) > 0)
            elif optional:
                conds.append(z3.Length(self.d[a].t) == 0)
            else:
                return False
        for name, rx in items:
            own = self.d[DELIM_OF[name]].t
            conds.append(z3.SuffixOf(ESC(own), to_term(rx, "str")))
        return z3.And(*conds)

    def p_order(self, pre, out):
        if out.raised:
            return None
        items = self.rules(out)
        if items is None or any(x[0] not in DELIM_OF or self.d[DELIM_OF[x[0]]] is None for x in items):
            return False
        lens = [z3.Length(self.d[DELIM_OF[x[0]]].t) for x in items]
        return z3.And(*[a >= b for a, b in zip(lens, lens[1:])]) if len(lens) > 1 else True

    def p_pure(self, pre, out):
        return not any(rid == self.env.id for rid, _ in out.st.written)

    posts = [("one_rule_per_delimiter_with_its_own_escape", p_rules), ("longest_delimiter_first", p_order), ("environment_not_written", p_pure)]

    def concretize(self, model, pre, out):
        return {"lengths": {a: (len(model_value(model, v.t)) if v is not None else None) for a, v in self.d.items()}}

    def replay(self, w):
        return replay_rules_order(w)


def replay_rules_order(w):
    """native: the real compile_rules on delimiter sets (the witness's lengths and a fixed family): rules sorted by delimiter length,
    longest first, each pattern matching its own delimiter"""
    fams = []
    lens = (w or {}).get("lengths")
    if isinstance(lens, dict):
        chars = {"comment_start_string": "#", "block_start_string": "%", "variable_start_string": "{", "line_statement_prefix": "@", "line_comment_prefix": "!"}
        fams.append({a: (None if n is None else ("<" + chars[a] * max(1, int(n) - 1))[:max(1, int(n))] if int(n) > 1 else chars[a]) for a, n in lens.items()})
    fams += [dict(comment_start_string="<!--", block_start_string="<%", variable_start_string="<%=", line_statement_prefix=None, line_comment_prefix=None),
             dict(comment_start_string="{#", block_start_string="{%", variable_start_string="{{", line_statement_prefix="#", line_comment_prefix="##"),
             dict(comment_start_string="{%%#", block_start_string="{%%", variable_start_string="{%%=", line_statement_prefix="%%%%%", line_comment_prefix="/"),
             dict(comment_start_string="c", block_start_string="bbbbbb", variable_start_string="vvv", line_statement_prefix="ssss", line_comment_prefix="kk")]
    for f in fams:
        env = object.__new__(E.Environment)
        env.__dict__.update(f)
        try:
            rules = L.compile_rules(env)
        except Exception as ex:  # noqa
            return (True, f"compile_rules({f}) raised {type(ex).__name__}: {ex}")
        want = {n for n, a in DELIM_OF.items() if f[a]}
        names = [r[0] for r in rules]
        lens_ = [len(f[DELIM_OF[n]]) for n in names if n in DELIM_OF]
        ok = sorted(names) == sorted(want) and lens_ == sorted(lens_, reverse=True)
        for n, rx in rules:
            d = f.get(DELIM_OF.get(n, ""), None)
            if d is None or _re.compile(rx, _re.M).search("x " + d) is None or not rx.endswith(_re.escape(d)):
                ok = False
        if not ok:
            return (True, f"compile_rules for {f} returned {rules}: not one rule per delimiter ordered by delimiter length (longest first) with its own escaped delimiter")
    return (False, "compile_rules orders the start rules by delimiter length on the witness and the fixed family")



# ====================================================================================================
# C13.lexer_cache: lexer.get_lexer
# ====================================================================================================

NOPT = len(LEXER_OPTIONS)
_KS = [Obj] * NOPT
CACHE_DOM0 = z3.Function("cache_has", *_KS, z3.BoolSort())     # abstract view of the LRU cache before the call: key -> present / value
CACHE_VAL0 = z3.Function("cache_value", *_KS, Obj)
CACHE_DOM1 = z3.Function("cache_has'", *_KS, z3.BoolSort())    # ... after a __setitem__
CACHE_VAL1 = z3.Function("cache_value'", *_KS, Obj)
OPT = [z3.Function(f"lexer_built_from.{a}", Obj, Obj) for a in LEXER_OPTIONS]  # ghost: the option values a Lexer was constructed from
NONE = host_const(None)


def cache_inv(dom, val):
    """every entry stored under key k is a Lexer (not None) built from an environment whose options are k"""
    ks = [z3.Const(fresh_name(f"k{i}"), Obj) for i in range(NOPT)]
    return z3.ForAll(ks, z3.Implies(dom(*ks), z3.And(val(*ks) != NONE, *[OPT[i](val(*ks)) == ks[i] for i in range(NOPT)])))


class _LexerCache:
    """placeholder class for the module-level LRUCache `_lexer_cache` (its methods are used through their C26 contracts)"""


class LexerCache(WitnessAlways, VC):
    """get_lexer(environment) over an arbitrary cache state in which every entry stored under a key k is a Lexer built from options
    k: the result is a Lexer built from the caller's twelve options, the cache invariant is preserved (so creating and using other
    environments never changes the lexer an environment gets), the environment is not written.
    LRUCache.get / __setitem__ are used through the contracts proved in C26 (get: value of a present key, else the default, contents
    unchanged; __setitem__: the key maps to the value, every other key that is still present keeps its value, none is added)."""
    prop = PROP
    target = "jinja2.lexer:get_lexer"
    timeout_quick = 20000

    def __init__(self):
        VC.__init__(self, PROP, "C13.lexer_cache.get_lexer")

    def configure(self, I):
        install_basics(I)
        c = self

        def key_terms(key, node):
            if not isinstance(key, tuple) or len(key) != NOPT:
                raise Unsupported(f"cache key is not a tuple of {NOPT} values", node)
            return [to_term(k, "obj") for k in key]

        def cache_get(I_, st, args, kwargs, node):
            ks = key_terms(args[1], node)
            default = args[2] if len(args) > 2 else kwargs.get("default", None)
            dom, val = st.ghost.get("cache", (CACHE_DOM0, CACHE_VAL0))
            r = Sym(z3.If(dom(*ks), val(*ks), to_term(default, "obj")), "obj")
            st.trace.append(Event("call", "LRUCache.get", [args[1]], {}, r))
            return [(st, r)]

        def cache_set(I_, st, args, kwargs, node):
            ks = key_terms(args[1], node)
            v = to_term(args[2], "obj")
            dom, val = st.ghost.get("cache", (CACHE_DOM0, CACHE_VAL0))
            if dom is not CACHE_DOM0:
                raise Unsupported("more than one store into the lexer cache on one path", node)
            qs = [z3.Const(fresh_name(f"q{i}"), Obj) for i in range(NOPT)]
            same = z3.And(*[q == k for q, k in zip(qs, ks)])
            st.assume(CACHE_DOM1(*ks), CACHE_VAL1(*ks) == v)
            st.assume(z3.ForAll(qs, z3.Implies(z3.And(z3.Not(same), CACHE_DOM1(*qs)), z3.And(CACHE_DOM0(*qs), CACHE_VAL1(*qs) == CACHE_VAL0(*qs)))))
            st.ghost = dict(st.ghost, cache=(CACHE_DOM1, CACHE_VAL1))
            st.trace.append(Event("call", "LRUCache.__setitem__", [args[1], args[2]], {}, None))
            return [(st, None)]

        I.specs["_LexerCache.get"] = cache_get
        I.specs["_LexerCache.__setitem__"] = cache_set

        def lexer_new(I_, st, args, kwargs, node):
            if len(args) != 1 or kwargs or args[0] != c.env:
                raise Unsupported("Lexer(...) not called with the environment", node)
            r = fresh("lexer", "obj")
            f = st.get(c.env).fields
            st.assume(r.t != NONE, *[OPT[i](r.t) == to_term(f[a], "obj") for i, a in enumerate(LEXER_OPTIONS)])
            st.trace.append(Event("call", "Lexer", list(args), {}, r))
            return [(st, r)]

        I.specs[("fn", id(L.Lexer))] = lexer_new

    def setup(self, I, st):
        self.opts = {a: sym(a, "obj") for a in LEXER_OPTIONS}
        self.env = A.obj(st, E.Environment, "environment", fields=dict(self.opts))
        self.cache = st.alloc(HObj(_LexerCache, path="_lexer_cache"), initial=True)
        st.assume(cache_inv(CACHE_DOM0, CACHE_VAL0))
        node, _ = extract.function_ast(L.get_lexer)
        return "locals", {node.args.args[0].arg: self.env, "_lexer_cache": self.cache}

    def p_result(self, pre, out):
        if out.raised:
            return False
        r = to_term(out.value, "obj")
        return z3.And(r != NONE, *[OPT[i](r) == self.opts[a].t for i, a in enumerate(LEXER_OPTIONS)])

    def p_inv(self, pre, out):
        if out.raised:
            return None
        dom, val = out.st.ghost.get("cache", (CACHE_DOM0, CACHE_VAL0))
        return cache_inv(dom, val)

    def p_frame(self, pre, out):
        f = out.st.get(self.env).fields
        return all(f[a] is self.opts[a] for a in LEXER_OPTIONS) and not any(rid == self.env.id for rid, _ in out.st.written)

    def p_lookup_first(self, pre, out):
        """a lexer is constructed only after the cache was asked and had no entry (hit: the cached object itself is returned)"""
        if out.raised:
            return None
        gets, news = A.calls(out, "LRUCache.get"), A.calls(out, "Lexer")
        if len(gets) != 1 or len(news) > 1:
            return False
        ks = [self.opts[a].t for a in LEXER_OPTIONS]
        hit = CACHE_DOM0(*ks)
        if news:
            return z3.Not(hit)
        return z3.And(hit, to_term(out.value, "obj") == CACHE_VAL0(*ks))

    posts = [("lexer_built_from_the_callers_options", p_result), ("cache_invariant_preserved", p_inv), ("environment_not_written", p_frame),
             ("cached_lexer_reused", p_lookup_first)]

    def replay(self, w):
        return replay_lexer_cache(w)


def lexer_signature(lx):
    return (tuple((state, tuple(r.pattern.pattern for r in rules)) for state, rules in sorted(lx.rules.items())), lx.lstrip_blocks, lx.newline_sequence, lx.keep_trailing_newline)


def replay_lexer_cache(w):
    """native: more configurations than the cache holds, interleaved; every get_lexer(env) must be a lexer equal to a freshly built
    Lexer(env), also when asked again later"""
    envs = []
    for fam in FAMILIES:
        for setting in SETTINGS:
            envs.append(jinja2.Environment(**dict(family_kwargs(fam), **setting_kwargs(setting))))
    for line in LINE_PREFIXES:
        for fam in FAMILIES:
            envs.append(jinja2.Environment(**dict(family_kwargs(fam), line_statement_prefix=line[0], line_comment_prefix=line[1])))
    order = list(range(len(envs))) + list(reversed(range(len(envs)))) + list(range(0, len(envs), 3))
    for i in order:
        e = envs[i]
        got = L.get_lexer(e)
        if lexer_signature(got) != lexer_signature(L.Lexer(e)) or e.lexer is not L.get_lexer(e):
            return (True, f"get_lexer for configuration #{i} ({e.block_start_string!r} {e.variable_start_string!r} trim={e.trim_blocks} lstrip={e.lstrip_blocks} "
                          f"nl={e.newline_sequence!r} ktn={e.keep_trailing_newline} line={e.line_statement_prefix!r}) is not a lexer built from these options")
    return (False, f"{len(envs)} configurations interleaved (> cache capacity): get_lexer always returns a lexer equal to Lexer(environment)")



# ====================================================================================================
# C13.overlay: Environment.overlay ; C13.env_init: Environment.__init__
# ====================================================================================================

OVERLAY_PARAMS = [p for p in inspect.signature(E.Environment.overlay).parameters if p != "self"]
SPECIAL = ("cache_size", "extensions", "enable_async")
ENV_ATTRS = sorted(vars(jinja2.Environment()))  # the attributes the real __init__ creates (live table)


class _Ext:
    """placeholder class of a bound extension object"""


def install_overlay_specs(I, c):
    install_basics(I)

    def locals_spec(I_, st, args, kwargs, node):
        fr = c.frame_of(I_, st)
        return [(st, st.alloc(HDict(items=dict(fr))))]

    I.specs[("fn", id(locals))] = locals_spec

    def dict_spec(I_, st, args, kwargs, node):
        if len(args) == 1 and not kwargs and isinstance(args[0], Ref) and isinstance(st.get(args[0]), HDict) and st.get(args[0]).concrete:
            return [(st, st.alloc(HDict(items=dict(st.get(args[0]).items))))]
        if not args and not kwargs:
            return [(st, st.alloc(HDict(items={})))]
        raise Unsupported("dict(...) of this shape", node)

    I.specs[("fn", id(dict))] = dict_spec

    def obj_new(I_, st, args, kwargs, node):
        cls = args[0]
        r = st.alloc(HObj(E.Environment, fields={}, path="overlay"))
        st.trace.append(Event("call", "object.__new__", [cls], {}, r))
        return [(st, r)]

    I.specs[("fn", id(object.__new__))] = obj_new

    def setattr_spec(I_, st, args, kwargs, node):
        if len(args) != 3 or kwargs or not isinstance(args[1], str):
            raise Unsupported("setattr with a symbolic attribute name", node)
        return I_.setattr(st, args[0], args[1], args[2], node)

    I.specs[("fn", id(setattr))] = setattr_spec
    I.specs[("fn", id(E.create_cache))] = A.abstract_fn("create_cache", returns="obj")
    I.specs[("fn", id(E.copy_cache))] = A.abstract_fn("copy_cache", returns="obj")
    I.specs[("fn", id(E._environment_config_check))] = A.abstract_fn("_environment_config_check", result=lambda st, args, kwargs: args[0])

    def load_ext(I_, st, args, kwargs, node):
        r = st.alloc(HDict(items={"ext:new": fresh("loaded_extension", "obj")}))
        st.trace.append(Event("call", "load_extensions", list(args), {}, r))
        return [(st, r)]

    I.specs[("fn", id(E.load_extensions))] = load_ext

    def ext_bind(I_, st, args, kwargs, node):
        r = st.alloc(HObj(_Ext, fields={"bound_to": args[1], "origin": args[0]}, path="bound_ext"))
        st.trace.append(Event("call", "Extension.bind", list(args), {}, r))
        return [(st, r)]

    I.specs["_Ext.bind"] = ext_bind


class Overlay(WitnessAlways, VC):
    """env.overlay(**overrides), for a given set of overridden parameters (their VALUES arbitrary): the result is a NEW object of the
    same class; every attribute of the original that is not overridden is shared unchanged; every overridden option has the
    argument's value; `cache` is create_cache(cache_size) when given, else copy_cache(original cache) - never the original's;
    `extensions` is a new dict holding value.bind(overlay) for each extension of the original (+ the newly loaded ones);
    overlayed / linked_to are set; is_async follows enable_async; the original environment is not written; the result went through
    _environment_config_check."""
    prop = PROP
    target = "jinja2.environment:Environment.overlay"

    def __init__(self, overridden, label):
        self.over = tuple(overridden)
        VC.__init__(self, PROP, f"C13.overlay[{label}]")

    def frame_of(self, I, st):
        # the frame of overlay() is the innermost frame holding its parameters
        for fid in sorted(st.frames, reverse=True):
            fr = st.frames[fid]
            if "self" in fr and all(p in fr for p in OVERLAY_PARAMS):
                return {k: v for k, v in fr.items()}
        raise Unsupported("locals(): frame of overlay() not found")

    def configure(self, I):
        install_overlay_specs(I, self)

    def setup(self, I, st):
        self.orig = {a: sym("self." + a, "obj") for a in ENV_ATTRS if a not in ("extensions",)}
        self.ext1 = st.alloc(HObj(_Ext, fields={}, path="ext1"), initial=True)
        self.ext2 = st.alloc(HObj(_Ext, fields={}, path="ext2"), initial=True)
        self.exts = st.alloc(HDict(items={"ext:a": self.ext1, "ext:b": self.ext2}), initial=True)
        fields = dict(self.orig, extensions=self.exts)
        self.env = st.alloc(HObj(E.Environment, fields=fields, path="self"), initial=True)
        self.vals = {p: sym("arg." + p, "obj") for p in self.over}
        for v in self.vals.values():
            st.assume(v.t != host_const(U.missing))
        return [self.env], dict(self.vals)

    def p_new(self, pre, out):
        if out.raised:
            return False
        r = out.value
        return isinstance(r, Ref) and r != self.env and r.id in out.st.allocated and out.st.get(r).cls is E.Environment and \
            [e.args[0] for e in A.calls(out, "object.__new__")] == [E.Environment] and len(A.calls(out, "_environment_config_check")) == 1 and \
            A.calls(out, "_environment_config_check")[0].args[0] == r

    def p_attrs(self, pre, out):
        if out.raised:
            return None
        f = out.st.get(out.value).fields
        bad = []
        for a in ENV_ATTRS:
            if a in ("cache", "extensions", "overlayed", "linked_to", "is_async"):
                continue
            want = self.vals[a] if a in self.vals else self.orig[a]
            if f.get(a) is not want:
                bad.append(a)
        extra = set(f) - set(ENV_ATTRS) - {"overlayed", "linked_to"}
        self.last_bad = bad + sorted(extra)
        if bad or extra:
            return False
        if f.get("overlayed") is not True or f.get("linked_to") != self.env:
            return False
        want_async = self.vals["enable_async"] if "enable_async" in self.vals else self.orig["is_async"]
        return f.get("is_async") is want_async

    def p_cache(self, pre, out):
        if out.raised:
            return None
        f = out.st.get(out.value).fields
        cc, cp = A.calls(out, "create_cache"), A.calls(out, "copy_cache")
        if "cache_size" in self.vals:
            return len(cc) == 1 and not cp and cc[0].args[0] is self.vals["cache_size"] and f.get("cache") is cc[0].result
        return len(cp) == 1 and not cc and cp[0].args[0] is self.orig["cache"] and f.get("cache") is cp[0].result

    def p_extensions(self, pre, out):
        if out.raised:
            return None
        st = out.st
        r = out.value
        ex = st.get(r).fields.get("extensions")
        if not isinstance(ex, Ref) or ex == self.exts or ex.id not in st.allocated or not isinstance(st.get(ex), HDict) or not st.get(ex).concrete:
            return False
        items = st.get(ex).items
        want_keys = ["ext:a", "ext:b"] + (["ext:new"] if "extensions" in self.vals else [])
        if list(items) != want_keys:
            return False
        for k, src in (("ext:a", self.ext1), ("ext:b", self.ext2)):
            b = items[k]
            if not (isinstance(b, Ref) and isinstance(st.get(b), HObj) and st.get(b).cls is _Ext and st.get(b).fields.get("bound_to") == r and st.get(b).fields.get("origin") == src):
                return False
        le = A.calls(out, "load_extensions")
        if "extensions" in self.vals:
            return len(le) == 1 and le[0].args[0] == r and le[0].args[1] is self.vals["extensions"]
        return not le

    def p_original(self, pre, out):
        st = out.st
        if any(rid in (self.env.id, self.exts.id, self.ext1.id, self.ext2.id) for rid, _ in st.written):
            return False
        f = st.get(self.env).fields
        return all(f[a] is self.orig[a] for a in self.orig) and f["extensions"] == self.exts and list(st.get(self.exts).items.values()) == [self.ext1, self.ext2]

    posts = [("new_object_of_the_same_class_checked", p_new), ("attributes_shared_or_overridden", p_attrs), ("cache_is_new", p_cache),
             ("extensions_rebound", p_extensions), ("original_not_written", p_original)]

    def describe(self, out):
        return VC.describe(self, out) + (f" attributes {getattr(self, 'last_bad', [])[:5]}" if getattr(self, "last_bad", None) else "")

    def default_witness(self):
        return {"overridden": list(self.over)}

    def concretize(self, model, pre, out):
        return {"overridden": list(self.over)}

    def replay(self, w):
        return replay_overlay(w)


def replay_overlay(w):
    """native: overlay with the witness's overridden parameters (alternative values) on a fully configured environment"""
    over = list((w or {}).get("overridden", [])) or ["block_start_string"]
    alt = dict(ALT, loader=jinja2.DictLoader({}), cache_size=7, auto_reload=False, bytecode_cache=None)
    base = jinja2.Environment(extensions=["jinja2.ext.loopcontrols"], cache_size=3, loader=jinja2.DictLoader({"a": "b"}))
    before = dict(vars(base))
    kw = {p: alt[p] for p in over if p in alt}
    try:
        ov = base.overlay(**kw)
    except Exception as ex:  # noqa
        return (True, f"overlay({kw}) raised {type(ex).__name__}: {ex}")
    bad = []
    if ov is base or type(ov) is not type(base):
        bad.append("overlay is not a new object of the same class")
    for a, v in before.items():
        if vars(base).get(a) is not v:
            bad.append(f"original attribute {a} was changed")
    for a in before:
        if a in ("cache", "extensions", "is_async"):
            continue
        want = kw[a] if a in kw else before[a]
        if getattr(ov, a, "<missing>") is not want and getattr(ov, a, "<missing>") != want:
            bad.append(f"overlay.{a} = {getattr(ov, a, '<missing>')!r}, expected {want!r}")
    if ov.cache is base.cache and base.cache is not None:
        bad.append("overlay shares the template cache")
    if "cache_size" in kw and getattr(ov.cache, "capacity", None) != kw["cache_size"]:
        bad.append(f"overlay cache capacity {getattr(ov.cache, 'capacity', None)}")
    if ov.extensions is base.extensions or any(e.environment is not ov for e in ov.extensions.values()) or not set(base.extensions) <= set(ov.extensions):
        bad.append("extensions are not re-bound to the overlay")
    if ov.is_async != kw.get("enable_async", base.is_async):
        bad.append("is_async")
    if not (ov.overlayed and ov.linked_to is base):
        bad.append("overlayed / linked_to not set")
    return (bool(bad), "; ".join(bad[:4]) or f"overlay({sorted(kw)}) shares / overrides attributes as documented and leaves the original untouched")



INIT_PARAMS = [p for p in inspect.signature(E.Environment.__init__).parameters if p != "self"]


class EnvInit(WitnessAlways, VC):
    """Environment.__init__: every option is stored under the attribute of the same name (is_async for enable_async), the cache
    comes from create_cache(cache_size), the extensions from load_extensions(self, extensions); filters / tests / globals / policies
    are private COPIES of the defaults (configuring one environment never changes another); the result is config-checked."""
    prop = PROP
    target = "jinja2.environment:Environment.__init__"

    def __init__(self):
        VC.__init__(self, PROP, "C13.env_init.Environment.__init__")

    def frame_of(self, I, st):
        raise Unsupported("locals() in Environment.__init__")

    def configure(self, I):
        install_overlay_specs(I, self)

    def setup(self, I, st):
        self.env = st.alloc(HObj(E.Environment, fields={}, path="self"), initial=True)
        self.vals = {p: sym("arg." + p, "obj") for p in INIT_PARAMS}
        return [self.env], dict(self.vals)

    def p_fields(self, pre, out):
        if out.raised:
            return False
        f = out.st.get(self.env).fields
        bad = [p for p in INIT_PARAMS if p not in SPECIAL and f.get(p) is not self.vals[p]]
        self.last_bad = bad
        if bad or f.get("is_async") is not self.vals["enable_async"]:
            return False
        cc, le, ck = A.calls(out, "create_cache"), A.calls(out, "load_extensions"), A.calls(out, "_environment_config_check")
        if len(cc) != 1 or cc[0].args[0] is not self.vals["cache_size"] or f.get("cache") is not cc[0].result:
            return False
        if len(le) != 1 or le[0].args[0] != self.env or le[0].args[1] is not self.vals["extensions"] or f.get("extensions") != le[0].result:
            return False
        return len(ck) == 1 and ck[0].args[0] == self.env

    def p_private_defaults(self, pre, out):
        if out.raised:
            return None
        import jinja2.defaults as DF
        f = out.st.get(self.env).fields
        for a, d in (("filters", DF.DEFAULT_FILTERS), ("tests", DF.DEFAULT_TESTS), ("globals", DF.DEFAULT_NAMESPACE), ("policies", DF.DEFAULT_POLICIES)):
            v = f.get(a)
            if isinstance(v, Ref):
                h = out.st.get(v)
                if not (v.id in out.st.allocated and isinstance(h, HDict) and h.concrete and dict(h.items) == dict(d)):
                    return False
            elif not (isinstance(v, dict) and v is not d and v == d):
                return False
        return True

    posts = [("options_stored_under_their_names", p_fields), ("defaults_are_private_copies", p_private_defaults)]

    def describe(self, out):
        return VC.describe(self, out) + (f" attributes {getattr(self, 'last_bad', [])[:5]}" if getattr(self, "last_bad", None) else "")

    def replay(self, w):
        return replay_env_init(w)


def replay_env_init(w):
    import jinja2.defaults as DF
    bad = []
    for name, value in dict(ALT, cache_size=9, auto_reload=False, loader=jinja2.DictLoader({})).items():
        e = jinja2.Environment(**{name: value})
        attr = {"enable_async": "is_async"}.get(name, name)
        if name == "cache_size":
            if getattr(e.cache, "capacity", None) != 9:
                bad.append("cache_size not used for the cache")
        elif name == "extensions":
            if "jinja2.ext.ExprStmtExtension" not in e.extensions:
                bad.append("extensions not loaded")
        elif getattr(e, attr) != value:
            bad.append(f"Environment({name}={value!r}).{attr} = {getattr(e, attr)!r}")
        d = jinja2.Environment()
        for a in LEXER_OPTIONS:
            if a != name and getattr(e, a) != getattr(d, a):
                bad.append(f"Environment({name}=...) also changed {a}")
    a, b = jinja2.Environment(), jinja2.Environment()
    a.filters["zz"] = a.tests["zz"] = a.globals["zz"] = a.policies["zz"] = 1
    if "zz" in b.filters or "zz" in b.tests or "zz" in b.globals or "zz" in b.policies or "zz" in DF.DEFAULT_FILTERS or "zz" in DF.DEFAULT_POLICIES:
        bad.append("filters / tests / globals / policies are shared between environments")
    return (bool(bad), "; ".join(bad[:3]) or "Environment(...) stores every option under its name and keeps private copies of the defaults")



def vc_tasks():
    ts = [ConfigCheck(c) for c in (jinja2.Undefined, jinja2.StrictUndefined, object)]
    ts += [RulesOrder(a, b) for a in (False, True) for b in (False, True)]
    ts += [LexerCache(), EnvInit()]
    ts += [Overlay((), "nothing overridden"), Overlay(tuple(OVERLAY_PARAMS), "everything overridden"), Overlay(SPECIAL, "cache_size+extensions+enable_async"),
           Overlay(LEXER_OPTIONS, "the twelve lexer options")]
    ts += [Overlay((p,), p) for p in OVERLAY_PARAMS]
    ts += [Spontaneous(), CacheFactory("create_cache", "size"), CacheFactory("copy_cache", "None"), CacheFactory("copy_cache", "dict"), CacheFactory("copy_cache", "LRUCache")]
    return ts


def balancing_guard(task, tier, seed):
    """table on the real Lexer.tokeniter: while brackets are open (`balancing_stack` non-empty) a match of an END rule is skipped, so a
    tag may be wrapped over lines inside (), [] or {} in EVERY form - the deferred token set must contain variable_end, block_end and
    linestatement_end (otherwise the line-statement form of a wrapped tag ends at the first line break while the block form does not)"""
    t0 = time.time()
    node, _ = extract.function_ast(L.Lexer.tokeniter)
    guards = []
    for n in ast.walk(node):
        if isinstance(n, ast.If) and isinstance(n.test, ast.BoolOp) and isinstance(n.test.op, ast.And) and len(n.body) == 1 and isinstance(n.body[0], ast.Continue):
            names = [v for v in n.test.values if isinstance(v, ast.Name)]
            cmps = [v for v in n.test.values if isinstance(v, ast.Compare) and len(v.ops) == 1 and isinstance(v.ops[0], ast.In) and isinstance(v.comparators[0], (ast.Tuple, ast.Set, ast.List))]
            if names and cmps and any(x.id == "balancing_stack" for x in names):
                guards.append(cmps[0])
    if len(guards) != 1:
        return [Res("C13.balancing_guard", "unknown", "table", time.time() - t0, f"{len(guards)} statements of the shape `if balancing_stack and tokens in (...): continue` in tokeniter", "table")]
    vals = set()
    for e in guards[0].comparators[0].elts:
        if isinstance(e, ast.Name) and e.id in vars(L):
            vals.add(vars(L)[e.id])
        elif isinstance(e, ast.Constant):
            vals.add(e.value)
    need = {L.TOKEN_VARIABLE_END, L.TOKEN_BLOCK_END, L.TOKEN_LINESTATEMENT_END}
    ok = need <= vals
    return [Res("C13.balancing_guard", "discharged" if ok else "refuted", "table", time.time() - t0,
                f"end tokens deferred while brackets are open: {sorted(vals)}" + ("" if ok else f"; missing {sorted(need - vals)}"), "table", None if ok else {"missing": sorted(need - vals)})]


def replay_balancing_guard(w):
    """native: a tag wrapped inside open brackets renders alike as block tag, variable tag and line statement"""
    e_block = jinja2.Environment(trim_blocks=True, lstrip_blocks=True)
    e_line = jinja2.Environment(trim_blocks=True, lstrip_blocks=True, line_statement_prefix="#", line_comment_prefix="##")
    cases = [("{% for i in [10,\n   20,\n   30] %}\n{{ i }}\n{% endfor %}\n", "# for i in [10,\n   20,\n   30]\n{{ i }}\n# endfor\n"),
             ("{% set v = {'a': 1,\n 'b': 2}['b'] %}\n{{ v }}", "# set v = {'a': 1,\n 'b': 2}['b']\n{{ v }}"),
             ("{% if (1,\n 2)|length > 1 %}\nyes\n{% endif %}", "# if (1,\n 2)|length > 1\nyes\n# endif"),
             ("{{ [1,\n 2]|join('%}') }}{{ {'a':\n '}}'}['a'] }}", None)]
    bad = []
    for a, b in cases:
        outs = []
        for env, src in ((e_block, a), (e_line, b), (e_line, a)):
            if src is None:
                continue
            try:
                outs.append(env.from_string(src).render())
            except Exception as ex:  # noqa
                outs.append(f"<{type(ex).__name__}: {ex}>")
        if len(set(outs)) != 1 or outs[0].startswith("<"):
            bad.append(f"{a!r} / {b!r} render {outs}")
    return (bool(bad), "; ".join(bad[:2]) or "tags wrapped inside open brackets render alike in block, variable and line-statement form")


def table_tasks():
    return [FnTask(PROP, "C13.template_ctor", template_ctor, kind="table", replay_fn=replay_template_ctor),
            FnTask(PROP, "C13.lexer_property", lexer_property, kind="table", replay_fn=replay_lexer_property),
            FnTask(PROP, "C13.cache_key", cache_key, kind="table", replay_fn=replay_cache_key),
            FnTask(PROP, "C13.balancing_guard", balancing_guard, kind="table", replay_fn=replay_balancing_guard)]


TASKS = vc_tasks() + table_tasks() + bounded_tasks()


META = {
    "level": "other",
    "explanation": (
        "Proof of mechanism plus a bounded stand-in; not an end-to-end proof. Executed symbolically from the real source: lexer.compile_rules "
        "(arbitrary delimiter strings; rules ordered by delimiter length, longest first, each with the escape of its own delimiter), lexer.get_lexer "
        "(arbitrary LRU-cache state under the invariant 'an entry under key k is a Lexer built from options k'; result built from the caller's twelve "
        "options, invariant preserved, cached lexer reused), Environment.__init__ (options stored under their names, private copies of the "
        "defaults), Environment.overlay (new object, attributes shared or overridden, fresh cache, extensions re-bound, original not written; "
        "proved per set of overridden parameters: none, each single one, the twelve lexer options, cache_size+extensions+enable_async, all), "
        "create_cache / copy_cache, get_spontaneous_environment and _environment_config_check. Tables read from the live modules: the 22 "
        "environment arguments of Template.__new__ line up with Environment.__init__ position by position with equal defaults; Environment.lexer "
        "recomputes get_lexer(self); every environment attribute read while a Lexer is built is part of the cache key. That the regex built from "
        "the rules MATCHES independently of the concrete delimiter strings is not expressed by any contract: it is carried by the bounded stand-in "
        "C13.bounded.delims on the real Environment / Template / overlay code, hence level 'other'."),
    "assumptions": [
        "A8 regex semantics; A9 delimiter families of the stand-in (6 families x 8 settings, 2 line-prefix pairs)",
        "a Lexer's behaviour is a function of the twelve environment options read at construction (read-set obligation C13.cache_key) - ghost `lexer_built_from.*`",
        "functools.lru_cache returns the result of a call with equal arguments (get_spontaneous_environment is checked below the decorator)",
        "overlay is proved for the listed sets of overridden parameters with arbitrary VALUES; the argument loop treats parameters independently, other subsets are not enumerated",
        "Extension.bind(overlay) returns a copy of the extension bound to the overlay (abstract callee)",
        "whole-line line COMMENTS are compared with block comments that keep their line break (`+#}`), as documented in docs/templates.rst; the literal reading "
        "of the statement for comments is listed as a known finding",
    ],
    "trusted_base": [
        "z3 / cvc5", "pyvc symbolic executor", "LRUCache.get / __setitem__ contracts of C26 (used as dependency specs of the module-level lexer cache)",
        "dependency spec sorted(list of tuples, reverse=...): an ordered permutation (one path per permutation)", "dependency spec re.escape: uninterpreted function",
        "dependency spec locals() / dict(mapping) / object.__new__ / setattr / obj.__dict__.update", "contracts/c12.py cache_key (read-set analysis) when importable",
    ],
}
