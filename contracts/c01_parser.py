"""C01, parser half: every Parser.parse_* method and the TokenStream methods, run from their real source over an
abstract token stream.

Model (helper contracts, from the code; the top-level postconditions come from the property statement):
  * `stream.current` is an abstract Token (symbolic lineno / type / value); a token's successor obeys the lexer's
    token-order fact (C01.tokeniter.states): after data / variable_end / block_end comes data, variable_begin,
    block_begin or eof.
  * TokenStream methods are abstract callees with the contracts proved on their real bodies in C01.stream.*:
    they return the documented token or raise TemplateSyntaxError (their own, or the lexer's through the iterator).
  * recursive parse_* calls go through abstract contracts: a node of the declared class (or the declared tuple /
    list), the stream advanced to an arbitrary token, or a TemplateSyntaxError.
  * node constructors run the real Node.__init__ (a wrong number of fields is a TypeError and fails the obligation).
  * while loops are summarised automatically: one concrete first iteration, then a generic iteration from a state in
    which everything the loop assigns / writes is replaced by an arbitrary value of the same shape (type invariant);
    the shape is checked to be stable.
"""
from __future__ import annotations

import ast
import inspect
import itertools
import time
import types
import typing

import z3

from pyvc.contract import Task, Res, FnTask, VC, Outcome
from pyvc.values import (State, Sym, Ref, HObj, HList, HDict, HSet, HIter, SSeq, Exc, Event, Unsupported, CheckerError, sym, fresh,
                         fresh_name, BoundMethod, Closure, fresh_arr)
from pyvc.interp import Raised, Frame, Ctl, OK
from pyvc.smt import check_sat, to_term, model_value, feasible
from pyvc.stmts import LoopSpec
from pyvc.ops import attr_fn
from pyvc import abstract as A, extract, models

import jinja2
import jinja2.lexer as L
import jinja2.nodes as N
import jinja2.parser as P
from jinja2.exceptions import TemplateSyntaxError, TemplateAssertionError

from pyvc import emit as _emit  # noqa: F401  (its HObj.copy patch must be installed before ours wraps it)
from contracts.c01_lexer import install_builtins

PROP = "C01"
OUTSIDE = ("data", "variable_begin", "block_begin", "eof")
AFTER_OUTSIDE = ("data", "variable_end", "block_end", "initial")


class _AbsIter:
    """opaque iterable (map / generator expression over an abstract sequence)"""
    is_abstract_iterable = True

    def __init__(self, desc="iter"):
        self.desc = desc


class _OpaqueSet:
    pass


class _ExtMap:
    pass


def type_in(t, names):
    return z3.Or(*[t == z3.StringVal(n) for n in names])


# ------------------------------------------------------------------------------------------------
# abstract tokens / stream / parser
# ------------------------------------------------------------------------------------------------

def fresh_token(st, path="tok", after=None):
    """a new abstract Token; `after` = the token that precedes it in lexer order (token-order fact)"""
    h = HObj(L.Token, fields={"lineno": fresh(path + ".lineno", "int"), "type": fresh(path + ".type", "str"),
                              "value": fresh(path + ".value", "str")}, path=path)
    r = st.alloc(h)
    st.assume(h.fields["lineno"].t >= 1)
    if after is not None:
        a = st.get(after).fields["type"]
        st.assume(z3.Implies(type_in(to_term(a, "str"), AFTER_OUTSIDE), type_in(h.fields["type"].t, OUTSIDE)))
    st.ghost = dict(st.ghost)
    st.ghost["tokens"] = list(st.ghost.get("tokens", [])) + [r]
    return r


def tok_fields(st, ref):
    return st.get(ref).fields


def token_test_term(type_v, value_v, expr):
    """Token.test as a term (helper contract, checked against the real method in C01.Token.test):
    type == expr, or expr == 'type:value'"""
    t = to_term(type_v, "str")
    if isinstance(expr, Sym) and expr.k == "str" and z3.is_app(expr.t) and expr.t.decl().kind() == z3.Z3_OP_SEQ_CONCAT:
        # "<literal with a colon>" + rest: str.split(":", 1) cuts at the literal's first colon
        ch = expr.t.children()
        if z3.is_string_value(ch[0]) and ":" in ch[0].as_string():
            a, b0 = ch[0].as_string().split(":", 1)
            rest = ch[1:] if len(ch) > 2 else [ch[1]]
            parts = ([z3.StringVal(b0)] if b0 else []) + list(rest)
            b = z3.Concat(*parts) if len(parts) > 1 else parts[0]
            return z3.Or(t == expr.t, z3.And(t == z3.StringVal(a), to_term(value_v, "str") == b))
    if not isinstance(expr, str):
        return None
    c = t == z3.StringVal(expr)
    if ":" in expr:
        a, b = expr.split(":", 1)
        c = z3.Or(c, z3.And(t == z3.StringVal(a), to_term(value_v, "str") == z3.StringVal(b)))
    return c


class World:
    """abstract Parser + TokenStream for one run"""

    def __init__(self, st, first_after_outside=False):
        self.stream = st.alloc(HObj(L.TokenStream, fields={"name": sym("stream_name", "obj"), "filename": sym("stream_filename", "obj"),
                                                           "_peek": None}, path="stream"), initial=True)
        cur = fresh_token(st, "cur")
        st.get(self.stream).fields["current"] = cur
        self.first = cur
        self.tag_stack = A.alist(st, "tag_stack", "str")
        self.end_stack = A.alist(st, "end_token_stack", "obj")
        self.extmap = st.alloc(HObj(_ExtMap, path="extensions"), initial=True)
        self.env = sym("environment", "obj")
        self.parser = st.alloc(HObj(P.Parser, fields={
            "stream": self.stream, "environment": self.env, "name": sym("template_name", "obj"), "filename": sym("template_filename", "obj"),
            "closed": False, "extensions": self.extmap, "_last_identifier": sym("last_identifier", "int"),
            "_tag_stack": self.tag_stack, "_end_token_stack": self.end_stack}, path="self"), initial=True)
        self.tag_n0 = st.get(self.tag_stack).n
        self.end_n0 = st.get(self.end_stack).n


def abstract_node(st, cls, path="node", ident_name=False):
    """result of an abstract parse_* callee: some instance of (a subclass of) cls"""
    lazy = {"lineno": lambda s, p: fresh(p, "int")}
    for f in getattr(cls, "fields", ()):
        lazy.setdefault(f, lambda s, p: fresh(p, "obj"))
    if "name" in getattr(cls, "fields", ()):
        lazy["name"] = lambda s, p: fresh(p, "str", tags={"ident_token"})
    h = HObj(cls, lazy=lazy, path=path, open=True)
    h.abstract_node = True
    h.plain_setattr = True
    return st.alloc(h)


_hobj_copy0 = HObj.copy


def _copy_hobj(self):
    o = _hobj_copy0(self)
    for a in ("abstract_node", "plain_setattr", "node_kind", "generic", "isinst"):
        if hasattr(self, a) and not hasattr(o, a):
            setattr(o, a, getattr(self, a))
    return o


HObj.copy = _copy_hobj


# ------------------------------------------------------------------------------------------------
# declared results of the parse_* methods (from the annotations of the live functions)
# ------------------------------------------------------------------------------------------------

def _join(classes):
    classes = [c for c in classes if inspect.isclass(c)]
    if not classes:
        return None
    for k in classes[0].__mro__:
        if all(issubclass(c, k) for c in classes):
            return k
    return object


def declared(ann):
    """annotation -> ('node', cls) | ('list',) | ('none',) | ('optnode', cls) | ('tuple', [..]) | ('node_or_list', cls) | ('noreturn',) | ('bool',)"""
    if ann is None or ann is type(None):
        return ("none",)
    if isinstance(ann, str):
        if "NoReturn" in ann:
            return ("noreturn",)
        raise Unsupported(f"string annotation {ann!r}")
    if isinstance(ann, typing.TypeVar):
        cons = ann.__constraints__ or ((ann.__bound__,) if ann.__bound__ else ())
        return ("node", _join(cons))
    if ann is bool:
        return ("bool",)
    origin = typing.get_origin(ann)
    args = typing.get_args(ann)
    if origin is list:
        return ("list",)
    if origin is tuple:
        return ("tuple", [declared(a) for a in args])
    if origin is typing.Union or isinstance(ann, types.UnionType):
        parts = [declared(a) for a in args]
        kinds = {p[0] for p in parts}
        nodes_ = [p[1] for p in parts if p[0] == "node"]
        if kinds == {"node"}:
            return ("node", _join(nodes_))
        if kinds == {"node", "none"}:
            return ("optnode", _join(nodes_))
        if kinds == {"node", "list"}:
            return ("node_or_list", _join(nodes_))
        raise Unsupported(f"union annotation {ann!r}")
    if inspect.isclass(ann) and issubclass(ann, N.Node):
        return ("node", ann)
    raise Unsupported(f"annotation {ann!r}")


def parse_methods():
    out = []
    for name, fn in vars(P.Parser).items():
        if name.startswith("parse") and isinstance(fn, types.FunctionType):
            out.append(name)
    return sorted(out)


def declared_result(name):
    fn = vars(P.Parser)[name]
    return declared(fn.__annotations__.get("return"))


# effects of callees on their node argument (helper contracts; established by the callee's own obligation)
CALLEE_EFFECTS = {
    "parse_import_context": {"returns_arg": 1, "sets": {"with_context": "bool"}},
    "parse_signature": {"sets": {"args": "list", "defaults": "list"}},
}


def materialise_decl(st, d, path):
    """-> list of (state, value) for a declared result"""
    k = d[0]
    if k == "node":
        return [(st, abstract_node(st, d[1], path))]
    if k == "list":
        return [(st, A.alist(st, path, "obj"))]
    if k == "none":
        return [(st, None)]
    if k == "bool":
        return [(st, fresh(path, "bool"))]
    if k == "optnode":
        s2 = st.fork()
        return [(st, None), (s2, abstract_node(s2, d[1], path))]
    if k == "node_or_list":
        s2 = st.fork()
        return [(st, abstract_node(st, d[1], path)), (s2, A.alist(s2, path, "obj"))]
    if k == "tuple":
        vals = []
        for i, sub in enumerate(d[1]):
            if sub[0] == "optnode":
                vals.append(fresh(f"{path}[{i}]", "obj"))  # None or a node: `is None` stays symbolic
            else:
                r = materialise_decl(st, sub, f"{path}[{i}]")
                vals.append(r[0][1])
        return [(st, tuple(vals))]
    raise Unsupported(f"declared result {d!r}")


def advance_stream(st, w_stream, unconstrained=True):
    """callee effect on the stream: an arbitrary current token, nothing pushed back"""
    h = st.get(w_stream)
    h.fields["current"] = fresh_token(st, "cur")
    h.fields["_peek"] = None
    st.written.add((w_stream.id, "current"))


def tse(name, node, st):
    e = Exc(None, (), tag=f"{name}#{len(st.trace)}", within=TemplateSyntaxError, origin=getattr(node, "lineno", None))
    e.from_call = name
    return Raised(e)


# ------------------------------------------------------------------------------------------------
# interpreter configuration
# ------------------------------------------------------------------------------------------------

def install(I, world_of, abstract_stream=True, abstract_parse=True, target=None, summarise_loops=True):
    """world_of(): the World of the current run (set by the VC's setup)"""
    install_builtins(I)
    I.inline.add("jinja2.parser:Parser.fail")
    I.inline.add("jinja2.parser:Parser.fail_eof")
    I.inline.add("jinja2.parser:Parser.fail_unknown_tag")
    I.inline.add("jinja2.parser:Parser.is_tuple_end")
    I.inline.add("jinja2.nodes:Node.__init__")
    I.inline.add("jinja2.lexer:TokenStream.push")
    I.inline.add("jinja2.lexer:TokenStream.close")

    # ---- tokens
    def token_new(I_, st, args, kwargs, node):
        if len(args) != 3 or kwargs:
            return [(st, Raised(Exc(TypeError, ("Token() takes lineno, type, value",), origin=getattr(node, "lineno", None))))]
        r = st.alloc(HObj(L.Token, fields={"lineno": args[0], "type": args[1], "value": args[2]}, path="token"))
        return [(st, r)]

    I.specs[("fn", id(L.Token))] = token_new

    def token_test(I_, st, args, kwargs, node):
        f = st.get(args[0]).fields
        expr = args[1]
        c = token_test_term(f["type"], f["value"], expr)
        if c is None:
            # a non-string expression: the real method compares a str with it (False) and looks for ':' in it
            try:
                has_colon = ":" in expr
            except TypeError:
                return [(st, Raised(Exc(TypeError, ("argument of this type is not iterable",), origin=getattr(node, "lineno", None))))]
            if has_colon:
                return [(st, Raised(Exc(AttributeError, ("no attribute 'split'",), origin=getattr(node, "lineno", None))))]
            return [(st, False)]
        return [(st, Sym(c, "bool"))]

    def token_test_any(I_, st, args, kwargs, node):
        acc = []
        for e in args[1:]:
            rs = token_test(I_, st, [args[0], e], {}, node)
            v = rs[0][1]
            if isinstance(v, Raised):
                return rs
            acc.append(to_term(v, "bool"))
        return [(st, Sym(z3.Or(*acc) if acc else z3.BoolVal(False), "bool"))]

    I.specs["Token.test"] = token_test
    I.specs["Token.test_any"] = token_test_any
    I.specs[("fn", id(L.describe_token))] = A.abstract_fn("describe_token", returns="str")
    I.specs[("fn", id(L.describe_token_expr))] = A.abstract_fn("describe_token_expr", returns="str")
    I.specs["jinja2.lexer:describe_token"] = I.specs[("fn", id(L.describe_token))]
    I.specs["jinja2.lexer:describe_token_expr"] = I.specs[("fn", id(L.describe_token_expr))]

    # ---- stream (abstract callee contracts; proved on the real bodies by StreamVC)
    def s_next(I_, st, args, kwargs, node, name="TokenStream.__next__"):
        stream = args[0]
        out = []
        s_err = st.fork()
        s_err.trace.append(Event("call", name, [stream], {}, "raise"))
        out.append((s_err, tse("lexer", node, s_err)))
        h = st.get(stream)
        old = h.fields["current"]
        pk = h.fields.get("_peek")
        if pk is not None:
            new = pk
        else:
            new = fresh_token(st, "cur", after=old)
        # at eof the stream stays at eof (documented: "until the eof token is reached")
        ot = to_term(st.get(old).fields["type"], "str")
        st.assume(z3.Implies(ot == z3.StringVal("eof"), to_term(st.get(new).fields["type"], "str") == z3.StringVal("eof")))
        h.fields["current"] = new
        h.fields["_peek"] = None
        st.written.add((stream.id, "current"))
        st.ghost = dict(st.ghost)
        st.ghost["consumed"] = list(st.ghost.get("consumed", [])) + [old]
        st.trace.append(Event("call", name, [stream], {}, old))
        out.append((st, old))
        return out

    def s_test_fork(I_, st, stream, expr, node):
        f = st.get(st.get(stream).fields["current"]).fields
        c = token_test_term(f["type"], f["value"], expr)
        if c is None:
            raise Unsupported("token expression is not a constant string", node)
        return I_.fork_bool(st, c)

    def s_expect(I_, st, args, kwargs, node):
        stream, expr = args[0], args[1]
        out = []
        for s, b in s_test_fork(I_, st, stream, expr, node):
            if b:
                out += s_next(I_, s, [stream], {}, node, "TokenStream.expect")
            else:
                s.trace.append(Event("call", "TokenStream.expect", [stream, expr], {}, "raise"))
                out.append((s, tse("expect", node, s)))
        return out

    def s_next_if(I_, st, args, kwargs, node):
        stream, expr = args[0], args[1]
        out = []
        for s, b in s_test_fork(I_, st, stream, expr, node):
            out += s_next(I_, s, [stream], {}, node, "TokenStream.next_if") if b else [(s, None)]
        return out

    def s_skip_if(I_, st, args, kwargs, node):
        out = []
        for s, v in s_next_if(I_, st, args, kwargs, node):
            out.append((s, v if isinstance(v, Raised) else (v is not None)))
        return out

    def s_look(I_, st, args, kwargs, node):
        stream = args[0]
        s_err = st.fork()
        out = [(s_err, tse("lexer", node, s_err))]
        h = st.get(stream)
        if h.fields.get("_peek") is None:
            h.fields["_peek"] = fresh_token(st, "peek", after=h.fields["current"])
            ot = to_term(st.get(h.fields["current"]).fields["type"], "str")
            st.assume(z3.Implies(ot == z3.StringVal("eof"), to_term(st.get(h.fields["_peek"]).fields["type"], "str") == z3.StringVal("eof")))
        out.append((st, h.fields["_peek"]))
        return out

    def s_skip(I_, st, args, kwargs, node):
        n = args[1] if len(args) > 1 else kwargs.get("n", 1)
        if not isinstance(n, int):
            raise Unsupported("TokenStream.skip with a symbolic count", node)
        results = [(st, None)]
        for _ in range(n):
            nxt = []
            for s, v in results:
                if isinstance(v, Raised):
                    nxt.append((s, v))
                else:
                    nxt += [(s2, v2 if isinstance(v2, Raised) else None) for s2, v2 in s_next(I_, s, [args[0]], {}, node, "TokenStream.skip")]
            results = nxt
        return results

    def s_bool(I_, st, args, kwargs, node):
        h = st.get(args[0])
        if h.fields.get("_peek") is not None:
            return [(st, True)]
        t = to_term(st.get(h.fields["current"]).fields["type"], "str")
        return [(st, Sym(t != z3.StringVal("eof"), "bool"))]

    if abstract_stream:
        I.specs["TokenStream.__next__"] = s_next
        I.specs["TokenStream.expect"] = s_expect
        I.specs["TokenStream.next_if"] = s_next_if
        I.specs["TokenStream.skip_if"] = s_skip_if
        I.specs["TokenStream.look"] = s_look
        I.specs["TokenStream.skip"] = s_skip
        I.specs["TokenStream.__bool__"] = s_bool

    def next_obj(I_, st, args, kwargs, node):
        it = args[0]
        if isinstance(it, Ref) and isinstance(st.get(it), HObj) and st.get(it).cls is L.TokenStream:
            return I_.call_method(st, it, "__next__", [], {}, node)
        if isinstance(it, tuple):
            if it:
                return [(st, it[0])]
            return [(st, Raised(Exc(StopIteration, (), origin=getattr(node, "lineno", None))))]
        if isinstance(it, Sym) and "token_iter" in it.tags:
            # the lexer's generator (Lexer.wrap over Lexer.tokeniter): a Token, StopIteration, or TemplateSyntaxError
            # (C01.tokeniter.raises / C01.wrap.raises)
            s1, s2 = st.fork(), st.fork()
            w = world_of()
            tok = fresh_token(st, "lexed", after=st.get(w.stream).fields.get("current") if w else None)
            return [(s1, Raised(Exc(StopIteration, (), origin=getattr(node, "lineno", None)))), (s2, tse("lexer", node, s2)), (st, tok)]
        return None

    I.specs["next_obj"] = next_obj

    # ---- parse_* callees
    def parse_callee(name):
        d = declared_result(name)

        def h(I_, st, args, kwargs, node):
            w = world_of()
            out = []
            s_err = st.fork()
            s_err.trace.append(Event("call", f"Parser.{name}", args[1:], kwargs, "raise"))
            out.append((s_err, tse(f"Parser.{name}", node, s_err)))
            if name == "subparse":
                # precondition of subparse: the current token is one the lexer produces outside a tag
                t = to_term(st.get(st.get(w.stream).fields["current"]).fields["type"], "str")
                I_.obligations.append(("call.subparse.requires_outside_token", list(st.pc), type_in(t, OUTSIDE), getattr(node, "lineno", None)))
                I_.obligations.append(("call.subparse.requires_nothing_pushed", list(st.pc), z3.BoolVal(st.get(w.stream).fields.get("_peek") is None), getattr(node, "lineno", None)))
            advance_stream(st, w.stream)
            eff = CALLEE_EFFECTS.get(name, {})
            for s, v in materialise_decl(st, d, f"{name}()"):
                if eff.get("sets"):
                    tgt = args[1]
                    for fld, kind in eff["sets"].items():
                        val = A.alist(s, f"{name}.{fld}", "obj") if kind == "list" else fresh(f"{name}.{fld}", kind)
                        s.get(tgt).fields[fld] = val
                        s.written.add((tgt.id, fld))
                if "returns_arg" in eff:
                    v = args[eff["returns_arg"]]
                if name == "parse_assign_target" and kwargs.get("name_only") is True:
                    v = abstract_node(s, N.Name, "parse_assign_target(name_only)")
                s.trace.append(Event("call", f"Parser.{name}", args[1:], kwargs, v))
                out.append((s, v))
            return out
        return h

    if abstract_parse:
        for name in parse_methods():
            I.specs[f"Parser.{name}"] = parse_callee(name)
        I.specs["Parser.subparse"] = parse_callee("subparse")

        def fail_ut_eof(I_, st, args, kwargs, node):
            st.trace.append(Event("call", "Parser._fail_ut_eof", args[1:], kwargs, "raise"))
            return [(st, tse("Parser._fail_ut_eof", node, st))]

        I.specs["Parser._fail_ut_eof"] = fail_ut_eof

    # ---- extensions (gap: their own parse methods are outside this contract)
    def ext_get(I_, st, args, kwargs, node):
        s2 = st.fork()
        return [(st, None), (s2, fresh("ext_parse", "obj", tags={"ext_parse"}))]

    I.specs["_ExtMap.get"] = ext_get

    def call_obj(I_, st, args, kwargs, node):
        fn = args[0]
        if isinstance(fn, Sym) and "ext_parse" in fn.tags:
            w = world_of()
            s_err = st.fork()
            out = [(s_err, tse("extension.parse", node, s_err))]
            advance_stream(st, w.stream)
            out += materialise_decl(st, ("node_or_list", N.Node), "ext()")
            return out
        return None

    I.specs["call_obj"] = call_obj

    # ---- nodes
    # nodes.py helpers used by the parser (total on well-formed trees; their own contracts are C02/C08 territory)
    for cls in [c for c in vars(N).values() if inspect.isclass(c) and issubclass(c, N.Node)]:
        if "set_ctx" in vars(cls):
            I.specs[f"{cls.__name__}.set_ctx"] = lambda I_, st, args, kwargs, node: [(st, args[0])]
        if "can_assign" in vars(cls):
            I.specs[f"{cls.__name__}.can_assign"] = lambda I_, st, args, kwargs, node: [(st, fresh("can_assign", "bool"))]
        if "set_environment" in vars(cls):
            I.specs[f"{cls.__name__}.set_environment"] = lambda I_, st, args, kwargs, node: [(st, args[0])]

    def setattr_spec(I_, st, args, kwargs, node):
        o, name, v = args
        if not isinstance(name, str):
            raise Unsupported("setattr with a symbolic name", node)
        return I_.setattr(st, o, name, v, node)

    I.specs[("fn", id(setattr))] = setattr_spec
    install_unicodedata(I)

    def zip_kw(I_, st, args, kwargs, node):
        cols = [I_.iter_concrete(st, a, node) for a in args]
        return [(st, tuple(zip(*cols)))]

    I.specs[("fn", id(zip))] = zip_kw

    base_isinstance = I.specs[("fn", id(isinstance))]

    def isinstance_spec(I_, st, args, kwargs, node):
        v, classes = args
        if isinstance(v, Ref) and isinstance(st.get(v), HObj) and getattr(st.get(v), "abstract_node", False):
            h = st.get(v)
            cl = classes if isinstance(classes, tuple) else (classes,)
            if any(issubclass(h.cls, c) for c in cl):
                return [(st, True)]
            if not any(inspect.isclass(c) and issubclass(c, h.cls) for c in cl):
                return [(st, False)]
            key = "isinst:" + ",".join(c.__name__ for c in cl)
            if key not in h.fields:
                h.fields[key] = fresh(f"{h.path}.isinstance({key})", "bool")
            return [(st, h.fields[key])]
        return base_isinstance(I_, st, args, kwargs, node)

    I.specs[("fn", id(isinstance))] = isinstance_spec

    # ---- opaque values: attribute reads give opaque values; nothing else is allowed on them
    def getattr_obj(I_, st, args, kwargs, node):
        o, name = args
        if "ext_parse" in o.tags:
            return None
        return [(st, Sym(attr_fn(name)(o.t), "obj"))]

    I.specs["getattr_obj"] = getattr_obj

    def comp_abstract(I_, e, g, st, cfr, itv, elt_fn):
        return [(st, _AbsIter(ast.unparse(e)[:60]))]

    I.specs["comp_abstract"] = comp_abstract

    def anyall(name):
        def h(I_, st, args, kwargs, node):
            a = args[0]
            if isinstance(a, _AbsIter):
                return [(st, fresh(name, "bool"))]
            items = I_.iter_concrete(st, a, node)
            ts = []
            for x in items:
                t = I_.truth_term(st, x)
                if t is None:
                    raise Unsupported(f"{name}() element needs a call", node)
                ts.append(z3.BoolVal(t) if isinstance(t, bool) else t)
            if not ts:
                return [(st, name == "all")]
            return [(st, Sym(z3.simplify((z3.Or if name == "any" else z3.And)(*ts)), "bool"))]
        return h

    I.specs[("fn", id(any))] = anyall("any")
    I.specs[("fn", id(all))] = anyall("all")
    I.specs[("fn", id(map))] = lambda I_, st, args, kwargs, node: [(st, _AbsIter("map"))]
    I.specs["join_abstract"] = lambda I_, st, args, kwargs, node: [(st, fresh("joined", "str"))]
    I.specs["str.join"] = lambda I_, st, args, kwargs, node: [(st, fresh("joined", "str"))]

    def set_new(I_, st, args, kwargs, node):
        if args:
            return None
        return [(st, st.alloc(HObj(_OpaqueSet, path="set")))]

    I.specs[("fn", id(set))] = lambda I_, st, args, kwargs, node: set_new(I_, st, args, kwargs, node) or models.instantiate(I_, st, set, args, kwargs, node)
    I.specs["_OpaqueSet.update"] = lambda I_, st, args, kwargs, node: [(st, None)]
    I.specs["_OpaqueSet.add"] = lambda I_, st, args, kwargs, node: [(st, None)]
    I.specs["_OpaqueSet.__contains__"] = lambda I_, st, args, kwargs, node: [(st, fresh("in_set", "bool"))]

    # ---- getattr(self, f"parse_{...}")
    def getattr_dyn(I_, st, args, kwargs, node):
        o, name = args[0], args[1]
        if not (isinstance(name, Sym) and name.k == "str" and isinstance(o, Ref)):
            return None
        cls = st.get(o).cls
        cands = sorted({a for a in dir(cls) if a.startswith("parse")} | {"parse_" + k for k in P._statement_keywords})
        out = []
        for c in cands:
            s = st.fork()
            s.assume(name.t == z3.StringVal(c))
            if feasible(s.pc, I_.feas_timeout):
                if hasattr(cls, c):
                    out.append((s, BoundMethod(o, c)))
                else:
                    out.append((s, Raised(Exc(AttributeError, (f"no attribute {c!r}",), origin=getattr(node, "lineno", None)))))
        st.assume(*[name.t != z3.StringVal(c) for c in cands])
        if feasible(st.pc, I_.feas_timeout):
            if len(args) > 2:
                out.append((st, args[2]))
            else:
                out.append((st, Raised(Exc(AttributeError, ("no such attribute",), origin=getattr(node, "lineno", None)))))
        return out

    I.specs["getattr_dyn"] = getattr_dyn
    I.loops[("Parser.parse_block", 0)] = LoopSpec(lambda ctx: [], havoc={"output_node": "obj"}, name="required_block_loop")
    I.loops[("Parser._fail_ut_eof", 0)] = LoopSpec(lambda ctx: [], havoc={}, name="expected_loop")
    if summarise_loops:
        install_while(I)

    def for_abstract(I_, n, st, fr, itv):
        """`for x in <abstract list>` whose body neither assigns a local nor writes the heap: the body is run once on a
        generic element (its abrupt exits are kept); the loop then ends in the entry state"""
        if (fr.qualname, I_.loop_ordinal(fr, n)) in I_.loops:
            return None
        if not (isinstance(itv, Ref) and isinstance(st.get(itv), HList) and not st.get(itv).concrete) and not (isinstance(itv, Sym) and itv.k == "obj"):
            return None
        targets = {x.id for x in ast.walk(n.target) if isinstance(x, ast.Name)}
        comp_vars = set()
        for sub in ast.walk(n):
            if isinstance(sub, ast.comprehension):
                comp_vars |= {x.id for x in ast.walk(sub.target) if isinstance(x, ast.Name)}
        if _assigned_names(n) - targets - comp_vars:
            raise Unsupported("for loop over an abstract sequence assigns locals", n)
        out = []
        s1 = st.fork()
        if isinstance(itv, Ref):
            s1.assume(s1.get(itv).n > 0)
        elem = fresh("elem", "obj")
        for s2, r in I_.assign(n.target, elem, s1, fr):
            if isinstance(r, Raised):
                out.append((s2, Ctl("raise", r.exc)))
                continue
            for s3, c in I_.exec_block(n.body, s2, fr):
                if c.kind in ("ok", "continue"):
                    if s3.written != st.written:
                        raise Unsupported("for loop over an abstract sequence writes the heap", n)
                elif c.kind == "break":
                    out.append((s3, OK))
                else:
                    out.append((s3, c))
        out.extend(I_.exec_block(n.orelse, st, fr) if n.orelse else [(st, OK)])
        return out

    I.specs["for_abstract"] = for_abstract


# ------------------------------------------------------------------------------------------------
# automatic while-loop summaries (type invariants)
# ------------------------------------------------------------------------------------------------
# shape lattice:  ("int",) ("bool",) ("str",) ("none",) ("opaque",) ("list",) ("dict",) ("token",)
#                 ("obj", cls, frozenset(fields), abstract) ("same", value)   (an unchanged host/closure value)

EXTRA_INV = {}  # (qualname, ordinal) -> fn(I, st, fr) -> list of z3 Bool  (relational facts the shape domain cannot carry)


def shape_of(st, v, depth=0):
    if v is None:
        return ("none",)
    if isinstance(v, bool):
        return ("bool",)
    if isinstance(v, int):
        return ("int",)
    if isinstance(v, str):
        return ("str",)
    if isinstance(v, Sym):
        return {"int": ("int",), "bool": ("bool",), "str": ("str",), "obj": ("opaque",)}[v.k]
    if isinstance(v, Ref):
        h = st.get(v)
        if isinstance(h, HList):
            return ("list",)
        if isinstance(h, HDict):
            return ("dict",)
        if isinstance(h, HObj):
            if h.cls is L.Token:
                return ("token",)
            if depth >= 2:
                return ("opaque",)
            flds = tuple(sorted((k, shape_of(st, x, depth + 1)) for k, x in h.fields.items() if not k.startswith("isinst:")))
            return ("obj", h.cls, flds, bool(getattr(h, "abstract_node", False)))
        return ("same", v)
    if isinstance(v, tuple):
        return ("tuple", tuple(shape_of(st, x, depth + 1) for x in v))
    return ("same", v)


def shape_join(a, b):
    if a == b:
        return a
    if a[0] == "obj" and b[0] == "obj":
        cls = _join([a[1], b[1]])
        if cls in (None, object):
            return ("opaque",)
        fa, fb = dict(a[2]), dict(b[2])
        flds = tuple(sorted((k, shape_join(fa[k], fb[k])) for k in fa if k in fb))
        return ("obj", cls, flds, a[3] or b[3] or a[1] is not b[1])
    if a[0] == "tuple" and b[0] == "tuple" and len(a[1]) == len(b[1]):
        return ("tuple", tuple(shape_join(x, y) for x, y in zip(a[1], b[1])))
    if a[0] == "same" and b[0] == "same":
        va, vb = a[1], b[1]
        try:
            if va is vb or va == vb:
                return a
        except Exception:
            pass
    return ("opaque",)


def shape_le(a, b):
    return shape_join(a, b) == b


def materialise_shape(st, sh, path):
    k = sh[0]
    if k in ("int", "bool", "str"):
        return fresh(path, k)
    if k == "none":
        return None
    if k == "opaque":
        return fresh(path, "obj")
    if k == "list":
        return A.alist(st, path, "obj")
    if k == "token":
        return fresh_token(st, path)
    if k == "tuple":
        return tuple(materialise_shape(st, x, f"{path}[{i}]") for i, x in enumerate(sh[1]))
    if k == "obj":
        cls, flds, abstract = sh[1], sh[2], sh[3]
        if abstract:
            r = abstract_node(st, cls, path)
        else:
            r = st.alloc(HObj(cls, path=path))
            st.get(r).plain_setattr = True
        for fk, fsh in flds:
            st.get(r).fields[fk] = materialise_shape(st, fsh, f"{path}.{fk}")
        return r
    if k == "same":
        return sh[1]
    raise Unsupported(f"shape {sh!r}")


def _assigned_names(n):
    out = set()
    for sub in ast.walk(n):
        if isinstance(sub, ast.Name) and isinstance(sub.ctx, ast.Store):
            out.add(sub.id)
    return out


def install_while(I):
    def run_iter(n, s, fr, heads, exits):
        for s1, tv in I.ev(n.test, s, fr):
            if isinstance(tv, Raised):
                exits.append((s1, Ctl("raise", tv.exc)))
                continue
            for s2, b in I.truth(s1, tv, fr, n):
                if not b:
                    exits.extend(I.exec_block(n.orelse, s2, fr) if n.orelse else [(s2, OK)])
                    continue
                for s3, c in I.exec_block(n.body, s2, fr):
                    if c.kind in ("ok", "continue"):
                        heads.append(s3)
                    elif c.kind == "break":
                        exits.append((s3, OK))
                    else:
                        exits.append((s3, c))

    def st_While(n, st, fr):
        ordinal = I.loop_ordinal(fr, n)
        key = (fr.qualname, ordinal)
        extra = EXTRA_INV.get(key)
        exits = []
        entry = st.fork()
        entry_ids = set(entry.heap)
        if extra:
            for i, c in enumerate(extra(I, st, fr)):
                I.obligations.append((f"loop{ordinal}.inv_entry[{i}]", list(st.pc), c, n.lineno))
        heads1 = []
        run_iter(n, st, fr, heads1, exits)
        if not heads1:
            return exits
        names = sorted(_assigned_names(n))

        def collect(heads, shapes, written):
            for h in heads:
                if extra:
                    for i, c in enumerate(extra(I, h, fr)):
                        I.obligations.append((f"loop{ordinal}.inv_preserved[{i}]", list(h.pc), c, n.lineno))
                # nodes built in an iteration are dropped with the path: their identifier fields are checked here
                ic = ident_condition(h)
                if ic is not None:
                    I.obligations.append((f"loop{ordinal}.identifier_from_name_token", list(h.pc), z3.BoolVal(False) if ic is False else ic, n.lineno))
                loc = h.frames[fr.fid]
                for oid in entry_ids:
                    ho = h.heap.get(oid)
                    if isinstance(ho, HObj) and ho.cls is L.TokenStream:
                        written[(oid, "_peek:" + ("some" if ho.fields.get("_peek") is not None else "none"))] = ("mode",)
                for nm in names:
                    sh = shape_of(h, loc[nm]) if nm in loc else ("unbound",)
                    shapes[nm] = sh if nm not in shapes else shape_join(shapes[nm], sh)
                for (oid, fld) in h.written - entry.written:
                    if oid not in entry_ids:
                        continue
                    ho = h.heap[oid]
                    if isinstance(ho, HObj):
                        if fld == "*":
                            continue
                        sh = shape_of(h, ho.fields[fld]) if fld in ho.fields else ("unbound",)
                        k2 = (oid, fld)
                        written[k2] = sh if k2 not in written else shape_join(written[k2], sh)
                    else:
                        written[(oid, "*")] = ("havoc",)

        shapes, written = {}, {}
        collect(heads1, shapes, written)
        for rnd in range(5):
          heads2, exits2 = [], []
          n_obl = len(I.obligations)
          modes = [m for m in ("none", "some") if any(k[1] == "_peek:" + m for k in written)] or ["none"]
          for mode in modes:
            g = entry.fork()
            loc = g.frames[fr.fid]
            for nm, sh in shapes.items():
                if sh == ("unbound",):
                    loc.pop(nm, None)
                else:
                    loc[nm] = materialise_shape(g, sh, nm)
            for (oid, fld), sh in written.items():
                ho = g.heap[oid]
                if sh == ("mode",):
                    continue
                if isinstance(ho, HList):
                    ho.items, ho.arr, ho.k = None, fresh_arr("havoc_list", "obj"), "obj"
                    ho.n = z3.Int(fresh_name("havoc_n"))
                    g.assume(ho.n >= 0)
                elif isinstance(ho, HDict):
                    raise Unsupported("loop writes a dict", n)
                elif isinstance(ho, HObj):
                    if sh == ("unbound",):
                        ho.fields.pop(fld, None)
                    elif ho.cls is L.TokenStream and fld == "current":
                        ho.fields["current"] = fresh_token(g, "cur")
                        ho.fields["_peek"] = fresh_token(g, "peek", after=ho.fields["current"]) if mode == "some" else None
                    else:
                        ho.fields[fld] = materialise_shape(g, sh, f"{ho.path}.{fld}")
            if extra:
                for c in extra(I, g, fr):
                    g.assume(c)
            run_iter(n, g, fr, heads2, exits2)
          shapes2, written2 = dict(shapes), dict(written)
          collect(heads2, shapes2, written2)
          if shapes2 == shapes and written2 == written:
              return exits + exits2
          # not stable: widen and retry (obligations of the discarded round are dropped)
          del I.obligations[n_obl:]
          shapes, written = shapes2, written2
        raise Unsupported("loop shape did not stabilise", n)

    I.st_While = st_While


# ------------------------------------------------------------------------------------------------
# the contracts
# ------------------------------------------------------------------------------------------------

END_TOKEN_VARIANTS = [("name:endfor", "name:else"), ("name:endset",)]


def _expr_node(st):
    return abstract_node(st, N.Expr, "arg_node")


def arg_variants(method):
    """-> list of (label, builder(st) -> (args, kwargs)) ; boolean flags are symbolic"""
    b = lambda nm: sym(nm, "bool")  # noqa: E731
    if method == "parse_statements":
        return [(f"end={'|'.join(e)}", (lambda st, e=e: ([e], {"drop_needle": b("drop_needle")}))) for e in END_TOKEN_VARIANTS]
    if method == "subparse":
        return [("end=None", lambda st: ([None], {}))] + [(f"end={'|'.join(e)}", (lambda st, e=e: ([e], {}))) for e in END_TOKEN_VARIANTS]
    if method == "parse_import_context":
        def mk(st):
            r = st.alloc(HObj(N.Include, fields={"lineno": sym("node_lineno", "int")}, path="node"), initial=True)
            st.get(r).plain_setattr = True
            return [r, b("default")], {}
        return [("", mk)]
    if method == "parse_signature":
        def mk(st):
            r = st.alloc(HObj(N.Macro, fields={"lineno": sym("node_lineno", "int")}, path="node"), initial=True)
            st.get(r).plain_setattr = True
            return [r], {}
        return [("", mk)]
    if method == "parse_assign_target":
        return [(f"extra_end_rules={e}", (lambda st, e=e: ([], {"with_tuple": b("with_tuple"), "name_only": b("name_only"), "extra_end_rules": e,
                                                                  "with_namespace": b("with_namespace")}))) for e in (None, ("name:in",))]
    if method == "parse_expression":
        return [("", lambda st: ([], {"with_condexpr": b("with_condexpr")}))]
    if method == "parse_unary":
        return [("", lambda st: ([], {"with_filter": b("with_filter")}))]
    if method == "parse_primary":
        return [("", lambda st: ([], {"with_namespace": b("with_namespace")}))]
    if method == "parse_tuple":
        return [(f"extra_end_rules={e}", (lambda st, e=e: ([], {"simplified": b("simplified"), "with_condexpr": b("with_condexpr"), "extra_end_rules": e,
                                                                  "explicit_parentheses": b("explicit_parentheses"), "with_namespace": b("with_namespace")})))
                for e in (None, ("name:in",), ("name:recursive",))]
    if method in ("parse_postfix", "parse_filter_expr", "parse_subscript", "parse_call", "parse_test"):
        return [("", lambda st: ([_expr_node(st)], {}))]
    if method == "parse_filter":
        return [("node=None", lambda st: ([None], {"start_inline": b("start_inline")})),
                ("node=expr", lambda st: ([_expr_node(st)], {"start_inline": b("start_inline")}))]
    if method == "is_tuple_end":
        return [(f"extra={e}", (lambda st, e=e: ([e], {}))) for e in (None, ("name:in",))]
    if method == "fail":
        return [("lineno=None", lambda st: ([sym("msg", "str"), None], {})),
                ("lineno=int", lambda st: ([sym("msg", "str"), sym("lineno", "int")], {})),
                ("exc=TemplateAssertionError", lambda st: ([sym("msg", "str"), sym("lineno", "int")], {"exc": TemplateAssertionError}))]
    if method == "_fail_ut_eof":
        def mk(name_none):
            def f(st):
                stack = A.alist(st, "end_token_stack_arg", "obj")
                return [None if name_none else sym("tag_name", "str"), stack, sym("lineno", "obj")], {}
            return f
        return [("name=None", mk(True)), ("name=str", mk(False))]
    if method == "fail_unknown_tag":
        return [("", lambda st: ([sym("tag_name", "str"), sym("lineno", "obj")], {}))]
    if method == "fail_eof":
        return [("end_tokens=None", lambda st: ([None, sym("lineno", "obj")], {})),
                ("end_tokens=tuple", lambda st: ([("name:endfor",), sym("lineno", "obj")], {}))]
    if method == "free_identifier":
        return [("", lambda st: ([sym("lineno", "obj")], {}))]
    return [("", lambda st: ([], {}))]


# fields holding identifiers that the compiler writes raw into the generated source (W3): they must be values of
# `name` tokens (which Lexer.wrap only lets through when value.isidentifier())
IDENT_FIELDS = {N.Keyword: ("key",), N.Block: ("name",), N.Name: ("name",), N.NSRef: ("name", "attr"), N.Macro: ("name",),
                N.Import: ("target",)}

NORETURN = {"fail", "_fail_ut_eof", "fail_unknown_tag", "fail_eof"}


class ParseVC(VC):
    prop = PROP
    timeout_quick = 8000

    def __init__(self, method, label="", builder=None, owner="Parser"):
        self.method = method
        self.label = label
        self.builder = builder or (lambda st: ([], {}))
        self.target = f"jinja2.parser:{owner}.{method}"
        VC.__init__(self, PROP, f"C01.parser.raises.{method}" + (f"[{label}]" if label else ""))
        self.world = None

    def configure(self, I):
        install(I, lambda: self.world)
        if self.method == "_fail_ut_eof":
            I.specs.pop("Parser._fail_ut_eof", None)
        if self.method == "free_identifier":
            def obj_new(I_, st, args, kwargs, node):
                r = st.alloc(HObj(args[0]))
                st.get(r).plain_setattr = True
                return [(st, r)]
            I.specs[("fn", id(object.__new__))] = obj_new
        self.I = I

    def setup(self, I, st):
        self.world = World(st)
        w = self.world
        if self.method in ("subparse", "parse"):
            t = to_term(st.get(w.first).fields["type"], "str")
            st.assume(type_in(t, OUTSIDE))  # requires: a token the lexer produces outside a tag (checked at every call site)
            EXTRA_INV[("Parser.subparse", 0)] = subparse_inv(w)
        args, kwargs = self.builder(st)
        self.args, self.kwargs = args, kwargs
        return [w.parser] + list(args), dict(kwargs)

    # ---- postconditions
    def p_raises(self, pre, out):
        if not out.raised:
            return True
        e = out.value
        cls = e.cls if e.cls is not None else e.within
        if not (inspect.isclass(cls) and issubclass(cls, TemplateSyntaxError)):
            return False
        if self.method == "fail" and e.cls is not None:
            want = self.kwargs.get("exc", TemplateSyntaxError)
            return e.cls is want
        return True

    def p_result(self, pre, out):
        if out.raised:
            return None
        if self.method in NORETURN:
            return False  # declared NoReturn
        if not self.method.startswith("parse") and self.method != "subparse":
            return None
        d = declared_result(self.method)
        return self.matches(out.st, out.value, d)

    def matches(self, st, v, d):
        k = d[0]
        if isinstance(v, Sym) and v.k == "obj":
            return None  # an element of an abstract list: not decidable structurally
        if k == "none":
            return v is None
        if k == "bool":
            return isinstance(v, bool) or (isinstance(v, Sym) and v.k == "bool")
        if k == "list":
            return isinstance(v, Ref) and isinstance(st.get(v), HList)
        if k in ("node", "optnode", "node_or_list"):
            if v is None:
                return k == "optnode"
            if isinstance(v, Ref) and isinstance(st.get(v), HList):
                return k == "node_or_list"
            if not (isinstance(v, Ref) and isinstance(st.get(v), HObj)):
                return False
            h = st.get(v)
            if not inspect.isclass(h.cls):
                return False
            if getattr(h, "abstract_node", False):
                # a callee's result: its declared class must fit (or be a base the callee refines: Expr <-> Expr subclasses)
                return issubclass(h.cls, d[1]) or issubclass(d[1], h.cls)
            return issubclass(h.cls, d[1])
        if k == "tuple":
            if not (isinstance(v, tuple) and len(v) == len(d[1])):
                return False
            rs = [self.matches(st, x, sub) for x, sub in zip(v, d[1])]
            if any(r is False for r in rs):
                return False
            return True
        return None

    def p_fields(self, pre, out):
        """every node constructed here is complete (all class fields set) when the method returns"""
        if out.raised:
            return None
        st = out.st
        missing = []
        for i in sorted(st.allocated):
            h = st.heap[i]
            if isinstance(h, HObj) and inspect.isclass(h.cls) and issubclass(h.cls, N.Node) and not getattr(h, "abstract_node", False):
                for f in h.cls.fields:
                    if f not in h.fields:
                        missing.append(f"{h.cls.__name__}.{f}")
                for a in h.cls.attributes:
                    if a not in h.fields:
                        missing.append(f"{h.cls.__name__}.{a}")
        self.last_missing = missing
        return not missing

    def p_stacks(self, pre, out):
        st, w = out.st, self.world
        return z3.And(st.get(w.tag_stack).n == w.tag_n0, st.get(w.end_stack).n == w.end_n0)

    def p_ident(self, pre, out):
        if out.raised:
            return None
        return ident_condition(out.st)

    def p_effects(self, pre, out):
        eff = CALLEE_EFFECTS.get(self.method)
        if not eff or out.raised:
            return None
        st = out.st
        tgt = self.args[0]
        h = st.get(tgt)
        for fld, kind in eff.get("sets", {}).items():
            v = h.fields.get(fld, "<unset>")
            if kind == "list" and not (isinstance(v, Ref) and isinstance(st.get(v), HList)):
                return False
            if kind == "bool" and not (isinstance(v, bool) or (isinstance(v, Sym) and v.k == "bool")):
                return False
        if "returns_arg" in eff and out.value != tgt:
            return False
        return True

    posts = [("only_TemplateSyntaxError", p_raises), ("result_declared_class", p_result), ("nodes_complete", p_fields),
             ("stacks_balanced", p_stacks), ("identifier_from_name_token", p_ident), ("effects", p_effects)]

    def describe(self, out):
        extra = ""
        if getattr(self, "last_missing", None):
            extra = f" missing fields {self.last_missing[:4]}"
        return f"{self.method}: " + VC.describe(self, out) + extra

    def concretize(self, model, pre, out):
        return {"method": self.method, "variant": self.label, "raises": repr(out.value) if out.raised else None,
                "line": getattr(out.value, "origin", None) if out.raised else None}

    def replay(self, w):
        from contracts.c01_fuzz import native_parse_search
        return native_parse_search(w)

    def finding_key(self, res):
        w = res.witness or {}
        return f"{w.get('method')}:{w.get('raises')}"


def ident_condition(st):
    """every identifier field of a node constructed on this path is the value of a `name` token (None: nothing to check,
    False: a value of unknown origin)"""
    conds = []
    toks = st.ghost.get("tokens", [])
    for i in sorted(st.allocated):
        h = st.heap[i]
        if not (isinstance(h, HObj) and h.cls in IDENT_FIELDS) or getattr(h, "abstract_node", False):
            continue
        for f in IDENT_FIELDS[h.cls]:
            v = h.fields.get(f)
            if v is None and f not in h.fields:
                continue
            if isinstance(v, Sym) and "ident_token" in v.tags:
                continue
            if isinstance(v, str) and v.isidentifier():
                continue
            srcs = [t for t in toks if isinstance(v, Sym) and isinstance(st.get(t).fields["value"], Sym) and st.get(t).fields["value"].t.eq(v.t)]
            if not srcs:
                return False
            conds.append(z3.Or(*[to_term(st.get(t).fields["type"], "str") == z3.StringVal("name") for t in srcs]))
    if not conds:
        return None
    return z3.And(*conds)


def subparse_inv(w):
    def inv(I, st, fr):
        h = st.get(w.stream)
        t = to_term(st.get(h.fields["current"]).fields["type"], "str")
        return [type_in(t, OUTSIDE)]
    return inv


def parser_tasks():
    tasks = []
    names = parse_methods() + ["subparse", "fail", "_fail_ut_eof", "fail_unknown_tag", "fail_eof", "is_tuple_end", "free_identifier"]
    for m in names:
        for label, builder in arg_variants(m):
            tasks.append(ParseVC(m, label, builder))
    return tasks


# ------------------------------------------------------------------------------------------------
# TokenStream methods (real bodies) and the small lexer helpers the parser relies on
# ------------------------------------------------------------------------------------------------

class StreamVC(VC):
    """TokenStream.<method> from its real source; `self._iter` is the lexer's generator (a Token, StopIteration or
    TemplateSyntaxError per C01.tokeniter.raises / C01.wrap.raises), `self._pushed` an arbitrary deque of tokens."""
    prop = PROP

    def __init__(self, method, label="", args=()):
        self.method = method
        self.args0 = list(args)
        self.target = f"jinja2.lexer:TokenStream.{method}"
        VC.__init__(self, PROP, f"C01.stream.{method}" + (f"[{label}]" if label else ""))
        self.world = None

    def configure(self, I):
        install(I, lambda: self.world, abstract_stream=True, abstract_parse=False)
        I.specs.pop(f"TokenStream.{self.method}", None)
        if self.method in ("__next__", "__bool__", "close", "push"):
            for m in ("__next__", "expect", "next_if", "skip_if", "look", "skip", "__bool__"):
                I.specs.pop(f"TokenStream.{m}", None)
        if self.method == "skip_if":
            pass
        I.inline.add("jinja2.lexer:TokenStream.close")
        I.inline.add("jinja2.lexer:TokenStream.push")

    def setup(self, I, st):
        self.world = World(st)
        w = self.world
        h = st.get(w.stream)
        self.pushed = A.alist(st, "pushed", "obj", tag="deque")
        h.fields["_pushed"] = self.pushed
        h.fields["_iter"] = sym("token_iter", "obj", tags={"token_iter"})
        h.fields["closed"] = False
        self.cur0 = h.fields["current"]
        self.pushed_n0 = st.get(self.pushed).n
        return [w.stream] + self.args0, {}

    def p_raises(self, pre, out):
        if not out.raised:
            return True
        e = out.value
        cls = e.cls if e.cls is not None else e.within
        return inspect.isclass(cls) and issubclass(cls, TemplateSyntaxError)

    def p_result(self, pre, out):
        if out.raised:
            return None
        st, w = out.st, self.world
        h = st.get(w.stream)
        m = self.method
        cur0 = st.get(self.cur0).fields
        if m == "__next__":
            if out.value != self.cur0:
                return False
            # at eof with nothing pushed the stream stays where it is
            stays = z3.And(self.pushed_n0 == 0, to_term(cur0["type"], "str") == z3.StringVal("eof"))
            return z3.Implies(stays, z3.BoolVal(h.fields["current"] == self.cur0))
        if m == "expect":
            c = token_test_term(cur0["type"], cur0["value"], self.args0[0])
            return z3.And(c, z3.BoolVal(out.value == self.cur0))
        if m == "next_if":
            c = token_test_term(cur0["type"], cur0["value"], self.args0[0])
            if out.value is None:
                return z3.And(z3.Not(c), z3.BoolVal(h.fields["current"] == self.cur0))
            return z3.And(c, z3.BoolVal(out.value == self.cur0))
        if m == "skip_if":
            c = token_test_term(cur0["type"], cur0["value"], self.args0[0])
            return to_term(out.value, "bool") == c
        if m == "look":
            # current unchanged, the looked-at token is pushed back last
            hp = st.get(h.fields["_pushed"])
            if h.fields["current"] != self.cur0 or not isinstance(out.value, Ref):
                return False
            return z3.And(hp.n >= 1, z3.Select(hp.arr, hp.n - 1) == to_term(out.value, "obj"))
        if m == "__bool__":
            want = z3.Or(self.pushed_n0 > 0, to_term(cur0["type"], "str") != z3.StringVal("eof"))
            return to_term(out.value, "bool") == want
        if m == "skip":
            return out.value is None
        if m == "close":
            f = st.get(h.fields["current"]).fields
            return z3.And(to_term(f["type"], "str") == z3.StringVal("eof"), to_term(f["lineno"], "int") == to_term(cur0["lineno"], "int"),
                          z3.BoolVal(h.fields.get("closed") is True))
        return None

    def p_expect_error(self, pre, out):
        """expect raises its own TemplateSyntaxError exactly when the test fails"""
        if self.method != "expect" or not out.raised:
            return None
        cur0 = out.st.get(self.cur0).fields
        c = token_test_term(cur0["type"], cur0["value"], self.args0[0])
        if out.value.cls is not None:  # raised by expect itself
            return z3.Not(c)
        return c  # abstract exception from the iterator: only on the advancing branch

    posts = [("only_TemplateSyntaxError", p_raises), ("result", p_result), ("expect_error_iff_test_fails", p_expect_error)]

    def concretize(self, model, pre, out):
        return {"method": "TokenStream." + self.method, "raises": repr(out.value) if out.raised else None}

    def replay(self, w):
        from contracts.c01_fuzz import native_parse_search
        return native_parse_search(w)


def stream_tasks():
    ts = [StreamVC("__next__"), StreamVC("__bool__"), StreamVC("close"), StreamVC("look")]
    for e in ("name", "name:in", "block_end"):
        ts += [StreamVC("expect", e, [e]), StreamVC("next_if", e, [e]), StreamVC("skip_if", e, [e])]
    for n in (1, 2, 3):
        ts.append(StreamVC("skip", f"n={n}", [n]))
    return ts


def token_test_table(task, tier, seed):
    """the helper contract used for Token.test / test_any agrees with the real methods (table of tokens x expressions)"""
    rs = []
    toks = [L.Token(1, t, v) for t in ("name", "in", "add", "block_end", "data", "eof", "name:in") for v in ("in", "x", "name", "", "a:b")]
    exprs = ["name", "name:in", "in", "add", "block_end", "name:", "name:a:b", "eof", "x:y:z", ":"]
    bad = []
    for tok in toks:
        for e in exprs:
            c = token_test_term(tok.type, tok.value, e)
            want = z3.is_true(z3.simplify(c))
            if tok.test(e) != want:
                bad.append((tuple(tok), e, tok.test(e), want))
        for combo in (("name", "in"), ("name:in", "name:x"), ()):
            want = any(z3.is_true(z3.simplify(token_test_term(tok.type, tok.value, e))) for e in combo)
            if tok.test_any(*combo) != want:
                bad.append((tuple(tok), combo, tok.test_any(*combo), want))
    # symbolic second argument of parse_block: "name:" + <identifier>
    for nm in ("x", "endblock", "a_b"):
        for tok in toks:
            e = Sym(z3.Concat(z3.StringVal("name:"), z3.StringVal(nm)), "str")
            want = z3.is_true(z3.simplify(token_test_term(tok.type, tok.value, e)))
            if tok.test("name:" + nm) != want:
                bad.append((tuple(tok), "name:" + nm, tok.test("name:" + nm), want))
    rs.append(Res("C01.Token.test.helper_contract", "discharged" if not bad else "refuted", "table", 0,
                  f"{len(toks) * (len(exprs) + 3 + 3)} cases" if not bad else f"Token{bad[0][0]}.test({bad[0][1]!r}) = {bad[0][2]} but the helper contract says {bad[0][3]}",
                  "table", None if not bad else {"token": list(bad[0][0]), "expr": repr(bad[0][1])}))
    return rs


def parser_tables(task, tier, seed):
    rs = []

    def row(name, ok, detail=""):
        rs.append(Res(f"C01.parser.tables.{name}", "discharged" if ok else "refuted", "table", 0, detail, "table", None if ok else {"table": name}))

    for k in sorted(P._statement_keywords):
        row(f"statement_keyword.{k}", callable(getattr(P.Parser, f"parse_{k}", None)), f"Parser.parse_{k} must exist for statement keyword {k!r}")
    # constant arguments of stream.skip(...) / stream.expect(...) / test(...) calls in the parser: only those are covered by the stream contracts
    tree, src, path = extract.module_ast(P)
    consts_ok, detail = True, ""
    for n in ast.walk(tree):
        if isinstance(n, ast.Call) and isinstance(n.func, ast.Attribute) and n.func.attr == "skip" and isinstance(n.func.value, ast.Attribute) and n.func.value.attr == "stream":
            if n.args and not (isinstance(n.args[0], ast.Constant) and n.args[0].value in (1, 2, 3)):
                consts_ok, detail = False, f"stream.skip({ast.unparse(n.args[0])}) at line {n.lineno}"
    row("skip_constants", consts_ok, detail or "every stream.skip(n) in parser.py has a constant n in {1,2,3}")
    for key in sorted(P._math_nodes):
        cls = P._math_nodes[key]
        row(f"math_nodes.{key}", inspect.isclass(cls) and issubclass(cls, N.BinExpr) and len(cls.fields) == 2, f"_math_nodes[{key!r}] = {cls!r}")
    row("compare_operators", all(k in L.operators.values() for k in P._compare_operators), f"{sorted(P._compare_operators)} are operator token types")
    return rs


class HelperVC(VC):
    """describe_token / describe_token_expr / _describe_token_type never raise (they run inside every error path)"""
    prop = PROP

    def __init__(self, fn_name):
        self.fn_name = fn_name
        self.target = f"jinja2.lexer:{fn_name}"
        VC.__init__(self, PROP, f"C01.lexer.{fn_name}.total")

    def configure(self, I):
        install_builtins(I)
        I.inline.add("jinja2.lexer:_describe_token_type")

        def str_split(I_, st, args, kwargs, node):
            s, sep = args[0], args[1]
            if len(args) > 2 and args[2] == 1 and isinstance(sep, str):
                # documented: at most maxsplit+1 pieces; exactly 2 when the separator occurs
                out = []
                for s2, b in I_.fork_bool(st, z3.Contains(to_term(s, "str"), z3.StringVal(sep))):
                    if b:
                        out.append((s2, s2.alloc(HList(items=[fresh("head", "str"), fresh("tail", "str")]))))
                    else:
                        out.append((s2, s2.alloc(HList(items=[s]))))
                return out
            return None

        I.specs["str.split"] = str_split

    def setup(self, I, st):
        if self.fn_name == "describe_token":
            w = World(st)
            return [w.first], {}
        return [sym("expr", "str")], {}

    def p_total(self, pre, out):
        if out.raised:
            return False
        v = out.value
        return isinstance(v, str) or (isinstance(v, Sym) and v.k == "str")

    posts = [("returns_str_never_raises", p_total)]

    def concretize(self, model, pre, out):
        return {"function": self.fn_name}

    def replay(self, w):
        for e in ("name", "name:x", "a:b:c", ":", "", "add", "eof", "x"):
            try:
                if self.fn_name == "describe_token":
                    L.describe_token(L.Token(1, e, "v"))
                else:
                    getattr(L, self.fn_name)(e)
            except Exception as ex:
                return (True, f"{self.fn_name}({e!r}) raised {type(ex).__name__}")
        return (False, "no failing input among the candidates")


# ------------------------------------------------------------------------------------------------
# distinct parameter / keyword names (W1, W2): scripted token streams with symbolic names
# ------------------------------------------------------------------------------------------------

NFKC = z3.Function("unicodedata.normalize[NFKC]", z3.StringSort(), z3.StringSort())


def install_unicodedata(I):
    import unicodedata

    def normalize(I_, st, args, kwargs, node):
        form, s = args
        if form != "NFKC":
            return None
        if isinstance(s, str):
            return [(st, unicodedata.normalize("NFKC", s))]
        models.used("unicodedata.normalize")
        return [(st, Sym(NFKC(to_term(s, "str")), "str", getattr(s, "tags", frozenset())))]

    I.specs[("fn", id(unicodedata.normalize))] = normalize


class DistinctVC(VC):
    """parse_signature / parse_call_args on a token script `( n1 , n2 [, n3] )` resp. `( k1 = e , k2 = e [...] )` whose
    name values are symbolic: the names stored in the node must be pairwise distinct (Python rejects a duplicate
    parameter / keyword in the generated code), or the method must fail with a TemplateSyntaxError.
    Bounded in the NUMBER of names (2 and 3), unbounded in the names."""
    prop = PROP
    kind = "vc"

    def __init__(self, method, n):
        self.method, self.n = method, n
        self.target = f"jinja2.parser:Parser.{method}"
        VC.__init__(self, PROP, f"C01.{method}.distinct[{n} names]")
        self.world = None

    def script(self, st):
        toks = [("lparen", "(")]
        self.names = []
        for i in range(self.n):
            if i:
                toks.append(("comma", ","))
            v = sym(f"name{i}", "str")
            self.names.append(v)
            toks.append(("name", v))
            if self.method == "parse_call_args":
                toks += [("assign", "="), ("integer", "1")]
        toks += [("rparen", ")"), ("block_end", "%}")]
        refs = []
        for i, (t, v) in enumerate(toks):
            refs.append(st.alloc(HObj(L.Token, fields={"lineno": 1, "type": t, "value": v}, path=f"script[{i}]"), initial=True))
        st.ghost = dict(st.ghost)
        st.ghost["tokens"] = list(refs)
        return refs

    def configure(self, I):
        install(I, lambda: self.world, summarise_loops=False)
        c = self

        def s_next(I_, st, args, kwargs, node):
            h = st.get(c.world.stream)
            i = h.fields["_idx"]
            old = h.fields["current"]
            if i + 1 < len(c.toks):
                h.fields["_idx"] = i + 1
                h.fields["current"] = c.toks[i + 1]
            else:
                h.fields["current"] = c.eof
            return [(st, old)]

        def test_now(st, expr):
            f = st.get(st.get(c.world.stream).fields["current"]).fields
            return token_test_term(f["type"], f["value"], expr)

        def s_expect(I_, st, args, kwargs, node):
            out = []
            for s, b in I_.fork_bool(st, test_now(st, args[1])):
                out += s_next(I_, s, args, kwargs, node) if b else [(s, tse("expect", node, s))]
            return out

        def s_next_if(I_, st, args, kwargs, node):
            out = []
            for s, b in I_.fork_bool(st, test_now(st, args[1])):
                out += s_next(I_, s, args, kwargs, node) if b else [(s, None)]
            return out

        def s_skip_if(I_, st, args, kwargs, node):
            return [(s, v is not None) for s, v in s_next_if(I_, st, args, kwargs, node)]

        def s_look(I_, st, args, kwargs, node):
            h = st.get(c.world.stream)
            i = h.fields["_idx"]
            return [(st, c.toks[i + 1] if i + 1 < len(c.toks) else c.eof)]

        def s_skip(I_, st, args, kwargs, node):
            for _ in range(args[1] if len(args) > 1 else 1):
                s_next(I_, st, args, kwargs, node)
            return [(st, None)]

        I.specs["TokenStream.__next__"] = s_next
        I.specs["TokenStream.expect"] = s_expect
        I.specs["TokenStream.next_if"] = s_next_if
        I.specs["TokenStream.skip_if"] = s_skip_if
        I.specs["TokenStream.look"] = s_look
        I.specs["TokenStream.skip"] = s_skip
        # the real parse_assign_target runs (it is what reads the names); parse_expression consumes the one-token value
        I.specs.pop("Parser.parse_assign_target", None)
        I.inline.add("jinja2.parser:Parser.parse_assign_target")
        for cls in (N.Name,):
            I.specs[f"{cls.__name__}.can_assign"] = lambda I_, st, args, kwargs, node: [(st, True)]  # the names are not true/false/none (requires)

        def parse_expression(I_, st, args, kwargs, node):
            s_next(I_, st, [c.world.stream], {}, node)
            return [(st, abstract_node(st, N.Expr, "value"))]

        I.specs["Parser.parse_expression"] = parse_expression

    def setup(self, I, st):
        self.world = World(st)
        w = self.world
        self.toks = self.script(st)
        self.eof = st.alloc(HObj(L.Token, fields={"lineno": 1, "type": "eof", "value": ""}, path="eof"), initial=True)
        h = st.get(w.stream)
        h.fields["current"] = self.toks[0]
        h.fields["_idx"] = 0
        args = []
        if self.method == "parse_signature":
            self.node = st.alloc(HObj(N.Macro, fields={"lineno": 1}, path="node"), initial=True)
            st.get(self.node).plain_setattr = True
            args = [self.node]
        return [w.parser] + args, {}

    def stored_names(self, out):
        st = out.st
        if self.method == "parse_signature":
            lst = st.get(self.node).fields.get("args")
            attr = "name"
        else:
            lst = out.value[1] if isinstance(out.value, tuple) and len(out.value) == 4 else None
            attr = "key"
        if not (isinstance(lst, Ref) and isinstance(st.get(lst), HList) and st.get(lst).concrete):
            return None
        return [st.get(x).fields.get(attr) for x in st.get(lst).items]

    def p_distinct(self, pre, out):
        if out.raised:
            e = out.value
            cls = e.cls if e.cls is not None else e.within
            return inspect.isclass(cls) and issubclass(cls, TemplateSyntaxError)
        names = self.stored_names(out)
        if names is None or len(names) != self.n:
            return False
        # Python compares identifiers after NFKC normalisation (PEP 3131): the generated parameter / keyword names must be
        # distinct as Python identifiers, not only as raw strings
        ts = [NFKC(to_term(x, "str")) for x in names]
        return z3.Distinct(*ts) if len(ts) > 1 else True

    posts = [("distinct_or_TemplateSyntaxError", p_distinct)]

    def concretize(self, model, pre, out):
        vals = [model_value(model, v.t) for v in self.names]
        norm = [str(model.eval(NFKC(v.t), model_completion=True)) for v in self.names]
        canon = {}
        names = [canon.setdefault(v, "abcdegh"[len(canon)]) for v in vals]
        if len(set(vals)) == len(vals):
            # raw strings distinct, normal forms collide: the classic pair U+FB01 (fi ligature) / "fi"
            for i in range(len(vals)):
                for j in range(i + 1, len(vals)):
                    if norm[i] == norm[j]:
                        names[i], names[j] = "\ufb01", "fi"
                        return {"method": self.method, "names": names, "nfkc_collision": True}
        return {"method": self.method, "names": names}

    def replay(self, w):
        return replay_distinct(w)

    def finding_key(self, res):
        w = res.witness or {}
        names = w.get("names") or []
        if w.get("nfkc_collision"):
            return "nfkc-collision"
        return "duplicate-name" if len(set(names)) < len(names) else f"other:{names}"


def replay_distinct(w):
    names = w.get("names") or ["a", "a"]
    env = jinja2.Environment()
    if w.get("method") == "parse_signature":
        srcs = ["{% macro m(" + ", ".join(names) + ") %}{% endmacro %}", "{% call(" + ", ".join(names) + ") f() %}{% endcall %}"]
    else:
        kw = ", ".join(f"{n}=1" for n in names)
        srcs = ["{{ f(" + kw + ") }}", "{{ x|f(" + kw + ") }}", "{{ x is f(" + kw + ") }}"]
    for src in srcs:
        try:
            env.from_string(src)
        except TemplateSyntaxError:
            continue
        except BaseException as ex:  # noqa
            return (True, f"{src} -> {type(ex).__name__}: {ex}")
    return (False, f"{srcs} compile or raise TemplateSyntaxError")


def distinct_tasks():
    return [DistinctVC(m, n) for m in ("parse_signature", "parse_call_args") for n in (2, 3)]


class SliceInTupleVC(DistinctVC):
    """parse_subscript (with the real parse_subscribed) on the token script `[ e : e , e ]`: a Slice node is only
    meaningful directly as the argument of Getitem (the compiler writes it as `a:b`, which is not an expression); it
    must not become an item of a Tuple node, or the method must fail with a TemplateSyntaxError."""

    def __init__(self):
        self.method, self.n = "parse_subscript", 0
        self.target = "jinja2.parser:Parser.parse_subscript"
        VC.__init__(self, PROP, "C01.parse_subscript.slice_not_in_tuple")
        self.world = None

    def script(self, st):
        toks = [("lbracket", "["), ("integer", "1"), ("colon", ":"), ("integer", "2"), ("comma", ","), ("integer", "3"), ("rbracket", "]"),
                ("variable_end", "}}")]
        self.names = []
        refs = [st.alloc(HObj(L.Token, fields={"lineno": 1, "type": t, "value": v}, path=f"script[{i}]"), initial=True) for i, (t, v) in enumerate(toks)]
        st.ghost = dict(st.ghost)
        st.ghost["tokens"] = list(refs)
        return refs

    def configure(self, I):
        DistinctVC.configure(self, I)
        I.specs.pop("Parser.parse_subscribed", None)
        I.inline.add("jinja2.parser:Parser.parse_subscribed")

    def setup(self, I, st):
        args, kwargs = DistinctVC.setup(self, I, st)
        return list(args) + [abstract_node(st, N.Expr, "operand")], kwargs

    def p_no_slice_in_tuple(self, pre, out):
        if out.raised:
            e = out.value
            cls = e.cls if e.cls is not None else e.within
            return inspect.isclass(cls) and issubclass(cls, TemplateSyntaxError)
        st = out.st
        for i in sorted(st.allocated):
            h = st.heap[i]
            if isinstance(h, HObj) and h.cls is N.Tuple:
                items = h.fields.get("items")
                if isinstance(items, Ref) and isinstance(st.get(items), HList) and st.get(items).concrete:
                    for x in st.get(items).items:
                        if isinstance(x, Ref) and isinstance(st.get(x), HObj) and st.get(x).cls is N.Slice:
                            return False
        return True

    posts = [("slice_only_as_direct_subscript", p_no_slice_in_tuple)]

    def concretize(self, model, pre, out):
        return {"source": "{{ x[1:2, 3] }}"}

    def replay(self, w):
        src = w.get("source", "{{ x[1:2, 3] }}")
        try:
            jinja2.Environment().from_string(src)
        except TemplateSyntaxError:
            return (False, f"{src} -> TemplateSyntaxError")
        except BaseException as ex:  # noqa
            return (True, f"{src} -> {type(ex).__name__}: {ex}")
        return (False, f"{src} compiles")

    def finding_key(self, res):
        return "slice-in-tuple-subscript"
