"""C11  Plain text, comments and raw blocks render verbatim.

Proof of mechanism + bounded stand-in (DESIGN section 5, C11):

  C11.preamble         VC on the REAL first statements of Lexer.tokeniter (segment located by AST structure), with
                       `newline_re.split(s)[::2]` = the lines of s as dependency spec: working source = "\\n".join(lines minus the
                       last iff not keep_trailing_newline and last == "").
  C11.newline_re       regex fact: newline_re is one capturing group around \\r\\n | \\r | \\n with \\r\\n tried first.
  C11.plain.one_token  regex facts per configuration: every alternative of the root start rule contains a start string
                       literally; rule 2 is `.+` under DOTALL yielding `data`; so without a start string: one data token.
  C11.wrap.newlines    VC on Lexer.wrap (+ _normalize_newlines inlined): data values are newline_re.sub(newline_sequence, v);
                       comment / line comment / raw_begin / raw_end / whitespace tokens are dropped.
  C11.pipeline.*       Parser.subparse data branch -> TemplateData(value); TemplateData.as_const; visit_TemplateData;
                       visit_Output routing of a TemplateData child (real _output_child_to_const / _output_child_pre/post inlined):
                       emitted as the literal, never through finalize.
  C11.bounded.render   bounded stand-in on the real Environment.
"""
from __future__ import annotations

import ast
import itertools
import time

import z3

from pyvc import extract
from pyvc import regexfacts as RF
from pyvc.contract import VC, FnTask, Res
from pyvc.interp import Raised
from pyvc.smt import to_term, model_value, host_const
from pyvc.values import Sym, Ref, HObj, HList, HDict, Exc, Unsupported, fresh, fresh_name, sym
from pyvc import abstract as A
from pyvc import models

import jinja2
import jinja2.lexer as L
import jinja2.nodes as N
import jinja2.parser as PR
import jinja2.compiler as C

from contracts import _lex as X

PROP = "C11"
S_, I_ = z3.StringSort(), z3.IntSort()
LinesArr = z3.ArraySort(I_, S_)
JOIN = z3.Function("join_lines", S_, LinesArr, I_, S_)  # sep.join(lines[0:n])
SUB = z3.Function("newline_re_sub", S_, S_, S_)  # newline_re.sub(t, s) = the lines of s joined by t
LINES = z3.Function("lines_of", S_, LinesArr)  # newline_re.split(s)[::2]: the lines of s ...
NLINES = z3.Function("number_of_lines", S_, I_)  # ... and how many (>= 1)


class FakeSplit:
    pass


class FakeLines:
    pass


def res(name, ok, detail="", witness=None, kind="regex", t0=None, undecided=False):
    status = "discharged" if ok else ("unknown" if undecided else "refuted")
    return Res(name, status, "regexfacts", (time.time() - t0) if t0 else 0.0, detail, kind, None if ok else witness)


# ====================================================================== C11.preamble


def preamble_segment():
    P = X.tokeniter_parts()
    R = P["roles"]
    last = -1
    for k, stt in enumerate(P["pre"]):
        if isinstance(stt, ast.Assign) and any(isinstance(t, ast.Name) and t.id == R.source for t in stt.targets):
            last = k
    if last < 0:
        raise Unsupported("tokeniter: no assignment to the source parameter before the loop")
    return P["pre"][: last + 1], P


class Preamble(X.SegmentVC):
    prop = PROP
    target = "jinja2.lexer:Lexer.tokeniter"

    def __init__(self, name="C11.preamble"):
        super().__init__(PROP, name)

    def segment(self):
        stmts, P = preamble_segment()
        self.R = P["roles"]
        return stmts, P["fn"], P["module"], "Lexer.tokeniter"

    def configure(self, I):
        c = self
        keep = []

        def split_h(I_x, st, args, kwargs, node):
            # dependency spec: newline_re.split(s) = [line0, break0, line1, ..., line_{n-1}], n >= 1 (C11.newline_re: one capturing group)
            if len(args) != 1 or models.kind_of(args[0]) != "str":
                raise Unsupported("newline_re.split(string, maxsplit)", node)
            models.used("newline_re.split(s)[::2] = the lines of s cut at each leftmost \\r\\n | \\r | \\n (n >= 1 lines)")
            arg = to_term(args[0], "str")
            st.assume(NLINES(arg) >= 1)
            return [(st, st.alloc(HObj(FakeSplit, fields={"of": Sym(arg, "str")}, path="split")))]

        def hook(I_x, st, obj, name, node):
            if obj is L.newline_re and name == "split":
                stub = X.HostStub("newline_re.split")
                keep.append(stub)
                I_x.specs[("fn", id(stub))] = split_h
                return [(st, stub)]
            return None

        I.attr_hook = hook
        I._keep = keep

        def getslice_obj(I_x, st, args, kwargs, node):
            obj, sl = args
            if isinstance(obj, Ref) and isinstance(st.get(obj), HObj) and st.get(obj).cls is FakeSplit and tuple(sl) == (None, None, 2):
                arg = st.get(obj).fields["of"].t
                return [(st, st.alloc(HObj(FakeLines, fields={"arr": LINES(arg), "n": Sym(NLINES(arg), "int")}, path="lines")))]
            return None

        I.specs["getslice_obj"] = getslice_obj

        def lines_get(I_x, st, args, kwargs, node):
            h = st.get(args[0])
            n = h.fields["n"].t
            idx = to_term(args[1], "int")
            ni = z3.If(idx < 0, idx + n, idx)
            out = []
            for s1, ok in I_x.fork_bool(st, z3.And(0 <= ni, ni < n)):
                if ok:
                    out.append((s1, Sym(z3.Select(h.fields["arr"], ni), "str")))
                else:
                    out.append((s1, Raised(Exc(IndexError, ("list index out of range",), origin=getattr(node, "lineno", None)))))
            return out

        def lines_del(I_x, st, args, kwargs, node):
            h = st.get(args[0])
            n = h.fields["n"].t
            idx = to_term(args[1], "int")
            if not (isinstance(args[1], int) and args[1] == -1):
                raise Unsupported("only `del lines[-1]` is specified", node)
            out = []
            for s1, ok in I_x.fork_bool(st, n >= 1):
                if ok:
                    s1.get(args[0]).fields["n"] = Sym(n - 1, "int")
                    out.append((s1, None))
                else:
                    out.append((s1, Raised(Exc(IndexError, ("list assignment index out of range",), origin=getattr(node, "lineno", None)))))
            return out

        I.specs["FakeLines.__getitem__"] = lines_get
        I.specs["FakeLines.__delitem__"] = lines_del

        def join_h(I_x, st, args, kwargs, node):
            sep, arg = args[0], args[1]
            if isinstance(arg, Ref) and isinstance(st.get(arg), HObj) and st.get(arg).cls is FakeLines:
                h = st.get(arg)
                return [(st, Sym(JOIN(to_term(sep, "str"), h.fields["arr"], h.fields["n"].t), "str"))]
            raise Unsupported("str.join of something else than the line list", node)

        I.specs["str.join"] = join_h

        def removesuffix_h(I_x, st, args, kwargs, node):
            models.used("str.removesuffix(t): s without its final t if s ends with t, else s")
            sv, suf = to_term(args[0], "str"), to_term(args[1], "str")
            return [(st, Sym(z3.If(z3.SuffixOf(suf, sv), z3.SubString(sv, 0, z3.Length(sv) - z3.Length(suf)), sv), "str"))]

        I.specs["str.removesuffix"] = removesuffix_h

    def setup(self, I, st):
        R = X.tokeniter_parts()["roles"]
        self.source = sym("source", "str")
        self.ktn = sym("keep_trailing_newline", "bool")
        self.L = LINES(self.source.t)  # the lines of the ORIGINAL source
        self.n0 = NLINES(self.source.t)
        st.assume(self.n0 >= 1)  # split never returns an empty list
        lexer = st.alloc(HObj(L.Lexer, fields={"keep_trailing_newline": self.ktn}, path="self"), initial=True)
        return {R.self: lexer, R.source: self.source}

    def p_working_source(self, pre, out):
        """working source = "\\n".join(L') with L' = L without its last element iff (not keep_trailing_newline and L[-1] == "")"""
        if out.kind != "ok":
            return False
        src2 = self.local(out, self.R.source)
        if not (isinstance(src2, Sym) and src2.k == "str"):
            return False
        drop = z3.And(z3.Not(self.ktn.t), z3.Select(self.L, self.n0 - 1) == z3.StringVal(""))
        return src2.t == JOIN(z3.StringVal("\n"), self.L, z3.If(drop, self.n0 - 1, self.n0))

    posts = [("working_source", p_working_source)]

    def concretize(self, model, pre, out):
        n = model_value(model, self.n0)
        n = max(1, min(4, n if isinstance(n, int) else 1))
        lines = [X.mstr(model, z3.Select(self.L, i)) for i in range(n)]
        return {"lines": lines, "keep_trailing_newline": bool(model_value(model, self.ktn.t))}

    def replay(self, w):
        return replay_preamble(w)


def replay_preamble(w):
    """natively: sources whose lines are (a class-preserving image of) the witness lines, joined by each kind of line break,
    through the REAL tokeniter; oracle: the single data token equals the specification of the working source"""
    lines = ["".join("x" if c in "\r\n{" else c for c in l) for l in w["lines"]]
    ktn = w["keep_trailing_newline"]
    env = jinja2.Environment(keep_trailing_newline=ktn)
    bad = []
    variants = [lines, lines + [""], lines + ["", ""], [""] + lines]
    for ls in variants:
        for br in ("\n", "\r\n", "\r"):
            src = br.join(ls)
            got = "".join(v for _, t, v in env.lexer.tokeniter(src, None))
            want = X.spec_working_source(src, ktn)
            if got != want:
                bad.append((src, got, want))
    return (bool(bad), f"keep_trailing_newline={ktn}: (source, data tokens of the real lexer, specified working source) {bad[:3]}" if bad else
            "the real preamble agrees with the specification on the witness' line lists")


def newline_re_fact(task, tier, seed):
    t0 = time.time()
    p = L.newline_re
    its = RF.items(RF.tree(p))
    ok_shape = len(its) == 1 and RF.is_group(its[0]) and its[0][1][0] == 1
    alts = RF.alternatives(RF.group_content(its[0])) if ok_shape else None
    texts = [RF.render_alt(a) for a in alts] if alts else None
    ok = ok_shape and texts is not None and sorted(texts) == sorted(["\r\n", "\r", "\n"]) and texts.index("\r\n") < texts.index("\r")
    out = [res("C11.newline_re.shape", bool(ok), f"newline_re alternatives in order: {texts!r} (one capturing group; \\r\\n must be tried before \\r so that it is ONE break)",
               {"alternatives": texts}, t0=t0)]
    # cross-check of the two dependency specs against the real pattern on all strings of length <= 4 over {a, \r, \n}
    bad = []
    for n in range(0, 5):
        for tup in itertools.product("a\r\n", repeat=n):
            s = "".join(tup)
            if p.split(s)[::2] != X.split_lines(s) or p.sub("|", s) != "|".join(X.split_lines(s)):
                bad.append(s)
    out.append(Res("C11.newline_re.specs_cross_check", "discharged" if not bad else "refuted", "native", time.time() - t0,
                   f"split(s)[::2] / sub(t, s) vs the line-cutting specification on all 121 strings of length <= 4 over a, CR, LF: {len(bad)} differ {bad[:3]!r}",
                   "table", None if not bad else {"strings": bad[:5]}))
    return out


def replay_newline_re(w):
    bad = [s for s in w.get("strings", ["a\r\nb", "\r\n", "a\rb\n"]) if L.newline_re.split(s)[::2] != X.split_lines(s)]
    return (bool(bad), f"newline_re.split(s)[::2] differs from the lines of s for {bad!r}")


# ====================================================================== C11.plain.one_token


def start_strings(env):
    return [s for s in (env.block_start_string, env.variable_start_string, env.comment_start_string,
                        env.line_statement_prefix, env.line_comment_prefix) if s]


def plain_one_token(task, tier, seed):
    out = []
    for cname, kw in RF.family().items():
        t0 = time.time()
        env = jinja2.Environment(**kw)
        lx = env.lexer
        rules = lx.rules["root"]
        name = f"C11.plain.one_token[{cname}]"
        ok_n = len(rules) == 2 and rules[1].tokens == L.TOKEN_DATA and rules[1].command is None
        out.append(res(name + ".root_has_two_rules", ok_n, "root = [start rule, data rule]; the data rule yields `data` and keeps the state", undecided=True, t0=t0))
        if not ok_n:
            continue
        on = RF.one_named(rules[0].pattern)
        if on is None:
            out.append(res(name + ".start_rule", False, "shape of the start rule not recognised", undecided=True, t0=t0))
        else:
            starts = start_strings(env)
            bad = [b[0] for b in on["branches"] if not any(RF.contains_literal(b[2], s) for s in starts)]
            out.append(res(name + ".start_rule", not bad,
                           f"every alternative of the start rule contains one of the start strings {starts} literally" if not bad else
                           f"alternatives {bad} can match without any start string {starts}", {"config": kw}, t0=t0))
        out.append(res(name + ".data_rule", RF.greedy_all(rules[1].pattern), "rule 2 is `.+` under DOTALL: it consumes everything up to the end",
                       {"config": kw}, t0=t0))
    return X_cap(out)


def X_cap(results, limit=6):
    bad = [r for r in results if r.status == "refuted"]
    if len(bad) <= limit:
        return results
    drop = set(id(r) for r in bad[limit:])
    bad[limit - 1].detail += f" [+{len(bad) - limit} further refuted obligations of this task not listed]"
    return [r for r in results if id(r) not in drop]


def replay_plain(w):
    """natively: plain texts (no start string of the configuration) through the real lexer: exactly one data token"""
    kw = w["config"]
    env = jinja2.Environment(**kw)
    starts = start_strings(env)
    bad = []
    for text in ("plain", "a { b } % # c", "x\ny", " { % } ", "{", "%}", "# x", "a\n# b\n", "<", "$", "?>", "-->", "=%%}"):
        if any(s in text for s in starts):
            continue
        try:
            toks = [(t, v) for _, t, v in env.lexer.tokeniter(text, None)]
        except Exception as ex:  # noqa
            toks = [("<exception>", f"{type(ex).__name__}: {ex}")]
        want = [("data", X.spec_working_source(text, env.keep_trailing_newline))]
        if toks != want:
            bad.append((text, toks))
    return (bool(bad), f"configuration {kw}: plain texts not lexed as one data token: {bad[:3]}")


# ====================================================================== C11.wrap.newlines

DROPPED = [L.TOKEN_COMMENT_BEGIN, L.TOKEN_COMMENT, L.TOKEN_COMMENT_END, L.TOKEN_LINECOMMENT_BEGIN, L.TOKEN_LINECOMMENT,
           L.TOKEN_LINECOMMENT_END, L.TOKEN_RAW_BEGIN, L.TOKEN_RAW_END, L.TOKEN_WHITESPACE]


class WrapNewlines(VC):
    """Lexer.wrap on the raw stream  comment_begin comment comment_end DATA(v1) raw_begin DATA(v2) raw_end linecomment_begin
    linecomment linecomment_end whitespace : exactly two tokens come out, data with the lines of v1 / v2 joined by
    newline_sequence (v2 is the body of a raw block: same treatment, nothing else changed)."""
    prop = PROP
    target = "jinja2.lexer:Lexer.wrap"

    def __init__(self):
        super().__init__(PROP, "C11.wrap.newlines")

    def configure(self, I):
        I.inline.add("jinja2.lexer:Lexer._normalize_newlines")
        keep = []

        def sub_h(I_x, st, args, kwargs, node):
            models.used("newline_re.sub(t, s) = the lines of s joined by t")
            if len(args) != 2:
                raise Unsupported("newline_re.sub with count/flags", node)
            return [(st, Sym(SUB(to_term(args[0], "str"), to_term(args[1], "str")), "str"))]

        def hook(I_x, st, obj, name, node):
            if obj is L.newline_re and name == "sub":
                stub = X.HostStub("newline_re.sub")
                keep.append(stub)
                I_x.specs[("fn", id(stub))] = sub_h
                return [(st, stub)]
            return None

        I.attr_hook = hook
        I._keep = keep
        I.specs[("fn", id(L.Token))] = lambda I_x, st, args, kwargs, node: [(st, ("Token",) + tuple(args))]

    def setup(self, I, st):
        self.nl = sym("newline_sequence", "str")
        lexer = st.alloc(HObj(L.Lexer, fields={"newline_sequence": self.nl}, path="self"), initial=True)
        self.v = [sym("v1", "str"), sym("v2", "str")]
        self.ln = [sym("ln1", "int"), sym("ln2", "int")]
        order = [L.TOKEN_COMMENT_BEGIN, L.TOKEN_COMMENT, L.TOKEN_COMMENT_END, "D0", L.TOKEN_RAW_BEGIN, "D1", L.TOKEN_RAW_END,
                 L.TOKEN_LINECOMMENT_BEGIN, L.TOKEN_LINECOMMENT, L.TOKEN_LINECOMMENT_END, L.TOKEN_WHITESPACE]
        assert set(DROPPED) <= set(order)
        items = []
        for k, t in enumerate(order):
            if t in ("D0", "D1"):
                i = int(t[1])
                items.append((self.ln[i], L.TOKEN_DATA, self.v[i]))
            else:
                items.append((sym(f"l{k}", "int"), t, sym(f"x{k}", "str")))
        stream = st.alloc(HList(items=items), initial=True)
        return [lexer, stream, sym("name", "obj"), sym("filename", "obj")], {}

    def p_tokens(self, pre, out):
        if out.raised:
            return False
        ys = out.st.yields
        if len(ys) != 2 or any(not (isinstance(y, tuple) and len(y) == 4 and y[0] == "Token" and y[2] == L.TOKEN_DATA) for y in ys):
            return False
        if ys[0][1] is not self.ln[0] or ys[1][1] is not self.ln[1]:
            return False
        return z3.And(to_term(ys[0][3], "str") == SUB(self.nl.t, self.v[0].t), to_term(ys[1][3], "str") == SUB(self.nl.t, self.v[1].t))

    posts = [("data_normalised_rest_dropped", p_tokens)]

    def concretize(self, model, pre, out):
        return {"newline_sequence": X.mstr(model, self.nl.t)}

    def replay(self, w):
        return replay_wrap(w)


def replay_wrap(w):
    bad = []
    for nl in ("\n", "\r\n", "\r"):
        lx = jinja2.Environment(newline_sequence=nl).lexer
        raw = [(1, "comment_begin", "{#"), (1, "comment", " c\n "), (2, "comment_end", "#}"), (2, "data", "a\nb\n"), (4, "raw_begin", "{% raw %}"),
               (4, "data", " r\n{{ x }}"), (5, "raw_end", "{% endraw %}"), (5, "linecomment_begin", "##"), (5, "linecomment", " z"),
               (5, "linecomment_end", ""), (5, "whitespace", " ")]
        got = [(t.lineno, t.type, t.value) for t in lx.wrap(iter(raw))]
        want = [(2, "data", nl.join(["a", "b", ""])), (4, "data", nl.join([" r", "{{ x }}"]))]
        if got != want:
            bad.append((nl, got))
    return (bool(bad), f"Lexer.wrap: {bad[:2]}" if bad else "Lexer.wrap drops comments / raw markers and normalises the data")


# ====================================================================== C11.pipeline


class FakeStream:
    pass


def subparse_data_branch():
    fn = extract.resolve("jinja2.parser:Parser.subparse")
    node, module = extract.function_ast(fn)
    ifs = [n for n in ast.walk(node) if isinstance(n, ast.If) and isinstance(n.test, ast.Compare) and isinstance(n.test.left, ast.Attribute)
           and n.test.left.attr == "type" and len(n.test.comparators) == 1 and isinstance(n.test.comparators[0], ast.Constant)
           and n.test.comparators[0].value == "data"]
    whiles = [n for n in ast.walk(node) if isinstance(n, ast.While)]
    if len(ifs) != 1 or len(whiles) != 1 or ifs[0] not in whiles[0].body:
        raise Unsupported("Parser.subparse: the `token.type == 'data'` dispatch was not found in the token loop")
    tok = ifs[0].test.left.value.id
    appends = [n for n in node.body if isinstance(n, ast.Assign) and isinstance(n.value, ast.Attribute) and n.value.attr == "append"]
    if len(appends) != 1:
        raise Unsupported("Parser.subparse: `add_data = data_buffer.append` not found")
    return [ifs[0]], node, module, tok, appends[0].targets[0].id, appends[0].value.value.id


class SubparseData(X.SegmentVC):
    """The `data` branch of the token loop of Parser.subparse: a non-empty data token becomes TemplateData(token.value,
    lineno=token.lineno) appended to the data buffer; the stream advances by one token; nothing else."""
    prop = PROP
    target = "jinja2.parser:Parser.subparse"

    def __init__(self):
        super().__init__(PROP, "C11.pipeline.subparse_data")

    def segment(self):
        stmts, node, module, self.tok, self.add_name, self.buf_name = subparse_data_branch()
        return stmts, node, module, "Parser.subparse"

    def configure(self, I):
        I.specs[("fn", id(N.TemplateData))] = A.abstract_fn("TemplateData", returns="obj")
        self.add_stub = X.HostStub("add_data")
        I.specs[("fn", id(self.add_stub))] = A.abstract_fn("add_data", returns=None)

        def next_obj(I_x, st, args, kwargs, node):
            A.call_event(st, "next(stream)", args, kwargs, None, node)
            return [(st, None)]

        I.specs["next_obj"] = next_obj

    def setup(self, I, st):
        subparse_data_branch()
        self.value, self.lineno = sym("token.value", "str"), sym("token.lineno", "int")
        self.stream = st.alloc(HObj(FakeStream, path="stream"), initial=True)
        token = st.alloc(HObj(L.Token, fields={"type": "data", "value": self.value, "lineno": self.lineno}, path="token"), initial=True)
        parser = st.alloc(HObj(PR.Parser, fields={"stream": self.stream}, path="self"), initial=True)
        _, _, _, tok, add_name, _ = subparse_data_branch()
        return {"self": parser, tok: token, add_name: self.add_stub}

    def p_data(self, pre, out):
        if out.kind != "ok":
            return False
        calls = [e for e in out.st.trace if e.kind == "call"]
        names = [e.name for e in calls]
        nxt = [e for e in calls if e.name == "next(stream)"]
        if len(nxt) != 1 or nxt[0].args[0] != self.stream:
            return False
        if names == ["next(stream)"]:
            return z3.Length(self.value.t) == 0  # an empty data token adds nothing
        if names != ["TemplateData", "add_data", "next(stream)"]:
            return False
        td, add = calls[0], calls[1]
        ok = (len(td.args) == 1 and td.args[0] is self.value and set(td.kwargs) == {"lineno"} and td.kwargs["lineno"] is self.lineno
              and len(add.args) == 1 and add.args[0] is td.result)
        return z3.Length(self.value.t) > 0 if ok else False

    posts = [("data_becomes_template_data", p_data)]

    def concretize(self, model, pre, out):
        return {"value": X.mstr(model, self.value.t)}

    def replay(self, w):
        return replay_pipeline({"finalize": False, "volatile": False, "autoescape": False})


class VisitOutputData(VC):
    """visit_Output on an Output node with ONE TemplateData child (real _output_child_to_const, _output_child_pre/post,
    _output_const_repr, TemplateData.as_const, visit_TemplateData inlined; _make_finalize abstract with symbolic const/src):
    the data is written as a literal - the constant itself, `Markup(data)` under autoescape, or the run-time selection
    `(Markup if context.eval_ctx.autoescape else identity)(data)` in a volatile frame - and NEVER passes through finalize:
    neither finalize.const is called nor finalize.src written."""
    prop = PROP
    target = "jinja2.compiler:CodeGenerator.visit_Output"

    def __init__(self, buffer):
        self.buffer = buffer
        super().__init__(PROP, f"C11.pipeline.visit_Output[buffer={buffer}]")

    def configure(self, I):
        for q in ("_output_child_to_const", "_output_child_pre", "_output_child_post", "_output_const_repr", "visit_TemplateData"):
            I.inline.add("jinja2.compiler:CodeGenerator." + q)
        I.inline.add("jinja2.nodes:TemplateData.as_const")
        I.inline.add("jinja2.nodes:get_eval_context")
        I.inline.add("jinja2.compiler:has_safe_repr")  # real body: a str / Markup constant has a safe repr
        c = self

        def written(tag):
            def h(I_x, st, args, kwargs, node):
                A.call_event(st, tag, args[1:], kwargs, None, node)
                return [(st, None)]
            return h

        for m in ("write", "writeline", "newline", "indent", "outdent"):
            I.specs["CodeGenerator." + m] = written(m)

        def visit_h(I_x, st, args, kwargs, node):
            # self.visit(child, frame) dispatches on the node class: for a TemplateData child that is visit_TemplateData (real, inlined)
            child = args[1]
            if isinstance(child, Ref) and isinstance(st.get(child), HObj) and st.get(child).cls is N.TemplateData:
                A.call_event(st, "visit", args[1:], kwargs, None, node)
                return I_x.call_method(st, args[0], "visit_TemplateData", [child, args[2]], {}, node)
            raise Unsupported("visit of a non-TemplateData child", node)

        I.specs["CodeGenerator.visit"] = visit_h

        def make_finalize(I_x, st, args, kwargs, node):
            return [(st, c.finalize)]

        I.specs["CodeGenerator._make_finalize"] = make_finalize
        I.specs["call_obj"] = A.abstract_fn("finalize.const", returns="obj")

        def markup_h(I_x, st, args, kwargs, node):
            v = args[0]
            return [(st, Sym(to_term(v, "str"), "str", tags={"markup"}))]

        import markupsafe
        I.specs[("fn", id(markupsafe.Markup))] = markup_h

        def escape_h(I_x, st, args, kwargs, node):
            v = args[0]
            if isinstance(v, Sym) and "markup" in v.tags:
                models.used("markupsafe.escape(Markup) is the identity")
                return [(st, v)]
            A.call_event(st, "escape(plain)", args, kwargs, None, node)
            return [(st, Sym(z3.Function("html_escape", S_, S_)(to_term(v, "str")), "str", tags={"markup"}))]

        I.specs[("fn", id(C.escape))] = escape_h

        def join_h(I_x, st, args, kwargs, node):
            arg = args[1]
            items = I_x.iter_concrete(st, arg, node)
            if args[0] == "" and len(items) == 1 and models.kind_of(items[0]) == "str":
                return [(st, items[0])]  # "".join([x]) == x
            if args[0] == "" and len(items) == 1 and isinstance(items[0], Sym) and items[0].k == "obj":
                return [(st, Sym(models.py_str_obj(items[0].t), "str"))]  # the text of an opaque constant (finalize.const returns text)
            raise Unsupported("concat of several pieces", node)

        I.specs["str.join"] = join_h

    def setup(self, I, st):
        self.data = sym("data", "str")
        self.volatile, self.autoescape = sym("eval_ctx.volatile", "bool"), sym("eval_ctx.autoescape", "bool")
        self.fin_const, self.fin_src = sym("finalize.const", "obj"), sym("finalize.src", "str")
        self.has_src = sym("finalize.src is not None", "bool")
        ectx = st.alloc(HObj(N.EvalContext, fields={"volatile": self.volatile, "autoescape": self.autoescape}, path="eval_ctx"), initial=True)
        child = st.alloc(HObj(N.TemplateData, fields={"data": self.data, "lineno": sym("lineno", "int"), "environment": sym("env", "obj")},
                              path="node.nodes[0]"), initial=True)
        self.child = child
        nodes_l = st.alloc(HList(items=[child]), initial=True)
        node = st.alloc(HObj(N.Output, fields={"nodes": nodes_l, "lineno": sym("olineno", "int")}, path="node"), initial=True)
        frame = st.alloc(HObj(C.Frame, fields={"eval_ctx": ectx, "buffer": self.buffer, "require_output_check": False}, path="frame"), initial=True)
        self.gen = st.alloc(HObj(C.CodeGenerator, fields={"has_known_extends": False}, path="self"), initial=True)
        outs = []
        # finalize.src is None (default environment) or a string (environment.finalize set)
        self.finalize = st.alloc(HObj(C.CodeGenerator._FinalizeInfo, fields={"const": self.fin_const, "src": self.fin_src}, path="finalize"), initial=True)
        return [self.gen, node, frame], {}

    def texts(self, out):
        """everything written, in order"""
        pieces = []
        for e in out.st.trace:
            if e.kind == "call" and e.name in ("write", "writeline"):
                pieces.append(e.args[0] if e.args else "")
        return pieces

    def p_not_finalized(self, pre, out):
        """template data never passes through finalize"""
        if out.raised:
            return False
        if A.calls(out, "finalize.const"):
            return False
        for p in self.texts(out):
            if p is self.fin_src:
                return False
            if isinstance(p, Sym) and any(t.eq(self.fin_src.t) for t in subterms(p.t)):
                return False
        return True

    def p_literal(self, pre, out):
        """what is written for the data is the literal: repr(data) (no autoescape), repr(Markup(data)) (autoescape), or the
        run-time selection in a volatile frame; plain `escape` is never applied to it at compile time"""
        if out.raised:
            return False
        if A.calls(out, "escape(plain)"):
            return False
        ps = self.texts(out)
        from pyvc.models import py_repr_str
        r = py_repr_str(self.data.t)
        lit = []
        for p in ps:
            if isinstance(p, Sym) and p is not self.fin_src:  # finalize.src around it is the other clause's business
                lit.append(p)
        if len(lit) != 1:
            return False
        t = lit[0].t
        vol_text = z3.Concat(z3.StringVal("(Markup if context.eval_ctx.autoescape else identity)("), r, z3.StringVal(")"))
        if self.buffer is None:
            const_text = z3.Concat(z3.StringVal("yield "), r)
        else:
            const_text = z3.Concat(r, z3.StringVal(","))
        const_ok = z3.Or(t == const_text, t == r)
        return z3.If(self.volatile.t, t == vol_text, const_ok)

    posts = [("never_through_finalize", p_not_finalized), ("written_as_literal", p_literal)]

    def concretize(self, model, pre, out):
        return {"volatile": bool(model_value(model, self.volatile.t)), "autoescape": bool(model_value(model, self.autoescape.t)),
                "finalize": True, "buffer": self.buffer}

    def finding_key(self, res):
        w = res.witness or {}
        return "template-data-finalized:" + ("volatile" if w.get("volatile") else "static")

    def replay(self, w):
        return replay_pipeline(w)


def subterms(t):
    yield t
    if z3.is_app(t):
        for c in t.children():
            yield from subterms(c)


def replay_pipeline(w):
    """natively: plain text / raw content rendered under an environment whose finalize would change any value it sees;
    `volatile` = inside {% autoescape <non-constant> %}.  Oracle: the text is output verbatim."""
    marks = []
    env = jinja2.Environment(finalize=(lambda v: f"[{v}]") if w.get("finalize", True) else None, autoescape=False)
    text = "a < b {% raw %}{{ r }}{% endraw %} c"
    want = "a < b {{ r }} c"
    flag = w.get("autoescape", False)
    if w.get("volatile"):
        src = "{% autoescape flag %}" + text + "{% endautoescape %}"
    else:
        src = "{% autoescape " + ("true" if flag else "false") + " %}" + text + "{% endautoescape %}"
    if w.get("buffer"):
        src = "{% filter upper %}" + src + "{% endfilter %}"  # a buffered frame
        want = want.upper()
    try:
        got = env.from_string(src).render(flag=flag)
    except Exception as ex:  # noqa
        got = f"<{type(ex).__name__}: {ex}>"
    return (str(got) != want, f"finalize=lambda v: '[%s]' % v, source {src!r} (flag={flag}): rendered {str(got)!r}, the text itself is {want!r}")


# ====================================================================== C11.bounded.render

ALPHABET = ["a", " ", "{", "}", "%", "#", "\n", "\r"]
STARTS = ("{{", "{%", "{#")
CONFIGS = [(nl, ktn) for nl in ("\n", "\r\n", "\r") for ktn in (False, True)]


def spec_render_plain(s, nl, ktn):
    """the statement: each line break replaced by the newline sequence, at most one trailing break removed (none with keep_trailing_newline)"""
    lines = X.split_lines(s)
    if not ktn and lines[-1] == "":
        lines = lines[:-1]
    return nl.join(lines)


def plain_strings(maxlen):
    for n in range(0, maxlen + 1):
        for tup in itertools.product(ALPHABET, repeat=n):
            s = "".join(tup)
            if not any(x in s for x in STARTS):
                yield s


def bounded_render(ci, part, nparts):
    nl, ktn = CONFIGS[ci]

    def run(task, tier, seed):
        t0 = time.time()
        env = jinja2.Environment(newline_sequence=nl, keep_trailing_newline=ktn, cache_size=0)
        maxlen = 5 if tier != "quick" else 4
        n, out = 0, []

        def check(kind, src, want):
            nonlocal n
            n += 1
            try:
                got = env.from_string(src).render()
            except Exception as ex:  # noqa
                got = f"<{type(ex).__name__}: {ex}>"
            if got != want and not out:
                out.append(Res(f"C11.bounded.render[{ci}.{part}].case", "refuted", "native", time.time() - t0,
                               f"newline_sequence={nl!r} keep_trailing_newline={ktn}: {kind} {src!r} rendered {got!r}, statement gives {want!r}",
                               "bounded", {"source": src, "newline_sequence": nl, "keep_trailing_newline": ktn, "want": want}))

        for k, s in enumerate(plain_strings(maxlen)):
            if k % nparts != part:
                continue
            check("plain text", s, spec_render_plain(s, nl, ktn))
        if part == 0:
            for body in plain_strings(3):
                if "#}" not in body:
                    check("comment", "x{#" + body + "#}y", "xy")
            for n_ in range(0, 4):
                for tup in itertools.product(ALPHABET, repeat=n_):  # raw bodies may contain start strings (look-alikes)
                    body = "".join(tup)
                    check("raw block", "x{% raw %}" + body + "{% endraw %}y", "x" + nl.join(X.split_lines(body)) + "y")
        task.stats = {"renders": n}
        if not out:
            out.append(Res(f"C11.bounded.render[{ci}.{part}]", "bounded-ok", "native", time.time() - t0,
                           f"{n} renders under newline_sequence={nl!r}, keep_trailing_newline={ktn} equal the statement", "bounded"))
        return out
    return run


def replay_render(w):
    env = jinja2.Environment(newline_sequence=w["newline_sequence"], keep_trailing_newline=w["keep_trailing_newline"])
    try:
        got = env.from_string(w["source"]).render()
    except Exception as ex:  # noqa
        got = f"<{type(ex).__name__}: {ex}>"
    return (got != w["want"], f"{w['source']!r} rendered {got!r}, statement gives {w['want']!r}")


NPARTS = 2


def bounded_tasks():
    ts = []
    for ci, (nl, ktn) in enumerate(CONFIGS):
        for part in range(NPARTS):
            t = FnTask(PROP, f"C11.bounded.render[{ci}.{part}]", bounded_render(ci, part, NPARTS), kind="bounded", replay_fn=replay_render)
            t.bound_text = (f"all strings of length <= 5 (quick: 4) over {ALPHABET!r} containing none of {STARTS!r}, rendered by the real Environment with "
                            f"newline_sequence={nl!r}, keep_trailing_newline={ktn} (share {part + 1}/{NPARTS}); plus every comment body (no '#}}') and every raw "
                            "body of length <= 3 over the same alphabet")
            ts.append(t)
    return ts


TASKS = ([Preamble(), FnTask(PROP, "C11.newline_re", newline_re_fact, kind="regex", replay_fn=replay_newline_re),
          FnTask(PROP, "C11.plain.one_token", plain_one_token, kind="regex", replay_fn=replay_plain),
          WrapNewlines(), SubparseData(), VisitOutputData(None), VisitOutputData("t_buf")]
         + bounded_tasks())

META = {
    "level": "other",
    "explanation": (
        "Proof of mechanism plus a bounded stand-in; not an end-to-end proof. Proved on the real source: the preamble of Lexer.tokeniter "
        "computes the working source as the lines of the input (dependency spec of newline_re.split) minus at most one trailing empty line "
        "(none with keep_trailing_newline) joined by LF; Lexer.wrap hands data through newline_re.sub(newline_sequence, .) and drops comment, "
        "line-comment, raw_begin, raw_end and whitespace tokens; the data branch of Parser.subparse builds TemplateData(token.value); "
        "visit_Output / _output_child_to_const / visit_TemplateData write a TemplateData child as a literal. Regex facts on the parse "
        "trees of the real root rules of all 30 configurations: every alternative of the start rule contains a start string literally and rule 2 "
        "is `.+` under DOTALL. The step from these facts to 'a text without start string is ONE data token holding the working source' is the "
        "regex semantics assumption A8 and is not proved; it is carried by the bounded stand-in C11.bounded.render (exhaustive short strings "
        "through the real Environment.render in every newline_sequence x keep_trailing_newline configuration), hence level 'other'."),
    "assumptions": [
        "A8: `re` semantics (leftmost match, ordered alternation, `.+` greedy under DOTALL)", "A9: the 30 configurations of pyvc.regexfacts.family",
        "visit_Output is run on an Output node with one TemplateData child (several children only concatenate constants: C08)",
    ],
    "trusted_base": [
        "z3 / cvc5", "pyvc symbolic executor", "pyvc.regexfacts",
        "dependency specs: newline_re.split(s)[::2] = lines of s; newline_re.sub(t, s) = lines joined by t (both cross-checked on all strings "
        "of length <= 4 over a/CR/LF in C11.newline_re.specs_cross_check); str.join as an uninterpreted function of (separator, lines); "
        "markupsafe.Markup / escape(Markup) = identity; repr of a str",
    ],
}
