"""C23  String and number filters satisfy their documented contracts.

Proof part (VC contracts on the real function bodies of jinja2.filters):
  do_truncate   string VC against the documented length contract
  do_int/float  totality: whatever int()/float() raise for a value they cannot convert
                (TypeError, ValueError, OverflowError - dependency specs), the default comes back
  do_round      the method name is validated before it selects a function of `math`
  thin wrappers upper/lower/capitalize/center/trim/replace(no autoescape)/format are exactly
                the str operation on soft_str(value) with the caller's arguments
Bounded stand-ins (real functions against executable specifications, exhaustive over small
strings): indent, wordwrap, title, wordcount, filesizeformat, striptags, urlencode, wrappers, round.
"""
from __future__ import annotations

import ast
import itertools
import json
import math
import re
import time

import z3

from pyvc.contract import VC, Res, FnTask
from pyvc.values import State, Sym, Ref, HObj, HList, HDict, Exc, Obj, fresh, fresh_name, sym, Unsupported
from pyvc.smt import to_term, model_value, host_const
from pyvc.interp import Raised
from pyvc import abstract as A

import jinja2
import jinja2.filters as F
from jinja2.exceptions import FilterArgumentError

S_ = z3.StringSort()


# =====================================================================================
# do_truncate
# =====================================================================================

def spec_truncate(s, length, killwords, end, leeway):
    """The documented contract, executable (returns a predicate on the result)."""
    def ok(r):
        if len(s) <= length + leeway:
            return r == s
        if not r.endswith(end):
            return False
        p = r[: len(r) - len(end)]
        q = s[: length - len(end)]
        if not s.startswith(p) or len(r) > length:
            return False
        if killwords:
            return len(r) == length
        # the last (possibly partial) word of the cut text is discarded
        if " " not in q:
            return p == q
        return p == q[: q.rindex(" ")]
    return ok


class Truncate(VC):
    """length >= len(end), leeway >= 0:
       len(s) <= length+leeway -> s ;  else prefix(s) + end, total <= length (== length with killwords);
       without killwords the prefix is s[:length-len(end)] minus its last word."""
    prop = "C23"
    target = "jinja2.filters:do_truncate"
    timeout_quick = 60000  # two string VCs per variant need cvc5; generous for a loaded machine (one task per clause)

    def __init__(self, leeway_from_policy=False, clauses=None):
        self.policy = leeway_from_policy
        self.prefix = "C23.truncate" + (".policy_leeway" if leeway_from_policy else "")
        # one task per group of clauses (they run in parallel); obligations are named <prefix>.<clause>
        super().__init__("C23", self.prefix + ("/" + "+".join(clauses) if clauses else ""))
        if clauses:
            self.posts = [(c, f) for c, f in Truncate.posts if c in clauses]

    def run(self, tier, seed):
        rs = VC.run(self, tier, seed)
        for r in rs:
            if r.name.startswith(self.name):
                r.name = self.prefix + r.name[len(self.name):]
        return rs

    def configure(self, I):
        def rsplit(I_, st, args, kwargs, node):
            # dependency spec of str.rsplit(sep, 1) for a one-character separator
            recv, sep, maxsplit = args
            if not (isinstance(sep, str) and len(sep) == 1 and maxsplit == 1):
                from pyvc.values import Unsupported
                raise Unsupported("str.rsplit: only (one-character separator, 1) is specified", node)
            s = to_term(recv, "str")
            tags = getattr(recv, "tags", frozenset())
            out = []
            for s1, has in I_.fork_bool(st, z3.Contains(s, z3.StringVal(sep))):
                if has:
                    a, b = fresh("rsplit_head", "str"), fresh("rsplit_tail", "str")
                    s1.assume(s == z3.Concat(a.t, z3.StringVal(sep), b.t), z3.Not(z3.Contains(b.t, z3.StringVal(sep))))
                    out.append((s1, s1.alloc(HList(items=[Sym(a.t, "str", tags), Sym(b.t, "str", tags)]))))
                else:
                    out.append((s1, s1.alloc(HList(items=[recv]))))
            return out

        I.specs["str.rsplit"] = rsplit

    def setup(self, I, st):
        self.s, self.end = sym("s", "str"), sym("end", "str")
        self.length = sym("length", "int")
        # the leeway argument and the policy value are different symbols: the argument (0 included) is used when
        # one is given, the policy value only when the argument is None
        self.arg_leeway, self.policy_leeway = sym("leeway", "int"), sym("policy_leeway", "int")
        self.leeway = self.policy_leeway if self.policy else self.arg_leeway
        self.kill = sym("killwords", "bool")
        st.assume(self.length.t >= z3.Length(self.end.t), self.arg_leeway.t >= 0, self.policy_leeway.t >= 0)
        st.assume(to_term(self.arg_leeway, "obj") != host_const(None))  # an int argument is not None (0 included)
        pol = st.alloc(HDict(items={"truncate.leeway": self.policy_leeway}), initial=True)
        env = A.obj(st, jinja2.Environment, "env", fields={"policies": pol})
        return [env, self.s, self.length, self.kill, self.end, None if self.policy else self.arg_leeway], {}

    def p_total(self, pre, out):
        return not out.raised

    def p_short(self, pre, out):
        if out.raised:
            return None
        r = to_term(out.value, "str")
        fits = z3.Length(self.s.t) <= self.length.t + self.leeway.t
        return z3.Implies(fits, r == self.s.t)

    def p_long(self, pre, out):
        if out.raised:
            return None
        r = to_term(out.value, "str")
        s, end, n = self.s.t, self.end.t, self.length.t
        fits = z3.Length(s) <= n + self.leeway.t
        p = z3.SubString(r, 0, z3.Length(r) - z3.Length(end))
        return z3.Implies(z3.Not(fits), z3.And(
            z3.SuffixOf(end, r), z3.PrefixOf(p, s), z3.Length(r) <= n,
            z3.Implies(self.kill.t, z3.Length(r) == n)))

    def p_word(self, pre, out):
        """without killwords: the kept text is s[:length-len(end)] up to (excluding) its last space, or all of it"""
        if out.raised:
            return None
        r = to_term(out.value, "str")
        s, end, n = self.s.t, self.end.t, self.length.t
        fits = z3.Length(s) <= n + self.leeway.t
        q = z3.SubString(s, 0, n - z3.Length(end))
        p = z3.SubString(r, 0, z3.Length(r) - z3.Length(end))
        sp = z3.StringVal(" ")
        rest = z3.SubString(q, z3.Length(p) + 1, z3.Length(q))
        cut = z3.If(z3.Contains(q, sp),
                    z3.And(z3.PrefixOf(z3.Concat(p, sp), q), z3.Not(z3.Contains(rest, sp))),
                    p == q)
        return z3.Implies(z3.And(z3.Not(fits), z3.Not(self.kill.t)), z3.And(z3.SuffixOf(end, r), cut))

    posts = [("total", p_total), ("short_unchanged", p_short), ("long_cut", p_long), ("last_word_dropped", p_word)]

    def concretize(self, model, pre, out):
        return {"s": model_value(model, self.s.t), "length": model_value(model, self.length.t),
                "killwords": bool(model_value(model, self.kill.t)), "end": model_value(model, self.end.t),
                "leeway": None if self.policy else model_value(model, self.arg_leeway.t),
                "policy_leeway": model_value(model, self.policy_leeway.t)}

    def replay(self, w):
        return replay_truncate(w)


def replay_truncate(w):
    """leeway: the argument (None = not given); policy_leeway: env.policies['truncate.leeway']"""
    env = jinja2.Environment()
    s, n, kw, end = w["s"], int(w["length"]), bool(w["killwords"]), w["end"]
    arg = w.get("leeway")
    pol = int(w.get("policy_leeway", env.policies["truncate.leeway"]))
    env.policies["truncate.leeway"] = pol
    lee = pol if arg is None else int(arg)  # documented: the policy value is only the default
    if n < len(end) or lee < 0 or pol < 0:
        return (False, "witness outside the precondition")
    try:
        r = F.do_truncate(env, s, n, kw, end, arg)
    except Exception as ex:  # noqa
        return (True, f"do_truncate({s!r}, {n}, {kw}, {end!r}, {arg}) [policy leeway {pol}] raised {ex!r}")
    bad = not spec_truncate(s, n, kw, end, lee)(r) or ("want" in w and r != w["want"])
    return (bad, f"do_truncate({s!r}, {n}, {kw}, {end!r}, leeway={arg}) [policy leeway {pol}] = {r!r}" + (f", documented {w['want']!r}" if "want" in w else ""))


TRUNCATE_DOC = [  # the examples of the docstring (default policy leeway 5)
    {"s": "foo bar baz qux", "length": 9, "killwords": False, "end": "...", "leeway": None, "policy_leeway": 5, "want": "foo..."},
    {"s": "foo bar baz qux", "length": 9, "killwords": True, "end": "...", "leeway": None, "policy_leeway": 5, "want": "foo ba..."},
    {"s": "foo bar baz qux", "length": 11, "killwords": False, "end": "...", "leeway": None, "policy_leeway": 5, "want": "foo bar baz qux"},
    {"s": "foo bar baz qux", "length": 11, "killwords": False, "end": "...", "leeway": 0, "policy_leeway": 5, "want": "foo bar..."},
]


def cases_truncate(tier, seed):
    yield from TRUNCATE_DOC
    for s in strings(["a", " ", "<"], 6):
        for length in (1, 2, 4):
            for end in ("", ".", ".."):
                if length < len(end):
                    continue
                for kw in (False, True):
                    for arg, pol in ((None, 0), (None, 2), (0, 2), (1, 0), (2, 5), (0, 0)):
                        yield {"s": s, "length": length, "killwords": kw, "end": end, "leeway": arg, "policy_leeway": pol}


# ---- truncate with Markup operands: the length contract on the returned string ---------------------------
f_len = z3.Function("py_len", Obj, z3.IntSort())
f_escaped = z3.Function("markupsafe_escape", Obj, Obj)


class TruncateMixed(VC):
    """The length clause for every Markup/plain combination of text and `end` (opaque strings with a length):
    len(s) <= length + leeway -> s itself; otherwise len(result) <= length.
    Dependency specs: len(s[:n]) = min(n, len(s)) for n >= 0; rsplit(" ", 1)[0] is no longer than its receiver;
    a + b has length len(a) + len(b), where a Markup operand makes the other one pass through escape() first, and
    len(escape(x)) >= len(x) (each of & < > ' " becomes a longer character reference)."""
    prop = "C23"
    target = "jinja2.filters:do_truncate"

    def __init__(self, s_kind, end_kind):
        self.kinds = (s_kind, end_kind)
        super().__init__("C23", f"C23.truncate.mixed[s={s_kind},end={end_kind}]")

    def run(self, tier, seed):
        rs = VC.run(self, tier, seed)
        for r in rs:
            r.name = r.name.replace(self.name, "C23.truncate.mixed", 1)
        return rs

    @staticmethod
    def text(name, markup):
        return fresh(name, "obj", {"text", "markup"} if markup else {"text"})

    def configure(self, I):
        from pyvc.values import BoundMethod
        T = TruncateMixed
        mk = lambda v: isinstance(v, Sym) and "markup" in v.tags  # noqa: E731

        def sized(st, v):
            st.assume(f_len(v.t) >= 0)
            return v

        I.specs["len_obj"] = lambda I_, st, args, kwargs, node: [(st, Sym(f_len(sized(st, args[0]).t), "int"))]

        def getslice(I_, st, args, kwargs, node):
            recv, (lo, hi, step) = args
            if lo is not None or step is not None:
                raise Unsupported("only s[:n] is specified", node)
            n = to_term(hi, "int")
            r = sized(st, T.text("slice", mk(recv)))
            st.assume(z3.Implies(n >= 0, f_len(r.t) == z3.If(n < f_len(recv.t), n, f_len(recv.t))))
            return [(st, r)]

        I.specs["getslice_obj"] = getslice

        def getattr_obj(I_, st, args, kwargs, node):
            return [(st, BoundMethod(args[0], args[1]))]

        I.specs["getattr_obj"] = getattr_obj

        def method_obj(I_, st, args, kwargs, node):
            recv, name = args[0], args[1]
            if name != "rsplit":
                return None
            out = []
            for k in (1, 2):
                s1 = st.fork()
                parts = [sized(s1, T.text(f"part{i}", mk(recv))) for i in range(k)]
                s1.assume(f_len(parts[0].t) <= f_len(recv.t))
                out.append((s1, s1.alloc(HList(items=parts))))
            return out

        I.specs["method_obj"] = method_obj

        def add(I_, st, args, kwargs, node):
            a, b = args
            markup = mk(a) or mk(b)
            la, lb = [], []
            for x, acc in ((a, la), (b, lb)):
                if markup and not mk(x):
                    e = f_escaped(x.t)
                    st.assume(f_len(e) >= f_len(x.t))
                    acc.append(e)
                else:
                    acc.append(x.t)
            r = sized(st, T.text("cat", markup))
            st.assume(f_len(r.t) == f_len(la[0]) + f_len(lb[0]))
            return [(st, r)]

        I.specs[("binop", ast.Add)] = add

    def setup(self, I, st):
        self.s, self.end = self.text("s", self.kinds[0] == "M"), self.text("end", self.kinds[1] == "M")
        self.length, self.leeway, self.kill = sym("length", "int"), sym("leeway", "int"), sym("killwords", "bool")
        st.assume(f_len(self.s.t) >= 0, f_len(self.end.t) >= 0, self.length.t >= f_len(self.end.t), self.leeway.t >= 0,
                  to_term(self.leeway, "obj") != host_const(None))
        pol = st.alloc(HDict(items={"truncate.leeway": sym("policy_leeway", "int")}), initial=True)
        env = A.obj(st, jinja2.Environment, "env", fields={"policies": pol})
        return [env, self.s, self.length, self.kill, self.end, self.leeway], {}

    def p_length(self, pre, out):
        if out.raised:
            return False
        fits = f_len(self.s.t) <= self.length.t + self.leeway.t
        r = to_term(out.value, "obj")
        return z3.And(z3.Implies(fits, r == self.s.t), z3.Implies(z3.Not(fits), f_len(r) <= self.length.t))

    posts = [("length", p_length)]

    def concretize(self, model, pre, out):
        return {"s_markup": self.kinds[0] == "M", "end_markup": self.kinds[1] == "M", "killwords": bool(model_value(model, self.kill.t))}

    def finding_key(self, res):
        return f"s={self.kinds[0]},end={self.kinds[1]}"

    def replay(self, w):
        return check_truncate_mixed(w)


def check_truncate_mixed(w):
    from markupsafe import Markup
    env = jinja2.Environment()
    worst = (False, "")
    for text, end, length in (("a" * 30, " & more", 10), ("word " * 10, " >>", 12), ("<" * 30, "...", 10), ("a < b & c > d " * 3, "\"'", 8)):
        s = Markup(text) if w["s_markup"] else text
        e = Markup(end) if w["end_markup"] else end
        r = F.do_truncate(env, s, length, w.get("killwords", True), e, 0)
        d = f"do_truncate({s!r}, {length}, {w.get('killwords', True)}, {e!r}, 0) = {r!r} of length {len(r)}"
        if len(r) > length:
            return (True, d + f" > {length}")
        worst = (False, d)
    return worst


# =====================================================================================
# do_int / do_float : totality
# =====================================================================================
# Dependency specs (Python language reference, "Built-in Functions"):
#   int(x)        returns an int, or raises TypeError (no __int__/__index__/__trunc__, or a container/None),
#                 ValueError (a float nan, or a str that is not a literal) or OverflowError (a float infinity)
#   int(str, b)   returns an int, or raises ValueError / TypeError           (never OverflowError)
#   float(x)      returns a float, or raises TypeError, ValueError (malformed str) or OverflowError (int too large)

CONV_POOL_SRC = [
    "0", "-7", "True", "False", "None", "1.5", "-0.0", "float('inf')", "float('-inf')", "float('nan')",
    "10**400", "-(10**400)", "10**30", "'42'", "'42.23'", "' 12 '", "'0x1f'", "'1f'", "'101'", "'1e400'", "'-1e400'", "'nan'", "'inf'",
    "'abc'", "''", "'1_000'", "'٣'", "[]", "[1]", "()", "{}", "{'a': 1}", "set()", "b'12'", "'9' * 5000", "1e308 * 10", "2**1024",
]


def conv_outcomes(value, calls, base=10):
    """Outcome of each named conversion on a real value: 'ok' or the exception class name."""
    ops = {"int(value)": (lambda: int(value, base)) if isinstance(value, str) else (lambda: int(value)),
           "float(value)": lambda: float(value), "int(float)": lambda: int(float(value))}
    out = []
    for name in calls:
        try:
            ops[name]()
            out.append((name, "ok"))
        except (TypeError, ValueError, OverflowError) as ex:
            out.append((name, type(ex).__name__))
    return out


def spec_conv(fn, value, default, base=10):
    """documented result: the converted value (for int also through float: "42.23"|int gives 42), else the default"""
    try:
        if fn == "float":
            return float(value)
        return int(value, base) if isinstance(value, str) else int(value)
    except (TypeError, ValueError, OverflowError):
        pass
    if fn == "int":
        try:
            return int(float(value))
        except (TypeError, ValueError, OverflowError):
            pass
    return default


class Conv(VC):
    """do_int / do_float never raise: every conversion failure yields `default`;
    a successful conversion yields its result."""
    prop = "C23"

    def __init__(self, which, is_str):
        self.which = which
        self.is_str = is_str
        self.target = f"jinja2.filters:do_{which}"
        super().__init__("C23", f"C23.{which}" + (".str" if is_str else ""))
        self.variant = "str" if is_str else "nonstr"

    def configure(self, I):
        conv = self

        def int_spec(I_, st, args, kwargs, node):
            v = args[0]
            if len(args) == 2:
                name, raises = "int(value)", (TypeError, ValueError)
            elif isinstance(v, Sym) and "float" in v.tags:
                name, raises = "int(float)", (ValueError, OverflowError)
            else:
                name, raises = "int(value)", (TypeError, ValueError, OverflowError)
            return A.abstract_fn(name, returns="int", raises=raises)(I_, st, args, kwargs, node)

        def float_spec(I_, st, args, kwargs, node):
            raises = (ValueError,) if conv.is_str else (TypeError, ValueError, OverflowError)
            return A.abstract_fn("float(value)", returns="obj", raises=raises, tags=("float",))(I_, st, args, kwargs, node)

        I.specs[("fn", id(int))] = int_spec
        I.specs[("fn", id(float))] = float_spec

        def isinstance_obj(I_, st, args, kwargs, node):
            v, cl = args
            if v is conv.value and cl == (str,):
                return [(st, conv.is_str)]
            return None

        I.specs["isinstance_obj"] = isinstance_obj

    def setup(self, I, st):
        self.value = sym("value", "obj")
        self.default = sym("default", "obj")
        if self.which == "int":
            self.base = sym("base", "int")
            return [self.value, self.default, self.base], {}
        return [self.value, self.default], {}

    def p_total(self, pre, out):
        if out.raised:
            return False
        calls = [e for e in out.st.trace if e.kind == "call"]
        if not calls:
            return False
        last = calls[-1]
        if not isinstance(last.result, Exc):
            # a conversion succeeded: its result is returned, and it converted `value` (through float for the fallback)
            if out.value is not last.result:
                return False
            if last.name == "int(float)":
                fl = [e for e in calls if e.name == "float(value)"]
                return len(fl) == 1 and last.args[0] is fl[0].result and fl[0].args[0] is self.value
            if last.args[0] is not self.value:
                return False
            if self.which == "int" and self.is_str:
                return len(last.args) == 2 and last.args[1] is self.base
            return len(last.args) == 1
        return out.value is self.default

    posts = [("total", p_total)]

    def path_trace(self, out):
        tr = []
        for e in out.st.trace:
            if e.kind == "call":
                tr.append((e.name, e.result.cls.__name__ if isinstance(e.result, Exc) else "ok"))
        return tr

    def concretize(self, model, pre, out):
        want = self.path_trace(out)
        fallback = None
        for src in CONV_POOL_SRC:
            v = eval(src)
            if isinstance(v, str) != self.is_str:
                continue
            for base in ((10, 16, 2, 8) if (self.is_str and self.which == "int") else (10,)):
                if conv_outcomes(v, [n for n, _ in want], base) == want:
                    w = {"filter": self.which, "value_src": src, "base": base, "trace": want}
                    if replay_conv(w)[0]:
                        return w
                    fallback = fallback or w
        return fallback

    def describe(self, out):
        return f"{self.variant} value, conversions {self.path_trace(out)}: " + VC.describe(self, out)

    def finding_key(self, res):
        w = res.witness or {}
        tr = w.get("trace") or []
        return ";".join(f"{a}:{b}" for a, b in tr) if tr else "no-witness"

    def replay(self, w):
        return replay_conv(w)


def replay_conv(w):
    v = eval(w["value_src"])
    default = object()
    fn = F.do_int if w["filter"] == "int" else F.do_float
    base = int(w.get("base", 10))
    try:
        r = fn(v, default, base) if w["filter"] == "int" else fn(v, default)
    except Exception as ex:  # noqa
        return (True, f"{w['value_src']}|{w['filter']} raised {type(ex).__name__}: {ex}")
    want = spec_conv(w["filter"], v, default, base)
    bad = (r is not default) if want is default else (r is default or r != want)
    return (bad, f"{w['value_src']}|{w['filter']}{'(base=%d)' % base if base != 10 else ''} -> {'default' if r is default else repr(r)}, "
                 f"documented: {'default' if want is default else repr(want)}")


# =====================================================================================
# do_round : dispatch
# =====================================================================================
O2 = lambda name: z3.Function(name, Obj, Obj, Obj)  # noqa: E731
f_pow, f_mul, f_div, f_round = O2("py_pow"), O2("py_mul"), O2("py_truediv"), O2("py_round")
f_ceil, f_floor = z3.Function("math_ceil", Obj, Obj), z3.Function("math_floor", Obj, Obj)
f_tofloat = z3.Function("py_float", Obj, Obj)
f_isfloat = z3.Function("is_float", Obj, z3.BoolSort())
f_nonfinite = z3.Function("is_inf_or_nan", Obj, z3.BoolSort())


def _unvalidated_math_attr(*a):  # stands for getattr(math, <a name outside the documented three>)
    raise AssertionError("ghost function")


class Round(VC):
    """method not in {common, ceil, floor} -> FilterArgumentError before anything is looked up or called;
       common -> round(value, precision); ceil/floor -> math.<method>(value * 10**precision) / 10**precision."""
    prop = "C23"
    target = "jinja2.filters:do_round"

    def __init__(self):
        super().__init__("C23", "C23.round")

    def configure(self, I):
        import typing

        def rec(name, fn):
            def h(I_, st, args, kwargs, node):
                v = Sym(fn(*[to_term(a, "obj") for a in args]), "obj")
                A.call_event(st, name, args, kwargs, v, node)
                return [(st, v)]
            return h

        def with_fact(h, fact):
            def g(I_, st, args, kwargs, node):
                rs = h(I_, st, args, kwargs, node)
                for s1, v in rs:
                    s1.assume(fact(v, args))
                return rs
            return g

        def to_int(name, fn):
            # math.ceil / math.floor return an int and cannot convert a non-finite float:
            # OverflowError (infinity) / ValueError (nan)  [Python library reference, math]
            base = rec(name, fn)

            def h(I_, st, args, kwargs, node):
                out = []
                for s1, bad in I_.fork_bool(st, f_nonfinite(to_term(args[0], "obj"))):
                    if bad:
                        e = Exc(OverflowError, ("cannot convert a non-finite float to integer",), origin=getattr(node, "lineno", None))
                        A.call_event(s1, name, args, kwargs, e, node)
                        out.append((s1, Raised(e)))
                    else:
                        out += base(I_, s1, args, kwargs, node)
                return out
            return h

        I.specs[("binop", ast.Pow)] = rec("pow", f_pow)
        I.specs[("binop", ast.Mult)] = rec("mul", f_mul)
        # true division of numbers gives a float; round(x, n) has the type of x; float(x) is a float
        I.specs[("binop", ast.Div)] = with_fact(rec("div", f_div), lambda v, a: f_isfloat(v.t))
        I.specs[("fn", id(round))] = with_fact(rec("round", f_round), lambda v, a: f_isfloat(v.t) == f_isfloat(to_term(a[0], "obj")))
        I.specs[("fn", id(float))] = with_fact(rec("float", f_tofloat), lambda v, a: f_isfloat(v.t))
        I.specs[("fn", id(math.ceil))] = to_int("math.ceil", f_ceil)
        I.specs[("fn", id(math.floor))] = to_int("math.floor", f_floor)
        I.specs[("fn", id(math.isfinite))] = lambda I_, st, args, kwargs, node: [(st, Sym(z3.Not(f_nonfinite(to_term(args[0], "obj"))), "bool"))]
        I.specs[("fn", id(math.isinf))] = lambda I_, st, args, kwargs, node: [(st, Sym(f_nonfinite(to_term(args[0], "obj")), "bool"))]

        def isinstance_obj(I_, st, args, kwargs, node):
            v, cl = args
            if cl == (float,):
                return [(st, Sym(f_isfloat(v.t), "bool"))]
            return None

        I.specs["isinstance_obj"] = isinstance_obj
        I.specs[("fn", id(_unvalidated_math_attr))] = A.abstract_fn("math.<other>", returns="obj")
        I.specs[("fn", id(typing.cast))] = lambda I_, st, args, kwargs, node: [(st, args[1])]

        def getattr_dyn(I_, st, args, kwargs, node):
            obj, name = args[0], args[1]
            if obj is not math or not (isinstance(name, Sym) and name.k == "str"):
                return None
            out = []
            for s1, b in I_.fork_bool(st, name.t == z3.StringVal("ceil")):
                if b:
                    A.call_event(s1, "getattr(math)", [name], {}, math.ceil, node)
                    out.append((s1, math.ceil))
                    continue
                for s2, b2 in I_.fork_bool(s1, name.t == z3.StringVal("floor")):
                    A.call_event(s2, "getattr(math)", [name], {}, math.floor if b2 else _unvalidated_math_attr, node)
                    out.append((s2, math.floor if b2 else _unvalidated_math_attr))
            return out

        I.specs["getattr_dyn"] = getattr_dyn

    def setup(self, I, st):
        self.value, self.precision, self.method = sym("value", "obj"), sym("precision", "obj"), sym("method", "str")
        x = z3.Const("x", Obj)
        st.assume(z3.ForAll([x], z3.Implies(f_nonfinite(x), f_isfloat(x))))  # only floats are inf / nan
        return [self.value, self.precision, self.method], {}

    def p_total(self, pre, out):
        """no exception but FilterArgumentError (inf and nan are among the numbers of the quantifier)"""
        if out.raised:
            return out.value.cls is FilterArgumentError
        return True

    def p_float(self, pre, out):
        """documented: "even if rounded to 0 precision, a float is returned" """
        if out.raised:
            return None
        return f_isfloat(to_term(out.value, "obj"))

    def m(self, name):
        return self.method.t == z3.StringVal(name)

    def p_validated(self, pre, out):
        valid = z3.Or(self.m("common"), self.m("ceil"), self.m("floor"))
        calls = [e for e in out.st.trace if e.kind == "call"]
        if out.raised:
            if out.value.cls is not FilterArgumentError:
                return None  # clause `total`
            if calls:
                return False
            return z3.Not(valid)
        if any(e.name == "math.<other>" or e.result is _unvalidated_math_attr for e in calls):
            return False
        return valid

    def p_result(self, pre, out):
        if out.raised:
            return None
        v, p = self.value.t, to_term(self.precision, "obj")
        ten = to_term(10, "obj")
        scale = f_pow(ten, p)
        r = to_term(out.value, "obj")
        scaled = f_mul(v, scale)
        # a value whose scaled form is inf/nan has no fractional part to round: it rounds to itself (as a float)
        return z3.And(
            z3.Implies(self.m("common"), z3.Or(r == f_round(v, p), r == f_tofloat(f_round(v, p)), r == f_round(f_tofloat(v), p))),
            z3.Implies(self.m("ceil"), r == z3.If(f_nonfinite(scaled), f_tofloat(v), f_div(f_ceil(scaled), scale))),
            z3.Implies(self.m("floor"), r == z3.If(f_nonfinite(scaled), f_tofloat(v), f_div(f_floor(scaled), scale))))

    posts = [("method_validated", p_validated), ("total", p_total), ("definition", p_result), ("returns_float", p_float)]

    def finding_key(self, res):
        w = res.witness or {}
        return f"{w.get('method')}:{w.get('value_src')}"

    def concretize(self, model, pre, out):
        m = model_value(model, self.method.t)
        scale = f_pow(to_term(10, "obj"), to_term(self.precision, "obj"))
        if out.raised and out.value.cls is not FilterArgumentError:
            src = "float('inf')"  # the path on which math.ceil / math.floor meet a non-finite number
        elif model_value(model, f_isfloat(self.value.t)) is True:
            src = "2.5"
        else:
            src = "42"
        return {"method": m, "value_src": src, "precision": 0}

    def replay(self, w):
        return replay_round({"value": eval(w.get("value_src", "2.5")), "precision": w.get("precision", 0), "method": w["method"]})


def spec_round(value, precision, method):
    """exact definition over the rationals (inputs where the float arithmetic is exact); a float in every case;
    inf and nan round to themselves"""
    from fractions import Fraction
    if isinstance(value, float) and not math.isfinite(value):
        return value
    if method == "common":
        return float(round(value, precision))
    x = Fraction(value) * Fraction(10) ** precision
    k = math.ceil(x) if method == "ceil" else math.floor(x)
    return float(Fraction(k) / Fraction(10) ** precision)


def replay_round(w):
    value, precision, method = w["value"], w["precision"], w["method"]
    if isinstance(value, str):
        value = eval(value)  # "float('inf')" etc. (json has no non-finite numbers)
    try:
        r = F.do_round(value, precision, method)
    except FilterArgumentError:
        return (method in ("common", "ceil", "floor"), f"{value}|round({precision}, {method!r}) raised FilterArgumentError")
    except Exception as ex:  # noqa
        return (True, f"{value!r}|round({precision}, {method!r}) raised {type(ex).__name__}: {ex}")
    if method not in ("common", "ceil", "floor"):
        return (True, f"{value}|round({precision}, {method!r}) = {r!r}: undocumented method accepted")
    want = spec_round(value, precision, method)
    same = r == want or (r != r and want != want)
    return (not same or type(r) is not float, f"{value!r}|round({precision}, {method!r}) = {r!r} ({type(r).__name__}), definition gives the float {want!r}")


def classify_round(w):
    v = w["value"]
    if isinstance(v, str):
        return f"{w['method']}:non-finite" if w["method"] != "common" else None
    if isinstance(v, int) and w["method"] == "common":
        return "common:int-value"
    return None


# =====================================================================================
# thin wrappers
# =====================================================================================
f_soft = z3.Function("soft_str", Obj, Obj)
f_str = z3.Function("py_str", Obj, Obj)


class Wrapper(VC):
    """<filter>(value, *args) is exactly  soft_str(value).<method>(*args)  (one call, the caller's arguments in order)."""
    prop = "C23"

    def __init__(self, filt, method, nargs, case=""):
        self.filt, self.method, self.nargs, self.case = filt, method, nargs, case
        self.target = f"jinja2.filters:do_{filt}"
        super().__init__("C23", f"C23.wrappers.{filt}" + (f".{case}" if case else ""))

    def configure(self, I):
        def soft(I_, st, args, kwargs, node):
            v = Sym(f_soft(to_term(args[0], "obj")), "obj", {"softstr"})
            A.call_event(st, "soft_str", args, kwargs, v, node)
            return [(st, v)]

        I.specs[("fn", id(F.soft_str))] = soft

        def str_obj(I_, st, args, kwargs, node):
            return [(st, Sym(f_str(to_term(args[0], "obj")), "obj", {"str"}))]

        I.specs["str_obj"] = str_obj

        def method_obj(I_, st, args, kwargs, node):
            recv, name = args[0], args[1]
            r = fresh(f"str_{name}", "obj")
            A.call_event(st, f"str.{name}", [recv] + list(args[2:]), kwargs, r, node)
            return [(st, r)]

        I.specs["method_obj"] = method_obj

        def getattr_obj(I_, st, args, kwargs, node):
            o, name = args
            if isinstance(o, Sym) and (o.tags & {"softstr", "str"}):
                from pyvc.values import BoundMethod
                return [(st, BoundMethod(o, name))]
            return None

        I.specs["getattr_obj"] = getattr_obj

        def mod(I_, st, args, kwargs, node):
            r = fresh("str_mod", "obj")
            A.call_event(st, "str.__mod__", args, kwargs, r, node)
            return [(st, r)]

        I.specs[("binop", ast.Mod)] = mod

    def setup(self, I, st):
        self.value = sym("value", "obj")
        self.args = [sym(f"arg{i}", "obj") for i in range(self.nargs)]
        if self.filt == "replace":
            from jinja2.nodes import EvalContext
            ctx = A.obj(st, EvalContext, "eval_ctx", fields={"autoescape": False})
            cnt = None if self.case == "all" else self.args[2]
            self.want_count = -1 if self.case == "all" else self.args[2]
            if cnt is not None:
                st.assume(to_term(cnt, "obj") != host_const(None))  # this case: a count is given
            return [ctx, self.value, self.args[0], self.args[1], cnt], {}
        if self.filt == "format":
            pos = self.args if self.case in ("args", "both") else []
            kw = {"k": sym("kwv", "obj")} if self.case in ("kwargs", "both") else {}
            self.kw = kw
            return [self.value] + pos, kw
        if self.filt == "trim" and self.case == "default":
            return [self.value], {}
        return [self.value] + self.args, {}

    def p_exact(self, pre, out):
        calls = [e for e in out.st.trace if e.kind == "call" and e.name != "soft_str"]
        if self.filt == "format" and self.case == "both":
            return out.raised and out.value.cls is FilterArgumentError and not calls
        if out.raised or len(calls) != 1:
            return False
        e = calls[0]
        if e.name != f"str.{self.method}" or out.value is not e.result or e.kwargs:
            return False
        recv, rest = e.args[0], list(e.args[1:])
        if self.filt == "replace":
            ok_recv = z3.eq(to_term(recv, "obj"), f_str(self.value.t))
            want = [f_str(self.args[0].t), f_str(self.args[1].t)]
            if len(rest) != 3 or not all(isinstance(x, Sym) and z3.eq(x.t, y) for x, y in zip(rest[:2], want)):
                return False
            return ok_recv and (rest[2] is self.want_count or rest[2] == self.want_count)
        if not z3.eq(to_term(recv, "obj"), f_soft(self.value.t)):
            return False
        if self.filt == "format":
            rhs = rest[0]
            if self.case == "args":
                return isinstance(rhs, tuple) and len(rhs) == len(self.args) and all(a is b for a, b in zip(rhs, self.args))
            if self.case == "kwargs":
                return isinstance(rhs, Ref) and list(out.st.get(rhs).items.items()) == list(self.kw.items())
            return rhs == ()
        if self.filt == "trim" and self.case == "default":
            return rest == [None]
        return len(rest) == len(self.args) and all(a is b for a, b in zip(rest, self.args))

    posts = [("exact", p_exact)]

    def concretize(self, model, pre, out):
        return {"filter": self.filt}

    def replay(self, w):
        return replay_wrappers(w)


WRAPPER_VALUES = ["", "a", "hello World", "  x y  ", "ÀB ß", "a-b", "%s and %s", "%(k)s!", "xxaxx", 42, None, 1.5]


def wrapper_cases(filt=None):
    from markupsafe import Markup
    from jinja2.nodes import EvalContext
    env = jinja2.Environment()
    ctx = EvalContext(env)
    ctx.autoescape = False
    vals = WRAPPER_VALUES + [Markup("<b>M</b>")]
    for v in vals:
        sv = str(v)
        yield "upper", (v,), lambda: F.do_upper(v), sv.upper()
        yield "lower", (v,), lambda: F.do_lower(v), sv.lower()
        yield "capitalize", (v,), lambda: F.do_capitalize(v), sv.capitalize()
        for w in (0, 1, 5, 12):
            yield "center", (v, w), lambda: F.do_center(v, w), sv.center(w)
        yield "center", (v,), lambda: F.do_center(v), sv.center(80)
        for ch in (None, "x", " a", ""):
            yield "trim", (v, ch), lambda: F.do_trim(v, ch), sv.strip(ch)
        yield "trim", (v,), lambda: F.do_trim(v), sv.strip()
        for old, new in (("x", "yy"), ("", "-"), ("l", ""), ("a", "a"), (4, 5)):
            yield "replace", (v, old, new), lambda: F.do_replace(ctx, v, old, new), sv.replace(str(old), str(new))
            for c in (0, 1, 2, -1):
                yield "replace", (v, old, new, c), lambda: F.do_replace(ctx, v, old, new, c), sv.replace(str(old), str(new), c)
    for fmt, a, kw in (("%s and %s", ("a", 1), {}), ("%(k)s!", (), {"k": "v"}), ("plain", (), {}), ("%d%%", (3,), {}), ("%5.1f|%-3s|", (2.25, "x"), {})):
        yield "format", (fmt, a, kw), lambda: F.do_format(fmt, *a, **kw), fmt % (kw or a)


def replay_wrappers(w):
    for name, args, run, want in wrapper_cases():
        if w.get("filter") and name != w["filter"]:
            continue
        try:
            got = run()
        except Exception as ex:  # noqa
            return (True, f"{name}{args!r} raised {type(ex).__name__}: {ex}")
        if got != want or type(got) is not type(want) and not isinstance(got, str):
            return (True, f"{name}{args!r} = {got!r}, the str method gives {want!r}")
    # both positional and keyword arguments to format must be rejected
    if w.get("filter") in (None, "format"):
        try:
            F.do_format("%s", 1, k=2)
            return (True, "format with positional and keyword arguments did not raise FilterArgumentError")
        except FilterArgumentError:
            pass
    return (False, "wrappers agree with the str methods on the sample")


# =====================================================================================
# bounded stand-ins: the real filters against executable specifications
# =====================================================================================

def strings(alpha, maxlen):
    for n in range(maxlen + 1):
        for t in itertools.product(alpha, repeat=n):
            yield "".join(t)


def seeded(alpha, seed, count=300, lo=6, hi=40):
    import random
    rnd = random.Random(1000 + int(seed))
    for _ in range(count):
        yield "".join(rnd.choice(alpha) for _ in range(rnd.randint(lo, hi)))


class Bounded(FnTask):
    """Exhaustive run of a real filter over a finite input set against a spec function.
    cases(tier, seed) yields json witnesses; check(w) -> (violated, detail) runs the REAL code."""
    kind = "bounded"

    def __init__(self, name, cases, check, bound_text, classify=None, prop="C23"):
        self.prop, self.name, self.kind = prop, name, "bounded"
        self.cases, self.check, self.bound_text, self.classify = cases, check, bound_text, classify
        self.replay_fn = None

    def run(self, tier, seed):
        t0 = time.time()
        n, bad, seen = 0, [], set()
        for w in self.cases(tier, seed):
            n += 1
            try:
                v, d = self.check(w)
            except Exception as ex:  # the spec itself must not crash
                return [Res(self.name + ".spec", "error", "native", time.time() - t0, f"spec crashed on {w!r}: {ex!r}", "bounded")]
            if v:
                k = self.key_of(w)
                if k not in seen and len(seen) < 6:
                    seen.add(k)
                    bad.append(Res(self.name, "refuted", "native", time.time() - t0, d, "bounded", w))
        self.stats = {"inputs": n}
        if bad:
            return bad
        return [Res(self.name, "bounded-ok", "native", time.time() - t0, f"{n} inputs agree with the specification ({self.bound_text})", "bounded")]

    def key_of(self, w):
        if self.classify is not None:
            k = self.classify(w)
            if k:
                return k
        return json.dumps(w, sort_keys=True, ensure_ascii=True)

    def finding_key(self, res):
        return self.key_of(res.witness) if res.witness is not None else None

    def replay(self, w):
        return self.check(w)


# ---- indent ------------------------------------------------------------------------------
# line boundaries of str.splitlines (Python library reference), written out independently
LINE_BREAK = re.compile("\r\n|[\n\r\x0b\x0c\x1c\x1d\x1e\x85  ]")
INDENT_ALPHA = ["a", " ", "\n", "<", "\r", "\t", " "]


def spec_indent_ok(s, width, first, blank, r):
    """only the indentation is inserted: the result has the lines of s (line breaks normalised to \n);
    lines after the first are indented iff non-empty or `blank`; the first iff `first`."""
    ind = width if isinstance(width, str) else " " * width
    lines = LINE_BREAK.split(s)
    out = r.split("\n")
    if len(out) != len(lines):
        return False
    for i, (l, o) in enumerate(zip(lines, out)):
        if i == 0:
            want = [l] if not first else ([ind + l] if (l or blank) else [l, ind + l])
        else:
            want = [ind + l] if (l or blank) else [l]
        if o not in want:
            return False
    return True


def cases_indent(tier, seed):
    srcs = itertools.chain(strings(INDENT_ALPHA, 5), seeded(INDENT_ALPHA + ["b", "\r\n", "\n\n"], seed, 200))
    for s in srcs:
        for width in (0, 2, ">>"):
            for first in (False, True):
                for blank in (False, True):
                    yield {"s": s, "width": width, "first": first, "blank": blank}


def check_indent(w):
    r = F.do_indent(w["s"], w["width"], w["first"], w["blank"])
    ok = type(r) is str and spec_indent_ok(w["s"], w["width"], w["first"], w["blank"], r)
    return (not ok, f"do_indent({w['s']!r}, {w['width']!r}, first={w['first']}, blank={w['blank']}) = {r!r}")


def classify_indent(w):
    # one class of inputs: the text ends in a lone carriage return and exactly that final line break is lost
    s = w["s"]
    if s.endswith("\r"):
        r = F.do_indent(s, w["width"], w["first"], w["blank"])
        if spec_indent_ok(s[:-1], w["width"], w["first"], w["blank"], r):
            return "trailing-carriage-return-dropped"
    return None


# ---- indent with Markup operands: the text is escaped consistently or not at all ------------------------
def check_indent_markup(w):
    """w: {"s": text, "s_markup": bool, "width": str|int, "width_markup": bool, "first", "blank"}.
    Only the indentation is inserted: either a plain result with the characters of the text untouched, or a Markup
    result in which every line of the text is escaped exactly once (Markup text: as it is)."""
    from markupsafe import Markup, escape
    s = Markup(w["s"]) if w["s_markup"] else w["s"]
    width = Markup(w["width"]) if w["width_markup"] else w["width"]
    r = F.do_indent(s, width, w["first"], w["blank"])
    ind = width if isinstance(width, str) else " " * width
    any_markup = w["s_markup"] or w["width_markup"]
    plain_ok = (not w["s_markup"]) and type(r) is str and spec_indent_ok(str(s), str(ind), w["first"], w["blank"], r)
    markup_ok = any_markup and isinstance(r, Markup) and spec_indent_ok(str(escape(s)), str(escape(ind)), w["first"], w["blank"], str(r))
    return (not (plain_ok or markup_ok), f"do_indent({s!r}, {width!r}, first={w['first']}, blank={w['blank']}) = {r!r}")


def classify_indent_markup(w):
    return f"text={'Markup' if w['s_markup'] else 'str'},width={'Markup' if w['width_markup'] else 'str'}"


def cases_indent_markup(tier, seed):
    texts = [t for t in strings(["a", "<", "&", "\n"], 4)] + ["if a < b:\nx = a & b\ny = '>'", "<a>\n<b>", "x\n\n<y>\n"]
    for t in texts:
        for sm in (False, True):
            for width, wm in ((2, False), ("> ", False), ("&gt; ", True), ("  ", True)):
                for first in (False, True):
                    for blank in (False, True):
                        yield {"s": t, "s_markup": sm, "width": width, "width_markup": wm, "first": first, "blank": blank}


class IndentEscaping(VC):
    """do_indent over the Markup-combinator dependency specs of contracts.c24 (ghost escape levels of the text):
    every configuration (text / width Markup or plain, 1..3 lines, first, blank) returns either a plain string whose
    text is at level 0 or a Markup string whose text is at level 1 - never a mixture, never escaped twice."""
    prop = "C23"
    target = "jinja2.filters:do_indent"

    def __init__(self):
        VC.__init__(self, "C23", "C23.indent")

    def run(self, tier, seed):
        from contracts import c24

        def p_levels(vc, pre, out):
            if out.raised:
                return None
            lv = set(c24.levels_of(out.value))
            return lv <= ({1} if c24.is_markup(out.value) else {0})

        class V(c24.MarkupArgsVC):
            posts = [("escaping_consistent", p_levels)]

            def describe(vc, out):
                return (f"indent {c24.cfg_key('indent', vc.cfg)}: the text of the result is at escape levels {c24.levels_of(out.value)} "
                        f"({'Markup' if c24.is_markup(out.value) else 'plain'} result); " + VC.describe(vc, out))

        rs = []
        for cfg in c24.markup_configs("indent"):
            v = V("indent", cfg)
            v.name = self.name
            rs += v.run(tier, seed)
        return rs

    def finding_key(self, res):
        from contracts import c24
        w = res.witness or {}
        return c24.cfg_key("indent", w["cfg"]) if "cfg" in w else "no-witness"

    def replay(self, w):
        c = w["cfg"]
        n = c.get("lines", 2)
        text = "\n".join(["if a < b:", "x = a & b", "y = '>'"][:n]) + ("\n" if n == 1 else "")
        width, wm = {"M": ("&gt; ", True), "P": ("> ", False), "int": (2, False)}[c["width"]]
        return check_indent_markup({"s": text if c["s"] == "P" else "a &lt; b\n" * n, "s_markup": c["s"] == "M", "width": width, "width_markup": wm,
                                    "first": w.get("first", False), "blank": w.get("blank", False)})


# ---- wordwrap ----------------------------------------------------------------------------
_WS = re.compile(r"\s+")
WRAP_ALPHA = ["a", "b", " ", "\n", "<", "-", "\t"]


def _breaks(text, hyphens=False):
    """positions (counted in non-whitespace characters) at which the text has white space (or may be broken next to a hyphen)"""
    out, n = set(), 0
    for i, c in enumerate(text):
        if c.isspace():
            out.add(n)
        else:
            n += 1
            if hyphens and c == "-":
                out.update((n - 1, n))  # textwrap also sets a double hyphen (em-dash) apart: before or after a hyphen
    return out


def cases_wordwrap(tier, seed):
    for s in strings(WRAP_ALPHA, 5):
        for width in (1, 2, 3):
            for blw in (True, False):
                for boh in (True, False):
                    yield {"s": s, "width": width, "break_long_words": blw, "break_on_hyphens": boh, "wrapstring": None}
    for s in seeded(WRAP_ALPHA + ["c", "d", "e", " ", " "], seed, 150, 10, 80):
        for width in (1, 4, 9, 20):
            for blw in (True, False):
                for ws in (None, "|\n"):
                    yield {"s": s, "width": width, "break_long_words": blw, "break_on_hyphens": True, "wrapstring": ws}


def check_wordwrap(w):
    env = jinja2.Environment()
    s = w["s"]
    r = F.do_wordwrap(env, s, w["width"], w["break_long_words"], w["wrapstring"], w["break_on_hyphens"])
    sep = w["wrapstring"] or "\n"
    lines = r.split(sep)
    text = "".join(lines)
    ok = _WS.sub("", text) == _WS.sub("", s)  # all non-whitespace text, in order, nothing added
    if w["break_long_words"]:
        ok = ok and all(len(l) <= w["width"] for l in lines)
    elif ok:
        # long words may not be broken: a line break falls where the text had white space, or (break_on_hyphens) after a hyphen
        ok = _breaks(sep.join(lines) if sep.strip() == "" else "\n".join(lines)) <= _breaks(s, w["break_on_hyphens"])
    return (not ok, f"do_wordwrap({s!r}, width={w['width']}, break_long_words={w['break_long_words']}, "
                    f"wrapstring={w['wrapstring']!r}, break_on_hyphens={w['break_on_hyphens']}) = {r!r}")


# ---- title / wordcount -------------------------------------------------------------------
TITLE_ALPHA = ["a", "B", " ", "\n", "<", "-", "ß"]


def spec_title(s):
    """every character that starts a word (start of text, or after whitespace or one of - ( { [ <) is upper-cased,
    every other character lower-cased"""
    return "".join(c.upper() if (i == 0 or s[i - 1].isspace() or s[i - 1] in "-({[<") else c.lower() for i, c in enumerate(s))


def cases_title(tier, seed):
    for s in itertools.chain(strings(TITLE_ALPHA, 5), seeded(TITLE_ALPHA + ["(", "[", "{", "c", "D", "\t", "é", "1"], seed)):
        yield {"s": s}


def check_title(w):
    r = F.do_title(w["s"])
    return (r != spec_title(w["s"]), f"do_title({w['s']!r}) = {r!r}, specification {spec_title(w['s'])!r}")


WC_ALPHA = ["a", "1", " ", "\n", "<", "_", "é"]


def spec_wordcount(s):
    isw = lambda c: c.isalnum() or c == "_"  # noqa: E731
    return sum(1 for i, c in enumerate(s) if isw(c) and (i == 0 or not isw(s[i - 1])))


def cases_wordcount(tier, seed):
    for s in itertools.chain(strings(WC_ALPHA, 5), seeded(WC_ALPHA + ["-", ".", "B", "\t"], seed)):
        yield {"s": s}


def check_wordcount(w):
    r = F.do_wordcount(w["s"])
    return (r != spec_wordcount(w["s"]) or type(r) is not int, f"do_wordcount({w['s']!r}) = {r!r}, specification {spec_wordcount(w['s'])}")


# ---- striptags ---------------------------------------------------------------------------
STRIP_ALPHA = ["a", "B", " ", "\n", "<", ">", "&"]
_TAG = re.compile(r"<!--.*?-->|<[^>]*>", re.S)
_ENT = {"&lt;": "<", "&gt;": ">", "&amp;": "&", "&quot;": '"', "&#39;": "'", "&#34;": '"'}


def spec_striptags(s):
    """comments and tags removed, runs of whitespace collapsed to one space and trimmed, entities resolved"""
    t = " ".join(_TAG.sub("", s).split())
    return re.sub(r"&(?:lt|gt|amp|quot|#39|#34);", lambda m: _ENT[m.group()], t)


STRIP_SEEDS = ["<p>Hello <b>World</b></p>", "a<!-- x > y -->b", "  just  a\n small \t example <a href=\"x\">link</a>  ",
               "&lt;b&gt; &amp; <i\nclass='x'>it</i>", "<br/>x<br />y", "1 < 2", "a > b < c", "<<a>>", "<a<b>c>d", "x<!---->y"]


def cases_striptags(tier, seed):
    for s in itertools.chain(strings(STRIP_ALPHA, 5), STRIP_SEEDS, seeded(STRIP_ALPHA + ["b", "/", "p"], seed)):
        yield {"s": s, "as": "str"}
    for s in STRIP_SEEDS + ["<b>x</b>", "a &amp; b"]:
        yield {"s": s, "as": "markup"}
        yield {"s": s, "as": "html_object"}


class _HasHTML:
    def __init__(self, s):
        self.s = s

    def __html__(self):
        return self.s

    def __str__(self):
        return "WRONG: str() used instead of __html__()"


def check_striptags(w):
    from markupsafe import Markup
    s = w["s"]
    v = s if w["as"] == "str" else (Markup(s) if w["as"] == "markup" else _HasHTML(s))
    r = F.do_striptags(v)
    want = spec_striptags(s)
    return (str(r) != want, f"do_striptags({w['as']} {s!r}) = {r!r}, specification {want!r}")


# ---- urlencode ----------------------------------------------------------------------------
URL_ALPHA = ["a", " ", "\n", "<", "/", "%", "é"]
_URL_OK = re.compile(r"(?:[A-Za-z0-9_.~/-]|%[0-9A-F]{2})*\Z")
_QS_OK = re.compile(r"(?:[A-Za-z0-9_.~+-]|%[0-9A-F]{2})*\Z")
QS_ALPHA = ["a", " ", "&", "=", "+", "/", "é", "%"]


def cases_urlencode(tier, seed):
    for s in itertools.chain(strings(URL_ALPHA, 5), seeded(URL_ALPHA + ["?", "&", "=", "+", "#", "€", "~"], seed)):
        yield {"kind": "str", "s": s}
    ks = list(strings(QS_ALPHA, 2))
    for k in ks:
        for v in ks:
            yield {"kind": "dict", "items": [[k, v]]}
    for k in ks[:20]:
        yield {"kind": "pairs", "items": [[k, "x y"], ["k&2", k], [k, 7]]}
        yield {"kind": "dict", "items": [[k + "1", "x y"], ["k&2", k]]}
    for v in (7, 1.5, None, True):
        yield {"kind": "scalar", "value": v}
    # every Mapping is encoded like the equal dict (signature: str | Mapping[str, Any] | Iterable[tuple[str, Any]])
    for kind in MAPPING_KINDS:
        for items in ([["ab", 1], ["q", "x y"]], [["ab", 1], ["id", 7]], [["k", "v"]], [["a&b", "c=d"], ["é", "/"]], []):
            yield {"kind": kind, "items": items}


class _PlainMapping(__import__("collections").abc.Mapping):
    """a collections.abc.Mapping implementation that is not a dict"""

    def __init__(self, d):
        self._d = dict(d)

    def __getitem__(self, k):
        return self._d[k]

    def __iter__(self):
        return iter(self._d)

    def __len__(self):
        return len(self._d)


MAPPING_KINDS = {
    "mappingproxy": lambda d: __import__("types").MappingProxyType(d),
    "chainmap": lambda d: __import__("collections").ChainMap(d),
    "userdict": lambda d: __import__("collections").UserDict(d),
    "abc_mapping": _PlainMapping,
    "ordereddict": lambda d: __import__("collections").OrderedDict(d),
}


def classify_urlencode(w):
    return "mapping-that-is-not-a-dict" if w["kind"] in MAPPING_KINDS and w["kind"] != "ordereddict" else None


def check_urlencode(w):
    from urllib.parse import unquote, parse_qsl
    if w["kind"] in MAPPING_KINDS:
        d = dict(tuple(x) for x in w["items"])
        from urllib.parse import quote_plus
        want = "&".join("=".join(quote_plus(str(x), safe="") for x in kv) for kv in d.items())
        arg = MAPPING_KINDS[w["kind"]](d)
        try:
            r = F.do_urlencode(arg)
        except Exception as ex:  # noqa
            return (True, f"do_urlencode({w['kind']}({d!r})) raised {type(ex).__name__}: {ex}; expected {want!r}")
        return (r != want, f"do_urlencode({w['kind']}({d!r})) = {r!r}, expected {want!r}")
    if w["kind"] == "str":
        r = F.do_urlencode(w["s"])
        bad = unquote(r) != w["s"] or not _URL_OK.match(r) or r.count("/") != w["s"].count("/")  # "/" is not quoted
        return (bad, f"do_urlencode({w['s']!r}) = {r!r}")
    if w["kind"] == "scalar":
        r = F.do_urlencode(w["value"])
        return (unquote(r) != str(w["value"]) or not _URL_OK.match(r), f"do_urlencode({w['value']!r}) = {r!r}")
    items = [tuple(x) for x in w["items"]]
    arg = dict(items) if w["kind"] == "dict" else items
    r = F.do_urlencode(arg)
    want = [(str(k), str(v)) for k, v in (arg.items() if isinstance(arg, dict) else arg)]
    parts = r.split("&") if r else []
    bad = len(parts) != len(want)
    if not bad:
        for part, (k, v) in zip(parts, want):
            kv = part.split("=")
            if len(kv) != 2 or not _QS_OK.match(kv[0]) or not _QS_OK.match(kv[1]):
                bad = True
                break
            if unquote(kv[0].replace("+", " ")) != k or unquote(kv[1].replace("+", " ")) != v:
                bad = True
                break
    if not bad and all(k for k, _ in want):
        bad = parse_qsl(r, keep_blank_values=True) != want
    return (bad, f"do_urlencode({arg!r}) = {r!r}")


# ---- filesizeformat ---------------------------------------------------------------------------
FS_DEC = ["kB", "MB", "GB", "TB", "PB", "EB", "ZB", "YB"]
FS_BIN = ["KiB", "MiB", "GiB", "TiB", "PiB", "EiB", "ZiB", "YiB"]


def spec_filesize_ok(value, binary, r):
    """1 -> '1 Byte'; below the base -> '<n> Bytes'; otherwise the value in the largest unit not exceeding it
    (capped at the yotta prefix), to one decimal place."""
    from fractions import Fraction
    x = Fraction(float(value))
    base = 1024 if binary else 1000
    if x == 1:
        return r == "1 Byte"
    if x < base:
        return r == "%d Bytes" % int(x)
    k = 1
    while k < 8 and x >= base ** (k + 1):
        k += 1
    m = re.fullmatch(r"(\d+\.\d) (\w+)", r)
    if not m or m.group(2) != (FS_BIN if binary else FS_DEC)[k - 1]:
        return False
    q = x / base ** k
    return abs(Fraction(m.group(1)) - q) <= Fraction(1, 20) + q / 10 ** 12


def cases_filesize(tier, seed):
    vals = set()
    for base in (1000, 1024):
        for k in range(0, 10):
            for d in (-2, -1, 0, 1, 2):
                vals.add(base ** k + d)
            for mlt in (2, 5, 999, 1023):
                vals.add(base ** k * mlt)
            for mlt in (1.04, 1.06, 1.5, 999.94, 999.96, 1023.9):
                vals.add(base ** k * mlt)
    vals |= {0, 1, 2, 0.5, 1.0, 1.5, 999.9, 10 ** 30, 10 ** 40}
    for v in sorted(v for v in vals if v >= 0):
        for b in (False, True):
            yield {"value": v, "binary": b}
    for v in ("1000", "1e3", "1", "1023.9", True):
        for b in (False, True):
            yield {"value": v, "binary": b}


def check_filesize(w):
    r = F.do_filesizeformat(w["value"], w["binary"])
    return (not spec_filesize_ok(w["value"], w["binary"], r), f"do_filesizeformat({w['value']!r}, binary={w['binary']}) = {r!r}")


# ---- round / wrappers (native) ---------------------------------------------------------------------
def cases_round(tier, seed):
    for k in range(-40, 41):
        for p in (0, 1, 2):
            for m in ("common", "ceil", "floor"):
                yield {"value": k / 8, "precision": p, "method": m}
    for m in ("Common", "trunc", "", "fabs", "ceil ", "__doc__", "pi", "round"):
        yield {"value": 2.5, "precision": 0, "method": m}
    for m in ("common", "ceil", "floor"):
        for v in (0, 1, 42, -7, 1234, True):  # integer inputs: a float is returned all the same
            for p in (0, 2, -2):
                yield {"value": v, "precision": p, "method": m}
        for v in ("float('inf')", "float('-inf')", "float('nan')", "1e308", "-1e308"):  # non-finite / scaling overflows
            for p in (0, 2):
                yield {"value": v, "precision": p, "method": m}


def cases_wrappers(tier, seed):
    yield {}


BOUNDED = [
    Bounded("C23.bounded.truncate", cases_truncate, replay_truncate,
            "the four docstring examples; all strings of length <= 6 over {a, space, <} x length in {1,2,4} x end in {'', '.', '..'} x killwords x 6 (leeway argument, policy leeway) pairs incl. explicit 0 against a different policy value"),
    Bounded("C23.bounded.indent", cases_indent, check_indent,
            "all strings of length <= 5 over {a, space, \\n, <, \\r, \\t, U+2028} x width in {0, 2, '>>'} x first x blank, plus 200 seeded strings of length 6..40",
            classify_indent),
    Bounded("C23.bounded.indent.markup", cases_indent_markup, check_indent_markup,
            "all texts of length <= 4 over {a, <, &, \\n} and 3 longer ones, as str and Markup x width in {2, '> ', Markup('&gt; '), Markup('  ')} x first x blank, on the real MarkupSafe",
            classify_indent_markup),
    Bounded("C23.bounded.wordwrap", cases_wordwrap, check_wordwrap,
            "all strings of length <= 5 over {a, b, space, \\n, <, -, \\t} x width 1..3 x break_long_words x break_on_hyphens, plus 150 seeded strings of length 10..80 x width in {1,4,9,20} x two wrap strings"),
    Bounded("C23.bounded.title", cases_title, check_title, "all strings of length <= 5 over {a, B, space, \\n, <, -, ß} plus 300 seeded strings"),
    Bounded("C23.bounded.wordcount", cases_wordcount, check_wordcount, "all strings of length <= 5 over {a, 1, space, \\n, <, _, é} plus 300 seeded strings"),
    Bounded("C23.bounded.striptags", cases_striptags, check_striptags, "all strings of length <= 5 over {a, B, space, \\n, <, >, &} plus seeded and hand-picked tag/comment/entity cases, as str, Markup and __html__ object"),
    Bounded("C23.bounded.urlencode", cases_urlencode, check_urlencode, "all strings of length <= 5 over {a, space, \\n, <, /, %, é} (round trip through urllib.parse.unquote, output alphabet), all key/value pairs of length <= 2 over {a, space, &, =, +, /, é, %} as query strings; 5 small mappings as MappingProxyType, ChainMap, UserDict, an abc.Mapping class and OrderedDict", classify_urlencode),
    Bounded("C23.bounded.filesizeformat", cases_filesize, check_filesize, "base**k + {-2..2} and multiples around every unit boundary for k <= 9, decimal and binary, ints, floats, numeric strings"),
    Bounded("C23.bounded.round", cases_round, lambda w: replay_round(w), "k/8 for |k| <= 40 x precision 0..2 x the three methods (float arithmetic exact), 8 undocumented method names, 6 integer values x precision in {0,2,-2}, inf/-inf/nan/+-1e308 x precision in {0,2}", classify_round),
    Bounded("C23.bounded.wrappers", cases_wrappers, lambda w: replay_wrappers(w), "13 sample values x argument samples for upper/lower/capitalize/center/trim/replace/format against the str methods"),
]

WRAPPERS = [Wrapper("upper", "upper", 0), Wrapper("lower", "lower", 0), Wrapper("capitalize", "capitalize", 0),
            Wrapper("center", "center", 1), Wrapper("trim", "strip", 1), Wrapper("trim", "strip", 0, "default"),
            Wrapper("replace", "replace", 3, "count"), Wrapper("replace", "replace", 2, "all"),
            Wrapper("format", "__mod__", 2, "args"), Wrapper("format", "__mod__", 0, "kwargs"),
            Wrapper("format", "__mod__", 1, "both"), Wrapper("format", "__mod__", 0, "none")]

TRUNCATE = [Truncate(pol, cl) for pol in (False, True) for cl in (("total", "short_unchanged"), ("long_cut",), ("last_word_dropped",))]

TASKS = [*TRUNCATE, *[TruncateMixed(a, b) for a in "PM" for b in "PM"], Round(), IndentEscaping(), *WRAPPERS,
         Conv("int", False), Conv("int", True), Conv("float", False), Conv("float", True), *BOUNDED]

META = {
    "level": "proof",
    "explanation": "Proved on the real bodies: do_truncate against the documented length contract (string VC, both leeway sources); "
                   "do_int/do_float totality over dependency specs of int()/float() that may raise TypeError, ValueError or OverflowError "
                   "(fails for OverflowError on the unchanged tree = DESIGN F17, listed as known findings); do_round validates the method "
                   "before it selects a function of `math` and computes the documented expression; upper/lower/capitalize/center/trim/"
                   "replace(no autoescape)/format are exactly one str operation on soft_str(value) with the caller's arguments. "
                   "The deciding step for indent, wordwrap, title, wordcount, filesizeformat, striptags, urlencode (regex / textwrap / "
                   "float formatting) is a bounded check with the stated bound against executable specifications.",
    "assumptions": ["A4 dependency specs of builtins (int, float, round, math.ceil/floor, str methods, soft_str) as stated in the module",
                    "truncate: requires length >= len(end) and leeway >= 0 (the function asserts both)",
                    "values handed to int/float are strings, numbers, booleans, None or containers (no user classes with raising __int__/__float__)"],
    "trusted_base": ["z3 5.1 / cvc5", "pyvc symbolic executor",
                     "dependency spec: int(x) raises only TypeError/ValueError/OverflowError, int(str, base) only TypeError/ValueError, float(x) only TypeError/ValueError/OverflowError (ValueError for str)",
                     "dependency spec: str.rsplit(sep, 1) splits at the last separator", "dependency spec: str slicing / concatenation / length (SMT string theory)",
                     "dependency spec: round(x, n) has the type of x; true division and float() give floats; math.ceil/math.floor raise on inf/nan",
                     "dependency spec: Markup combinators escape plain operands, len(escape(x)) >= len(x) (C23.indent.escaping_consistent, C23.truncate.mixed)",
                     "executable specifications of the bounded stand-ins (this module)", "urllib.parse.unquote / parse_qsl, fractions, re (oracles of the stand-ins)"],
}
