"""C27  The bytecode cache never yields stale code and tolerates interrupted writes.

Functions under contract (real source of jinja2/bccache.py and jinja2/loaders.py):

  Bucket.load_bytecode            total (raises nothing whatever the stream holds: f.read / pickle.load / marshal.load are
                                  abstract callees with their documented raise sets) and gated (code is set only if the magic
                                  equals bc_magic and the stored checksum equals the bucket's; every other outcome is a reset)
  Bucket.write_bytecode / bytecode_to_string / bytecode_from_string    record layout, round trip through a ghost byte stream
  BytecodeCache.get_bucket        checksum from the CURRENT source, key from (name, filename), fresh empty bucket, one load
  BytecodeCache.get_source_checksum   injective in the source (sha1/utf-8 assumed collision-free)
  BytecodeCache.get_bucket (key.config)   read-set obligation: the compile-relevant configuration of the environment reaches the
                                  key or the checksum
  BaseLoader.load                 compiles the current source whenever bucket.code is None, stores only then, builds the
                                  template from the cached code otherwise
  FileSystemBytecodeCache.dump_bytecode   ghost file-system event trace: atomic replacement, temp file cleanup
  FileSystemBytecodeCache.load_bytecode / clear, MemcachedBytecodeCache.load_bytecode / dump_bytecode

Bounded stand-ins (never reported as proved): truncation of real stored entries at every byte offset (file system and
memcached), foreign / stale / damaged entries, exhaustive load/modify/clear histories over two environments sharing a cache
directory, fault injection at every crash point of the real dump_bytecode.
"""
from __future__ import annotations

import io
import itertools
import marshal
import os
import pickle
import tempfile

import z3

from pyvc.contract import VC, Res, FnTask
from pyvc.values import (
    State, Sym, Ref, HObj, HList, HDict, HIter, SSeq, Obj, Exc, Event, Unsupported, fresh, fresh_name, sym,
)
from pyvc.smt import to_term, model_value, host_const
from pyvc import abstract as A
from pyvc.interp import Raised

import jinja2
import jinja2.bccache as B
import jinja2.loaders as L

# documented raise sets (library reference: pickle "other exceptions may also be raised during unpickling, including (but not
# necessarily limited to) AttributeError, EOFError, ImportError, and IndexError"; ValueError: unsupported protocol;
# marshal.load "raise EOFError, ValueError or TypeError")
PICKLE_LOAD_RAISES = (EOFError, pickle.UnpicklingError, AttributeError, ImportError, IndexError, ValueError)
MARSHAL_LOAD_RAISES = (EOFError, ValueError, TypeError)

# byte strings that make the C unpickler of this interpreter raise the given class (IndexError is only raised by the
# pure-Python unpickler; the stack-underflow input stands for it)
PICKLE_BYTES = {
    "EOFError": b"", "UnpicklingError": b"\x00zz", "AttributeError": b"cos\nnonexistent_attr\n.",
    "ImportError": b"cnonexistent_mod_c27\nfoo\n.", "IndexError": b"0.", "ValueError": b"\x80\x09N.",
}
MARSHAL_BYTES = {"EOFError": b"(", "ValueError": b"\x01", "TypeError": b"0"}


# ------------------------------------------------------------------------------------------------
# native helpers
# ------------------------------------------------------------------------------------------------

def sample_code():
    return compile("x = 1\ny = [x, 2]\n", "<c27>", "exec")


def replay_load(w):
    """real Bucket.load_bytecode on a real byte stream built from the witness; oracle: never raises, code is set iff
    the magic and the checksum agree and the marshal stream is intact (then it is the stored code), None otherwise"""
    from jinja2.bccache import Bucket, bc_magic
    code = sample_code()
    checksum = "a" * 40
    magic_ok = bool(w.get("magic_ok", True))
    stored = w.get("stored", "ok")
    mar = w.get("marshal", "ok")
    data = bc_magic if magic_ok else bc_magic[:-3] + bytes([(bc_magic[-3] + 1) % 256]) + bc_magic[-2:]
    if stored == "ok":
        data += pickle.dumps(checksum, 2)
    elif stored == "other":
        data += pickle.dumps("b" * 40, 2)
    else:
        data += PICKLE_BYTES.get(stored, b"")
    if stored not in ("ok", "other"):
        mar = None  # the stream ends inside the damaged checksum record
    elif mar == "ok":
        data += marshal.dumps(code)
    elif mar is not None:
        data += MARSHAL_BYTES.get(mar, b"")
    b = Bucket(None, "k" * 40, checksum)
    if w.get("pre_code", True):
        b.code = compile("old = 1", "<old>", "exec")
    want = code if (magic_ok and stored == "ok" and mar == "ok") else None
    desc = f"entry(magic_ok={magic_ok}, checksum={stored}, code={mar}, bucket had code before={bool(w.get('pre_code', True))})"
    try:
        b.load_bytecode(io.BytesIO(data))
    except BaseException as ex:  # noqa
        return (True, f"Bucket.load_bytecode on {desc} raises {type(ex).__name__}: {str(ex)[:80]} (must be a cache miss)")
    if b.code != want or (b.key, b.checksum) != ("k" * 40, checksum):
        return (True, f"Bucket.load_bytecode on {desc}: code={'<code>' if b.code is not None else None}, expected {'the stored code' if want else 'None (miss)'}")
    return (False, f"Bucket.load_bytecode on {desc} behaves as specified")


def replay_load_family(w):
    v, d = replay_load(w)
    if v:
        return v, d
    for magic_ok, stored, mar, pre in itertools.product((True, False), ("ok", "other", "EOFError", "UnpicklingError", "ValueError", "AttributeError", "ImportError"),
                                                        ("ok", "EOFError", "ValueError"), (True, False)):
        v2, d2 = replay_load({"magic_ok": magic_ok, "stored": stored, "marshal": mar, "pre_code": pre})
        if v2:
            return v2, d2 + " (replay family)"
    return v, d


def replay_roundtrip(w):
    from jinja2.bccache import Bucket
    code = sample_code()
    probs = []
    for same_sum in (True, False):
        for via in ("string", "file"):
            b1 = Bucket(None, "k", "s1")
            b1.code = code
            b2 = Bucket(None, "k", "s1" if same_sum else "s2")
            b2.code = compile("old = 1", "<old>", "exec")
            try:
                if via == "string":
                    b2.bytecode_from_string(b1.bytecode_to_string())
                else:
                    f = io.BytesIO()
                    b1.write_bytecode(f)
                    f.seek(0)
                    b2.load_bytecode(f)
            except BaseException as ex:  # noqa
                probs.append(f"{via} round trip raises {type(ex).__name__}: {ex}")
                continue
            want = code if same_sum else None
            if b2.code != want:
                probs.append(f"{via} round trip with {'equal' if same_sum else 'different'} checksums gives code={b2.code!r}, expected {want!r}")
    b = Bucket(None, "k", "s")
    try:
        b.bytecode_to_string()
        probs.append("writing an empty bucket does not raise TypeError")
    except TypeError:
        pass
    return (bool(probs), "; ".join(probs) or "write/load round trips restore the code iff the checksums agree")


# ------------------------------------------------------------------------------------------------
# ghost byte streams
# ------------------------------------------------------------------------------------------------

class GFile:
    """ghost binary stream.  mode 'abstract': unknown content; mode 'records': a tuple of records written by
    f.write / pickle.dump / marshal.dump, read back record-wise (dependency spec: load o dump = id)"""


class GBytes:
    """ghost bytes value produced by GFile.getvalue"""


def gfile(st, mode, buf=(), initial=False, name=None):
    return st.alloc(HObj(GFile, fields={"mode": mode, "buf": tuple(buf), "pos": 0, "closed": False, "name": name}), initial=initial)


def ln(node):
    return getattr(node, "lineno", None)


def install_stream_specs(I):
    def h_read(I_, st, args, kwargs, node):
        f, n = args
        h = st.get(f)
        if h.fields["mode"] == "abstract":
            v = fresh("read", "obj")
            st.trace.append(Event("call", "f.read", [f, n], {}, v, lineno=ln(node)))
            return [(st, v)]
        buf, pos = h.fields["buf"], h.fields["pos"]
        if pos < len(buf) and buf[pos][0] == "raw" and isinstance(buf[pos][1], bytes) and len(buf[pos][1]) == n:
            h.fields["pos"] = pos + 1
            st.trace.append(Event("call", "f.read", [f, n], {}, buf[pos][1], lineno=ln(node)))
            return [(st, buf[pos][1])]
        raise Unsupported("ghost stream: read is not aligned with a raw record", node)

    I.specs["GFile.read"] = h_read

    def loader(name, kind, raises):
        abstract = A.abstract_fn(name, returns="obj", raises=raises)

        def h(I_, st, args, kwargs, node):
            f = args[0]
            h_ = st.get(f) if isinstance(f, Ref) else None
            if not (isinstance(h_, HObj) and h_.cls is GFile):
                raise Unsupported(f"{name} on a non-ghost stream", node)
            if h_.fields["mode"] == "abstract":
                return abstract(I_, st, args, kwargs, node)
            buf, pos = h_.fields["buf"], h_.fields["pos"]
            if pos < len(buf) and buf[pos][0] == kind:
                h_.fields["pos"] = pos + 1
                st.trace.append(Event("call", name, args, kwargs, buf[pos][1], lineno=ln(node)))
                return [(st, buf[pos][1])]
            raise Unsupported(f"ghost stream: {name} is not aligned with a {kind} record", node)

        return h

    I.specs[("fn", id(pickle.load))] = loader("pickle.load", "pickle", PICKLE_LOAD_RAISES)
    I.specs[("fn", id(marshal.load))] = loader("marshal.load", "marshal", MARSHAL_LOAD_RAISES)

    def h_write(I_, st, args, kwargs, node):
        f, data = args
        h = st.get(f)
        h.fields["buf"] = h.fields["buf"] + (("raw", data),)
        st.trace.append(Event("call", "f.write", [f, data], {}, None, lineno=ln(node)))
        return [(st, None)]

    I.specs["GFile.write"] = h_write

    def dumper(name, kind):
        def h(I_, st, args, kwargs, node):
            obj, f = args[0], args[1]
            h_ = st.get(f)
            h_.fields["buf"] = h_.fields["buf"] + ((kind, obj),)
            st.trace.append(Event("call", name, args, kwargs, None, lineno=ln(node)))
            return [(st, None)]

        return h

    I.specs[("fn", id(pickle.dump))] = dumper("pickle.dump", "pickle")
    I.specs[("fn", id(marshal.dump))] = dumper("marshal.dump", "marshal")

    def h_bytesio(I_, st, args, kwargs, node):
        if not args:
            return [(st, gfile(st, "records"))]
        (x,) = args
        if isinstance(x, Ref) and isinstance(st.get(x), HObj) and st.get(x).cls is GBytes:
            r = gfile(st, "records", st.get(x).fields["buf"])
        else:
            r = gfile(st, "abstract")
            st.get(r).fields["of"] = x
        st.trace.append(Event("call", "BytesIO", args, kwargs, r, lineno=ln(node)))
        return [(st, r)]

    I.specs[("fn", id(B.BytesIO))] = h_bytesio

    def h_getvalue(I_, st, args, kwargs, node):
        h = st.get(args[0])
        return [(st, st.alloc(HObj(GBytes, fields={"buf": h.fields["buf"]})))]

    I.specs["GFile.getvalue"] = h_getvalue


def bucket_obj(st, tag="self", code="sym"):
    fields = {"environment": sym(f"{tag}_environment", "obj"), "key": sym(f"{tag}_key", "obj"), "checksum": sym(f"{tag}_checksum", "obj"),
              "code": sym(f"{tag}_code", "obj") if code == "sym" else code}
    return A.obj(st, B.Bucket, tag, fields=dict(fields)), fields


# ------------------------------------------------------------------------------------------------
# Bucket.load_bytecode
# ------------------------------------------------------------------------------------------------

class BucketLoad(VC):
    prop = "C27"
    target = "jinja2.bccache:Bucket.load_bytecode"

    def __init__(self):
        VC.__init__(self, "C27", "C27.Bucket.load_bytecode")

    def configure(self, I):
        install_stream_specs(I)
        I.inline.add("jinja2.bccache:Bucket.reset")

    def setup(self, I, st):
        self.bucket, self.pre = bucket_obj(st)
        self.f = gfile(st, "abstract", initial=True)
        return [self.bucket, self.f], {}

    def events(self, out):
        return [e for e in out.st.trace if e.kind == "call" and e.name in ("f.read", "pickle.load", "marshal.load")]

    def p_total(self, pre, out):
        """a truncated, foreign or stale entry is a cache miss and never raises"""
        return not out.raised

    def p_gate(self, pre, out):
        if out.raised:
            return None
        evs = self.events(out)
        names = [e.name for e in evs]
        if names not in (["f.read"], ["f.read", "pickle.load"], ["f.read", "pickle.load", "marshal.load"]) or any(e.args[0] != self.f for e in evs):
            return False
        fields = out.st.get(self.bucket).fields
        if any(fields.get(k) is not self.pre[k] for k in ("environment", "key", "checksum")) or set(fields) != set(self.pre):
            return False
        code = fields["code"]
        m_ok = to_term(evs[0].result, "obj") == host_const(B.bc_magic)
        stored = evs[1].result if len(evs) > 1 else None
        c_ok = (to_term(stored, "obj") == self.pre["checksum"].t) if isinstance(stored, Sym) else z3.BoolVal(False)
        mres = evs[2].result if len(evs) > 2 else None
        if code is None:
            # a miss: legitimate exactly when something disagrees or the code stream is damaged
            if isinstance(mres, Exc):
                return z3.And(m_ok, c_ok)
            if mres is not None:
                return False
            return z3.Not(z3.And(m_ok, c_ok))
        if mres is not None and code is mres:
            return z3.And(m_ok, c_ok)
        return False

    posts = [("total", p_total), ("gate", p_gate)]

    def concretize(self, model, pre, out):
        evs = self.events(out)
        w = {"pre_code": True}
        if evs:
            w["magic_ok"] = bool(model_value(model, to_term(evs[0].result, "obj") == host_const(B.bc_magic)))
        w["stored"] = None
        w["marshal"] = None
        if len(evs) > 1:
            r = evs[1].result
            if isinstance(r, Exc):
                w["stored"] = r.cls.__name__
            else:
                w["stored"] = "ok" if model_value(model, to_term(r, "obj") == self.pre["checksum"].t) is True else "other"
        if len(evs) > 2:
            r = evs[2].result
            w["marshal"] = r.cls.__name__ if isinstance(r, Exc) else "ok"
        if out.raised:
            w["unguarded"] = getattr(out.value, "from_call", "?")
            w["exc"] = out.value.cls.__name__ if out.value.cls else "?"
        return w

    def finding_key(self, res):
        w = res.witness or {}
        if w.get("unguarded"):
            return f"unguarded:{w['unguarded']}"
        return f"gate:magic_ok={w.get('magic_ok')},stored={w.get('stored')},marshal={w.get('marshal')}"

    def replay(self, w):
        return replay_load_family(w) if not w.get("unguarded") else replay_load(w)


class BucketWrite(VC):
    """write_bytecode: TypeError (nothing written) for an empty bucket; otherwise the three records magic, checksum, code
    in this order on the given stream"""
    prop = "C27"
    target = "jinja2.bccache:Bucket.write_bytecode"

    def __init__(self):
        VC.__init__(self, "C27", "C27.Bucket.write_bytecode")

    def configure(self, I):
        install_stream_specs(I)

    def setup(self, I, st):
        self.bucket, self.pre = bucket_obj(st)
        self.f = gfile(st, "records", initial=True)
        return [self.bucket, self.f], {}

    def p_layout(self, pre, out):
        buf = out.st.get(self.f).fields["buf"]
        empty = self.pre["code"].t == host_const(None)
        if out.raised:
            return z3.And(empty, z3.BoolVal(out.value.cls is TypeError and buf == ()))
        ok = (len(buf) == 3 and buf[0] == ("raw", B.bc_magic) and buf[1][0] == "pickle" and buf[1][1] is self.pre["checksum"]
              and buf[2][0] == "marshal" and buf[2][1] is self.pre["code"])
        return z3.And(z3.Not(empty), z3.BoolVal(ok))

    posts = [("layout", p_layout)]

    def concretize(self, model, pre, out):
        return {}

    def replay(self, w):
        return replay_roundtrip(w)


class RoundTrip(VC):
    """bucket2.bytecode_from_string(bucket1.bytecode_to_string()) restores bucket1's code iff the checksums agree, else
    resets bucket2 (real write_bytecode / bytecode_to_string / bytecode_from_string / load_bytecode inlined)"""
    prop = "C27"
    target = "jinja2.bccache:Bucket.bytecode_from_string"

    def __init__(self):
        VC.__init__(self, "C27", "C27.roundtrip")

    def configure(self, I):
        install_stream_specs(I)
        I.inline.update({"jinja2.bccache:Bucket.reset", "jinja2.bccache:Bucket.load_bytecode", "jinja2.bccache:Bucket.write_bytecode",
                         "jinja2.bccache:Bucket.bytecode_to_string"})

    def setup(self, I, st):
        self.b1, self.f1 = bucket_obj(st, "b1")
        st.assume(self.f1["code"].t != host_const(None))
        self.b2, self.f2 = bucket_obj(st, "b2")
        clo = I.closure_of_function(B.Bucket.bytecode_to_string)
        rs = [(s, v) for s, v in I.call_closure(st, clo, [self.b1], {}) if not isinstance(v, Raised)]
        if len(rs) != 1 or rs[0][0] is not st:
            raise Unsupported("bytecode_to_string forks")
        self.data = rs[0][1]
        return [self.b2, self.data], {}

    def p_restore(self, pre, out):
        if out.raised:
            return False
        code = out.st.get(self.b2).fields["code"]
        same = self.f1["checksum"].t == self.f2["checksum"].t
        if code is None:
            return z3.Not(same)
        return z3.And(same, z3.BoolVal(code is self.f1["code"]))

    posts = [("restores_code_iff_checksums_agree", p_restore)]

    def concretize(self, model, pre, out):
        return {}

    def replay(self, w):
        return replay_roundtrip(w)


# ------------------------------------------------------------------------------------------------
# native history oracle (used by replays and by the bounded stand-in)
# ------------------------------------------------------------------------------------------------

VERSIONS = ["<p>{{ x }}</p>{% for i in range(2) %}{{ i }}{% endfor %}", "{{ x }}!", "<i>{{ x|upper }}</i>\n  {%- if x %} y{% endif %}"]
OTHER = "other {{ x }}"


def fresh_render(cfg, source, cls=None):
    env = (cls or jinja2.Environment)(**cfg)
    try:
        t = env.from_string(source)
        return ("ok", t.render(x="<b>"))
    except Exception as ex:  # noqa
        return ("raise", type(ex).__name__)


def cached_render(env, name):
    try:
        return ("ok", env.get_template(name).render(x="<b>"))
    except Exception as ex:  # noqa
        return ("raise", type(ex).__name__)


def run_history(ops, cfgs, directory, make_cache=None, classes=(None, None)):
    """ops over two environments sharing a cache: 'L1'/'L2' load template t, 'U' loads template u through env 1,
    'M' modifies the source of t, 'C' clears the cache.  -> None or a description of the first stale / failing load"""
    from jinja2 import DictLoader
    src = {"t": VERSIONS[0], "u": OTHER}
    ver = 0
    make_cache = make_cache or (lambda: B.FileSystemBytecodeCache(directory))
    caches = [make_cache(), make_cache()]
    envs = [(classes[i] or jinja2.Environment)(loader=DictLoader(src), bytecode_cache=caches[i], cache_size=0, **cfgs[i]) for i in (0, 1)]
    for k, op in enumerate(ops):
        if op == "M":
            ver = (ver + 1) % len(VERSIONS)
            src["t"] = VERSIONS[ver]
        elif op == "C":
            caches[0].clear()
        else:
            i = 1 if op == "L2" else 0
            name = "u" if op == "U" else "t"
            got = cached_render(envs[i], name)
            want = fresh_render(cfgs[i], src[name], classes[i])
            if got != want:
                return f"history {list(ops[:k + 1])}: env{i + 1}.get_template({name!r}) gives {got!r}, compiling the current source with this environment gives {want!r}"
    return None


def replay_history(w):
    d = tempfile.mkdtemp(prefix="c27h")
    try:
        import shutil
        for n in (1, 2, 3):
            for ops in itertools.product(("L1", "L2", "M", "C", "U"), repeat=n):
                sub = os.path.join(d, "h")
                os.mkdir(sub)
                try:
                    r = run_history(ops, ({}, {}), sub)
                finally:
                    shutil.rmtree(sub, ignore_errors=True)
                if r:
                    return (True, r)
        return (False, "all load/modify/clear histories up to length 3 over two equal environments render the current source")
    finally:
        import shutil
        shutil.rmtree(d, ignore_errors=True)


# ------------------------------------------------------------------------------------------------
# BytecodeCache.get_bucket / get_source_checksum
# ------------------------------------------------------------------------------------------------

class GetBucket(VC):
    prop = "C27"
    target = "jinja2.bccache:BytecodeCache.get_bucket"

    def __init__(self):
        VC.__init__(self, "C27", "C27.BytecodeCache.get_bucket")

    def configure(self, I):
        I.inline.update({"jinja2.bccache:Bucket.__init__", "jinja2.bccache:Bucket.reset"})
        I.specs["BytecodeCache.get_cache_key"] = A.abstract_fn("get_cache_key", returns="obj")
        I.specs["BytecodeCache.get_source_checksum"] = A.abstract_fn("get_source_checksum", returns="obj")

        def h_load(I_, st, args, kwargs, node):
            cache, bucket = args
            hb = st.get(bucket) if isinstance(bucket, Ref) else None
            snap = dict(hb.fields) if isinstance(hb, HObj) else None
            out = []
            s2 = st.fork()
            e = Exc(None, (), tag="cache backend", within=Exception, origin=ln(node))
            s2.trace.append(Event("call", "load_bytecode", args, {"snap": snap}, e, lineno=ln(node)))
            out.append((s2, Raised(e)))
            if isinstance(hb, HObj):
                hb.fields["code"] = fresh("loaded_code", "obj")  # whatever the backend found (possibly None)
            st.trace.append(Event("call", "load_bytecode", args, {"snap": snap, "loaded": hb.fields.get("code") if isinstance(hb, HObj) else None}, None, lineno=ln(node)))
            out.append((st, None))
            return out

        I.specs["BytecodeCache.load_bytecode"] = h_load

    def setup(self, I, st):
        self.cache = A.obj(st, B.BytecodeCache, "self")
        self.env, self.name_, self.filename, self.source = (sym(n, "obj") for n in ("environment", "name", "filename", "source"))
        return [self.cache, self.env, self.name_, self.filename, self.source], {}

    def p_bucket(self, pre, out):
        """a fresh, empty bucket whose checksum is computed from the current source and whose key from (name, filename)"""
        ld, ck, cs = A.calls(out, "load_bytecode"), A.calls(out, "get_cache_key"), A.calls(out, "get_source_checksum")
        if len(ld) != 1 or len(ck) != 1 or len(cs) != 1:
            return False
        if tuple(ck[0].args[1:]) != (self.name_, self.filename) or ck[0].kwargs or tuple(cs[0].args[1:]) != (self.source,) or cs[0].kwargs:
            return False
        b = ld[0].args[1]
        snap = ld[0].kwargs["snap"]
        if not isinstance(b, Ref) or b.id not in out.st.allocated or snap is None or not isinstance(out.st.get(b), HObj) or out.st.get(b).cls is not B.Bucket:
            return False
        if not (snap.get("environment") is self.env and snap.get("key") is ck[0].result and snap.get("checksum") is cs[0].result and snap.get("code", 0) is None):
            return False
        if out.raised:
            return out.value is ld[0].result
        f = out.st.get(b).fields
        return (out.value == b and f.get("code") is ld[0].kwargs["loaded"] and f.get("key") is ck[0].result and f.get("checksum") is cs[0].result
                and f.get("environment") is self.env)

    posts = [("fresh_bucket_current_source_one_load", p_bucket)]

    def concretize(self, model, pre, out):
        return {}

    def replay(self, w):
        return replay_history(w)


def install_hash_specs(I, owner):
    """sha1 / encode as uninterpreted functions; injectivity (collision freedom) is assumed where stated"""
    owner.F_enc = z3.Function("utf8_encode", Obj, Obj)
    owner.F_encs = z3.Function("utf8_encode_str", z3.StringSort(), Obj)
    owner.F_cat = z3.Function("bytes_concat", Obj, Obj, Obj)
    owner.F_hex = z3.Function("sha1_hexdigest", Obj, Obj)

    class GHash:
        pass

    owner.GHash = GHash

    owner.has_sur = z3.Function("has_lone_surrogate", Obj, z3.BoolSort())
    owner.F_lossy = z3.Function("utf8_encode_lossy", Obj, Obj)

    def encode(st, who, recv_obj, fn, args, kwargs, node):
        """str.encode(encoding='utf-8', errors='strict'): strict raises UnicodeEncodeError for a string with lone surrogates,
        'surrogatepass' is total and injective, the replacing handlers are total but lose information"""
        encoding = kwargs.get("encoding", args[0] if args else "utf-8")
        errors = kwargs.get("errors", args[1] if len(args) > 1 else "strict")
        if not isinstance(encoding, str) or encoding.lower().replace("_", "-") not in ("utf-8", "utf8") or not isinstance(errors, str):
            raise Unsupported(f"encode({encoding!r}, {errors!r})", node)
        if errors == "surrogatepass":
            return [(st, Sym(fn(recv_obj), "obj"))]
        if errors != "strict":
            return [(st, Sym(owner.F_lossy(recv_obj), "obj"))]
        s2 = st.fork()
        s2.assume(owner.has_sur(recv_obj))
        e = Exc(UnicodeEncodeError, (), tag=f"encode:{who}", origin=ln(node))
        e.from_call = f"str.encode({who})"
        s2.trace.append(Event("call", "str.encode", [who], {}, e, lineno=ln(node)))
        st.assume(z3.Not(owner.has_sur(recv_obj)))
        return [(s2, Raised(e)), (st, Sym(fn(recv_obj), "obj"))]

    def who_of(v):
        try:
            names = set()

            def walk(t):
                if z3.is_const(t) and t.decl().kind() == z3.Z3_OP_UNINTERPRETED:
                    names.add(t.decl().name())
                for c in t.children():
                    walk(c)

            walk(v.t)
            return ",".join(sorted(n for n in names if "!" not in n)) or "?"
        except Exception:
            return "?"

    def h_method_obj(I_, st, args, kwargs, node):
        recv, name = args[0], args[1]
        if name == "encode":
            return encode(st, who_of(recv), recv.t, owner.F_enc, list(args[2:]), kwargs, node)
        if name == "replace" and len(args) == 4 and all(isinstance(a, str) for a in args[2:]) and not kwargs:
            # some total function of the string (whether it keeps the key injective is decided by the bounded stand-in)
            f = z3.Function(f"str.replace[{args[2]!r},{args[3]!r}]", Obj, Obj)
            return [(st, Sym(f(recv.t), "obj"))]
        return None

    I.specs["method_obj"] = h_method_obj

    def h_getattr_obj(I_, st, args, kwargs, node):
        from pyvc.values import BoundMethod
        o, name = args
        return [(st, BoundMethod(o, name))] if name in ("encode", "replace") else None

    I.specs["getattr_obj"] = h_getattr_obj

    def h_str_encode(I_, st, args, kwargs, node):
        from pyvc.smt import str2obj
        return encode(st, who_of(args[0]), str2obj(to_term(args[0], "str")), lambda o: owner.F_encs(to_term(args[0], "str")), list(args[1:]), kwargs, node)

    I.specs["str.encode"] = h_str_encode

    def h_sha1(I_, st, args, kwargs, node):
        (data,) = args
        return [(st, st.alloc(HObj(GHash, fields={"data": to_term(data, "obj")})))]

    I.specs[("fn", id(B.sha1))] = h_sha1

    def h_update(I_, st, args, kwargs, node):
        h = st.get(args[0])
        h.fields["data"] = owner.F_cat(h.fields["data"], to_term(args[1], "obj"))
        return [(st, None)]

    I.specs["GHash.update"] = h_update
    I.specs["GHash.hexdigest"] = lambda I_, st, args, kwargs, node: [(st, Sym(owner.F_hex(st.get(args[0]).fields["data"]), "obj"))]


def replay_checksum(w):
    from jinja2.bccache import BytecodeCache
    c = BytecodeCache()
    corpus = ["", " ", "a", "a ", " a", "A", "ab", "ba", "{{ x }}", "{{ x }} ", "{{x}}", "{{ y }}", "é", "é", "a" * 64, "a" * 65, "a" * 64 + "b", "\n", "\r\n"]
    seen = {}
    for s in corpus:
        k = c.get_source_checksum(s)
        if k != c.get_source_checksum(str(s)) or k != BytecodeCache().get_source_checksum(s):
            return (True, f"get_source_checksum({s!r}) is not a function of the source")
        if k in seen:
            return (True, f"get_source_checksum({s!r}) == get_source_checksum({seen[k]!r}): a modified source would be served stale code")
        seen[k] = s
    return (False, f"get_source_checksum distinguishes the {len(corpus)} corpus sources")


class ChecksumInjective(VC):
    """two-run obligation: equal checksums imply equal sources (so a changed source is never served the old code); the
    checksum depends on nothing but the source.  utf-8 encoding and sha1 are assumed collision-free."""
    prop = "C27"
    target = "jinja2.bccache:BytecodeCache.get_source_checksum"

    def __init__(self):
        VC.__init__(self, "C27", "C27.BytecodeCache.get_source_checksum")

    def configure(self, I):
        install_hash_specs(I, self)

    def setup(self, I, st):
        self.cache = A.obj(st, B.BytecodeCache, "self")
        self.s1, self.s2 = sym("source1", "obj"), sym("source2", "obj")
        x = z3.Const("inj_x", Obj)
        inv_e, inv_h = z3.Function("inv_encode", Obj, Obj), z3.Function("inv_sha1", Obj, Obj)
        # collision freedom of utf-8 encoding and sha1: hypothesis of the injectivity clause only
        self.collision_free = z3.And(z3.ForAll([x], inv_e(self.F_enc(x)) == x), z3.ForAll([x], inv_h(self.F_hex(x)) == x))
        clo = I.closure_of_function(B.BytecodeCache.get_source_checksum)
        rs = [(s_, v) for s_, v in I.call_closure(st, clo, [self.cache, self.s2], {}) if not isinstance(v, Raised)]
        if len(rs) != 1 or rs[0][0] is not st:
            raise Unsupported("get_source_checksum forks")
        self.r2 = rs[0][1]
        return [self.cache, self.s1], {}

    def p_total(self, pre, out):
        """(hunt C27_1) computing the checksum never raises: a source that compiles and renders without a cache (lone
        surrogates included) must load through a cache, at worst as a miss"""
        return not out.raised

    def p_inj(self, pre, out):
        if out.raised:
            return None
        r1, r2 = to_term(out.value, "obj"), to_term(self.r2, "obj")
        return z3.Implies(self.collision_free, z3.And(z3.Implies(r1 == r2, self.s1.t == self.s2.t), z3.Implies(self.s1.t == self.s2.t, r1 == r2)))

    posts = [("total", p_total), ("equal_checksums_iff_equal_sources", p_inj)]

    def concretize(self, model, pre, out):
        if out.raised:
            return {"raises": out.value.cls.__name__, "encoding": "source"}
        return {}

    def finding_key(self, res):
        w = res.witness or {}
        return f"{w.get('raises')}:{w.get('encoding')}" if w.get("raises") else "injective"

    def replay(self, w):
        if w.get("raises"):
            return replay_surrogates(w)
        return replay_checksum(w)


def replay_surrogates(w):
    """hunt C27_1: names / file names / sources with lone surrogates load without a cache; with one they must load too"""
    import shutil
    from jinja2 import DictLoader, FunctionLoader
    cases = {"source": ("t", "x\ud800y{{ 1 }}", None), "name": ("n\udcfe.html", "hi {{ 1 }}", None), "filename": ("t", "hello {{ 2 }}", "/tmp/x/tpl\udcff/t.html")}
    order = [w.get("encoding")] if w.get("encoding") in cases else []
    for which in order + [k for k in cases if k not in order]:
        name, source, filename = cases[which]
        load = FunctionLoader(lambda n, name=name, source=source, filename=filename: (source, filename, None) if n == name else None)
        want = cached_render(jinja2.Environment(loader=load, cache_size=0), name)
        for kind in ("fs", "memcached"):
            d = tempfile.mkdtemp(prefix="c27s")
            try:
                cache = B.FileSystemBytecodeCache(d) if kind == "fs" else B.MemcachedBytecodeCache(MemClient())
                env = jinja2.Environment(loader=load, bytecode_cache=cache, cache_size=0)
                for attempt in ("first load", "second load"):
                    got = cached_render(env, name)
                    if got != want:
                        return (True, f"lone surrogate in the template {which} ({name!r}, filename {filename!r}, source {source!r}): without a cache {want!r}, "
                                      f"{attempt} through {type(cache).__name__} {got!r}")
            finally:
                shutil.rmtree(d, ignore_errors=True)
    return (False, "names, file names and sources with lone surrogates load through the caches as they do without")


def replay_key_collision(w):
    """hunt C27_2: two templates with equal source whose (name, filename) pairs get the same cache key"""
    import shutil
    from jinja2 import FunctionLoader
    pairs = [tuple(w["pair"][0]), tuple(w["pair"][1])] if w.get("pair") else [("a|b", None), ("a", "b")]
    src = "{{ self }}"
    table = {n: (src, f, None) for n, f in pairs}
    if len(table) < 2:
        table = None
    d = tempfile.mkdtemp(prefix="c27k")
    try:
        if table is None:
            # same name, different file names: two loaders sharing the cache directory
            outs = []
            for n, f in pairs:
                env = jinja2.Environment(loader=FunctionLoader(lambda x, n=n, f=f: (src, f, None)), bytecode_cache=B.FileSystemBytecodeCache(d), cache_size=0)
                t = env.get_template(n)
                outs.append(((t.render(), t.name, t.filename), (n, f)))
        else:
            env = jinja2.Environment(loader=FunctionLoader(lambda x: table.get(x)), bytecode_cache=B.FileSystemBytecodeCache(d), cache_size=0)
            outs = []
            for n, f in pairs:
                t = env.get_template(n)
                outs.append(((t.render(), t.name, t.filename), (n, f)))
        for (got, (n, f)) in outs:
            plain = jinja2.Environment(loader=FunctionLoader(lambda x, n=n, f=f: (src, f, None)), cache_size=0).get_template(n)
            want = (plain.render(), plain.name, plain.filename)
            if got != want:
                return (True, f"cache keys of {pairs[0]!r} and {pairs[1]!r} are equal ({B.BytecodeCache().get_cache_key(*pairs[0]) == B.BytecodeCache().get_cache_key(*pairs[1])}): "
                              f"template {n!r} (filename {f!r}) loaded through the cache gives {got!r}, compiling its current source gives {want!r}")
        return (False, f"templates {pairs!r} with equal sources are not served each other's code")
    finally:
        shutil.rmtree(d, ignore_errors=True)


class CacheKeyTotal(VC):
    """(hunt C27_1) get_cache_key never raises, whatever the name and the file name"""
    prop = "C27"
    target = "jinja2.bccache:BytecodeCache.get_cache_key"

    def __init__(self):
        VC.__init__(self, "C27", "C27.BytecodeCache.get_cache_key")

    def configure(self, I):
        install_hash_specs(I, self)

    def setup(self, I, st):
        self.cache = A.obj(st, B.BytecodeCache, "self")
        self.name_, self.filename = sym("name", "obj"), sym("filename", "obj")
        return [self.cache, self.name_, self.filename], {}

    def p_total(self, pre, out):
        return not out.raised

    def p_reads(self, pre, out):
        """the key is a function of the name and (when given) the file name"""
        if out.raised:
            return None
        names = set()

        def walk(t):
            if z3.is_const(t) and t.decl().kind() == z3.Z3_OP_UNINTERPRETED:
                names.add(t.decl().name())
            for c in t.children():
                walk(c)

        walk(to_term(out.value, "obj"))
        has_fn = self.filename.t != host_const(None)
        return z3.And(z3.BoolVal("name" in names), z3.Implies(z3.BoolVal("filename" not in names), z3.Not(has_fn)))

    posts = [("total", p_total), ("depends_on_name_and_filename", p_reads)]

    def concretize(self, model, pre, out):
        if out.raised:
            ev = [e for e in out.st.trace if e.kind == "call" and e.name == "str.encode" and isinstance(e.result, Exc)]
            return {"raises": out.value.cls.__name__, "encoding": ev[-1].args[0] if ev else "?"}
        return {}

    def finding_key(self, res):
        w = res.witness or {}
        return f"{w.get('raises')}:{w.get('encoding')}" if w.get("raises") else "reads"

    def replay(self, w):
        return replay_surrogates(w)


def bounded_key_injective(task, tier, seed):
    """(hunt C27_2) exhaustive small (name, filename) pairs through the real get_cache_key"""
    alphabet = ["a", "b", "|", "\\"]
    maxlen = 3 if tier == "quick" else 4
    names = ["".join(t) for k in range(1, maxlen + 1) for t in itertools.product(alphabet, repeat=k)]
    fnames = [None, ""] + names
    c = B.BytecodeCache()
    seen = {}
    n = 0
    first = None
    count = 0
    for nm in names + [""]:
        for fn in fnames:
            n += 1
            k = c.get_cache_key(nm, fn)
            if k in seen:
                count += 1
                if first is None:
                    first = (seen[k], (nm, fn))
            else:
                seen[k] = (nm, fn)
    task.bound_text = (f"all (name, filename) pairs with name and filename over the alphabet {alphabet!r} up to length {maxlen} (filename also None / empty): "
                       f"{n} pairs through the real BytecodeCache.get_cache_key")
    task.stats = {"pairs": n, "collisions": count}
    rs = [Res("C27.bounded.cache_key_injective", "bounded-ok", "native", 0, f"{n} pairs, {n - count} distinct keys", "bounded")]
    if first:
        rs.append(Res("C27.bounded.cache_key_injective#p0", "refuted", "native", 0,
                      f"{count} colliding pairs, first: get_cache_key{first[0]!r} == get_cache_key{first[1]!r}", "bounded", {"pair": [list(first[0]), list(first[1])]}))
    return rs


class KeyBounded(FnTask):
    def finding_key(self, res):
        (a, b) = (res.witness or {}).get("pair", [["?", "?"], ["?", "?"]])
        cls = "separator-in-name" if ("|" in (a[0] or "") or "|" in (b[0] or "")) else "other"
        return f"collision:{cls}"


CONFIG_OPTIONS = ["block_start_string", "block_end_string", "variable_start_string", "variable_end_string", "comment_start_string",
                  "comment_end_string", "line_statement_prefix", "line_comment_prefix", "trim_blocks", "lstrip_blocks", "newline_sequence",
                  "keep_trailing_newline", "extensions", "optimized", "finalize", "autoescape", "is_async", "sandboxed", "policies"]

# native demonstrations: (option, config of the first environment, config / class of the second, template)
CONFIG_CASES = [
    ("autoescape", {"autoescape": False}, {"autoescape": True}, None, "<p>{{ x }}</p>"),
    ("trim_blocks", {}, {"trim_blocks": True}, None, "{% if x %}\na{% endif %}\nb"),
    ("lstrip_blocks", {}, {"lstrip_blocks": True}, None, "  {% if x %}a{% endif %}"),
    ("keep_trailing_newline", {}, {"keep_trailing_newline": True}, None, "{{ x }}\n"),
    ("variable_start_string", {}, {"variable_start_string": "<<", "variable_end_string": ">>"}, None, "<< x >>{{ x }}"),
    ("line_statement_prefix", {}, {"line_statement_prefix": "#"}, None, "# if x\na\n# endif"),
    ("finalize", {}, {"finalize": lambda v: "F"}, None, "{{ 1 }}{{ x }}"),
    ("is_async", {}, {"enable_async": True}, None, "{{ x }}"),
    ("sandboxed", {}, {}, "sandbox", "{{ x.__class__.__name__ }}"),
    ("extensions", {}, {"extensions": ["jinja2.ext.loopcontrols"]}, None, "{% for i in [1, 2] %}{{ i }}{% endfor %}"),
    ("optimized", {}, {"optimized": False}, None, "{{ 1 + 1 }}{{ x }}"),
    ("newline_sequence", {}, {"newline_sequence": "\r\n"}, None, "a\nb{{ x }}"),
]


def config_case(opt, cfg1, cfg2, cls2, source, make_cache):
    """-> description if the second environment is served code compiled for the first one"""
    from jinja2 import DictLoader
    from jinja2.sandbox import SandboxedEnvironment
    c2 = SandboxedEnvironment if cls2 == "sandbox" else jinja2.Environment
    src = {"t": source}
    e1 = jinja2.Environment(loader=DictLoader(src), bytecode_cache=make_cache(), cache_size=0, **cfg1)
    e2 = c2(loader=DictLoader(src), bytecode_cache=make_cache(), cache_size=0, **cfg2)
    first = cached_render(e1, "t")
    got = cached_render(e2, "t")
    want = fresh_render(cfg2, source, c2)
    if got != want:
        return f"{opt}: template {source!r} cached by Environment({cfg1}) is served to {c2.__name__}({ {k: (v if not callable(v) else '<fn>') for k, v in cfg2.items()} }): renders {got!r}, its own compilation renders {want!r}"
    return None


def replay_config(w):
    import shutil
    stale = []
    for opt, cfg1, cfg2, cls2, source in CONFIG_CASES:
        if w.get("missing") is not None and opt not in w["missing"]:
            continue
        d = tempfile.mkdtemp(prefix="c27c")
        try:
            r = config_case(opt, cfg1, cfg2, cls2, source, lambda: B.FileSystemBytecodeCache(d))
        finally:
            shutil.rmtree(d, ignore_errors=True)
        if r:
            stale.append(r)
    return (bool(stale), " || ".join(stale)[:3000] or "no configuration pair sharing a cache directory was served stale code")


class KeyConfig(VC):
    """read-set obligation (real get_bucket, get_cache_key, get_source_checksum): every compile-relevant option of the loading
    environment reaches the cache key or the checksum, so that environments with different configurations sharing a cache
    never exchange code"""
    prop = "C27"
    target = "jinja2.bccache:BytecodeCache.get_bucket"

    def __init__(self):
        VC.__init__(self, "C27", "C27.key.config")

    def configure(self, I):
        install_hash_specs(I, self)
        I.inline.update({"jinja2.bccache:Bucket.__init__", "jinja2.bccache:Bucket.reset", "jinja2.bccache:BytecodeCache.get_cache_key",
                         "jinja2.bccache:BytecodeCache.get_source_checksum"})
        I.specs["BytecodeCache.load_bytecode"] = A.abstract_fn("load_bytecode", returns=None)

    def setup(self, I, st):
        self.cache = A.obj(st, B.BytecodeCache, "self")
        self.env = A.obj(st, jinja2.Environment, "environment", lazy={o: "obj" for o in CONFIG_OPTIONS})
        self.name_, self.filename, self.source = (sym(n, "obj") for n in ("name", "filename", "source"))
        return [self.cache, self.env, self.name_, self.filename, self.source], {}

    def analyse(self, out):
        ld = A.calls(out, "load_bytecode")
        if len(ld) != 1:
            return None
        f = out.st.get(ld[0].args[1]).fields
        names = set()

        def walk(t, seen=set()):
            if t.get_id() in seen:
                return
            seen.add(t.get_id())
            if z3.is_const(t) and t.decl().kind() == z3.Z3_OP_UNINTERPRETED:
                names.add(t.decl().name())
            for c in t.children():
                walk(c)

        for k in ("key", "checksum"):
            walk(to_term(f[k], "obj"), set())
        envf = out.st.get(self.env).fields
        reached = {o for o in CONFIG_OPTIONS if o in envf and isinstance(envf[o], Sym) and envf[o].t.decl().name() in names}
        return sorted(names), [o for o in CONFIG_OPTIONS if o not in reached]

    def p_readset(self, pre, out):
        if out.raised:
            return None
        r = self.analyse(out)
        if r is None:
            return False
        self.last = r
        return not r[1]

    posts = [("", p_readset)]

    def run(self, tier, seed):
        rs = VC.run(self, tier, seed)
        for r in rs:
            r.name = r.name.replace("C27.key.config.#", "C27.key.config#")
        return rs

    def concretize(self, model, pre, out):
        names, missing = self.analyse(out)
        return {"key_and_checksum_depend_on": [n for n in names if "!" not in n], "missing": missing}

    def finding_key(self, res):
        w = res.witness or {}
        missing = w.get("missing", [])
        return "missing:" + ("every-compile-relevant-option" if missing == CONFIG_OPTIONS else ",".join(missing))

    def replay(self, w):
        return replay_config(w)


# ------------------------------------------------------------------------------------------------
# BaseLoader.load
# ------------------------------------------------------------------------------------------------

class GTemplateClass:
    pass


def replay_loader(w):
    """instrumented real loader: a hit neither compiles nor stores; a miss compiles the current source once and stores it"""
    from jinja2 import DictLoader, BytecodeCache
    log = []

    class Rec(BytecodeCache):
        store = {}

        def load_bytecode(self, bucket):
            if bucket.key in self.store:
                bucket.bytecode_from_string(self.store[bucket.key])
            log.append(("load", bucket.code is not None))

        def dump_bytecode(self, bucket):
            log.append(("dump",))
            self.store[bucket.key] = bucket.bytecode_to_string()

    class Env(jinja2.Environment):
        def compile(self, source, name=None, filename=None, raw=False, defer_init=False):
            if name == "t":
                log.append(("compile", source))
            return jinja2.Environment.compile(self, source, name, filename, raw, defer_init)

    src = {"t": VERSIONS[0]}
    env = Env(loader=DictLoader(src), bytecode_cache=Rec(), cache_size=0)
    steps = [("first load", [("load", False), ("compile", VERSIONS[0]), ("dump",)]), ("second load", [("load", True)]),
             ("load after modification", [("load", False), ("compile", VERSIONS[1]), ("dump",)])]
    for i, (what, want) in enumerate(steps):
        if i == 2:
            src["t"] = VERSIONS[1]
        del log[:]
        got = cached_render(env, "t")
        if got != fresh_render({}, src["t"]):
            return (True, f"{what}: renders {got!r}")
        if log != want:
            return (True, f"{what}: the loader did {log!r:.300}, expected {want!r:.300}")
    v, d = replay_history(w)
    return (v, d if v else "a hit neither compiles nor stores; a miss compiles the current source once and stores it; " + d)


class LoaderLoad(VC):
    prop = "C27"
    target = "jinja2.loaders:BaseLoader.load"

    def __init__(self, with_cache, with_globals=False):
        self.with_cache, self.with_globals = with_cache, with_globals
        VC.__init__(self, "C27", "C27.BaseLoader.load[%s%s]" % ("cache" if with_cache else "no-cache", ",globals" if with_globals else ""))

    def configure(self, I):
        from jinja2.exceptions import TemplateNotFound, TemplateSyntaxError
        c = self

        def h_get_source(I_, st, args, kwargs, node):
            s2 = st.fork()
            e = Exc(TemplateNotFound, (), origin=ln(node))
            s2.trace.append(Event("call", "get_source", args, kwargs, e, lineno=ln(node)))
            c.src = (sym("source", "obj"), sym("filename", "obj"), sym("uptodate", "obj"))
            st.trace.append(Event("call", "get_source", args, kwargs, c.src, lineno=ln(node)))
            return [(s2, Raised(e)), (st, c.src)]

        I.specs["BaseLoader.get_source"] = h_get_source

        def h_get_bucket(I_, st, args, kwargs, node):
            c.cached = sym("cached_code", "obj")
            b = st.alloc(HObj(B.Bucket, fields={"environment": args[1], "key": sym("key", "obj"), "checksum": sym("checksum", "obj"), "code": c.cached}))
            st.trace.append(Event("call", "get_bucket", args, kwargs, b, lineno=ln(node)))
            return [(st, b)]

        I.specs["BytecodeCache.get_bucket"] = h_get_bucket

        def h_set_bucket(I_, st, args, kwargs, node):
            b = args[1]
            code = st.get(b).fields.get("code") if isinstance(b, Ref) and isinstance(st.get(b), HObj) else None
            st.trace.append(Event("call", "set_bucket", args, {"code_at_call": code}, None, lineno=ln(node)))
            return [(st, None)]

        I.specs["BytecodeCache.set_bucket"] = h_set_bucket
        I.specs["Environment.compile"] = A.abstract_fn("compile", returns="obj", raises=[TemplateSyntaxError])
        I.specs["GTemplateClass.from_code"] = A.abstract_fn("from_code", returns="obj")

    def setup(self, I, st):
        self.bcc = A.obj(st, B.BytecodeCache, "bcc") if self.with_cache else None
        self.tc = A.obj(st, GTemplateClass, "template_class")
        self.env = A.obj(st, jinja2.Environment, "environment", fields={"bytecode_cache": self.bcc, "template_class": self.tc})
        self.loader = A.obj(st, L.BaseLoader, "self")
        self.name_ = sym("name", "obj")
        self.globals = sym("globals", "obj") if self.with_globals else None
        st.assume(*([self.globals.t != host_const(None)] if self.with_globals else []))
        return [self.loader, self.env, self.name_, self.globals], {}

    def p_load(self, pre, out):
        gs = A.calls(out, "get_source")
        if len(gs) != 1 or tuple(gs[0].args[1:]) != (self.env, self.name_):
            return False
        others = [e for e in out.st.trace if e.kind == "call" and e.name != "get_source"]
        if isinstance(gs[0].result, Exc):
            return out.raised and out.value is gs[0].result and not others
        source, filename, uptodate = gs[0].result
        gb, comp, sb, fc = (A.calls(out, n) for n in ("get_bucket", "compile", "set_bucket", "from_code"))
        order = [e.name for e in others]
        hit = None
        if self.with_cache:
            # the bucket is asked for with the CURRENT source
            if len(gb) != 1 or gb[0].args[0] != self.bcc or tuple(gb[0].args[1:]) != (self.env, self.name_, filename, source) or gb[0].kwargs:
                return False
            hit = self.cached.t != host_const(None)
        elif gb or sb:
            return False
        compiled_ok = len(comp) == 1 and tuple(comp[0].args[1:]) == (source, self.name_, filename) and not comp[0].kwargs
        if comp and isinstance(comp[0].result, Exc):
            # a syntax error of the current source propagates; nothing is stored
            ok = compiled_ok and out.raised and out.value is comp[0].result and not sb and not fc
            return z3.And(z3.Not(hit), z3.BoolVal(ok)) if hit is not None else ok
        if out.raised or len(fc) != 1:
            return False
        a = fc[0].args
        if len(a) != 5 or a[1] != self.env or a[4] is not uptodate or out.value is not fc[0].result or fc[0].kwargs:
            return False
        code, g = a[2], a[3]
        if self.with_globals:
            if g is not self.globals:
                return False
        elif not (isinstance(g, Ref) and isinstance(out.st.get(g), HDict) and out.st.get(g).concrete and out.st.get(g).items == {} and g.id in out.st.allocated):
            return False
        miss_ok = (compiled_ok and code is comp[0].result
                   and (not self.with_cache or (len(sb) == 1 and sb[0].args[0] == self.bcc and sb[0].args[1] == gb[0].result
                                                and sb[0].kwargs["code_at_call"] is comp[0].result
                                                and out.st.get(gb[0].result).fields["code"] is comp[0].result
                                                and order == ["get_bucket", "compile", "set_bucket", "from_code"])))
        if not self.with_cache:
            return bool(miss_ok and order == ["compile", "from_code"])
        hit_ok = (not comp and not sb and code is self.cached and out.st.get(gb[0].result).fields["code"] is self.cached
                  and order == ["get_bucket", "from_code"])
        return z3.And(z3.Implies(hit, z3.BoolVal(bool(hit_ok))), z3.Implies(z3.Not(hit), z3.BoolVal(bool(miss_ok))))

    posts = [("compiles_current_source_iff_miss_and_stores_only_then", p_load)]

    def concretize(self, model, pre, out):
        return {"with_cache": self.with_cache}

    def replay(self, w):
        return replay_loader(w)


# ------------------------------------------------------------------------------------------------
# FileSystemBytecodeCache: ghost file-system event trace
# ------------------------------------------------------------------------------------------------

F_dirname = z3.Function("os.path.dirname", Obj, Obj)
F_basename = z3.Function("os.path.basename", Obj, z3.StringSort())
F_join = z3.Function("os.path.join", Obj, Obj, Obj)


class GTmp:
    """ghost NamedTemporaryFile"""


class Chunk:
    """writes chunks then fails: fault injection for the native replay"""


def fs_events(out):
    return [e for e in out.st.trace if e.kind == "fs"]


def install_fs_specs(I, owner):
    I.specs[("fn", id(os.path.dirname))] = lambda I_, st, args, kw, node: [(st, Sym(F_dirname(to_term(args[0], "obj")), "obj"))]
    I.specs[("fn", id(os.path.basename))] = lambda I_, st, args, kw, node: [(st, Sym(F_basename(to_term(args[0], "obj")), "str"))]
    I.specs[("fn", id(os.path.join))] = lambda I_, st, args, kw, node: [(st, Sym(F_join(to_term(args[0], "obj"), to_term(args[1], "obj")), "obj"))]

    def h_tmp(I_, st, args, kwargs, node):
        # dependency spec (tempfile): the file is created in `dir`, its name begins with prefix and ends with suffix
        out = []
        s2 = st.fork()
        e = Exc(OSError, (), tag="NamedTemporaryFile", origin=ln(node))
        e.from_call = "NamedTemporaryFile"
        s2.trace.append(Event("fs", "create_failed", [], dict(kwargs), e, lineno=ln(node)))
        out.append((s2, Raised(e)))
        t = fresh("tmpname", "obj")
        rnd = fresh("rnd", "str")
        pre, suf, d = kwargs.get("prefix", "tmp"), kwargs.get("suffix", ""), kwargs.get("dir")
        st.assume(F_basename(t.t) == z3.Concat(to_term(pre, "str"), rnd.t, to_term(suf, "str")))
        if d is not None:
            st.assume(F_dirname(t.t) == to_term(d, "obj"))
        f = st.alloc(HObj(GTmp, fields={"name": t}))
        st.trace.append(Event("fs", "create", [t] + list(args), dict(kwargs), f, lineno=ln(node)))
        out.append((st, f))
        return out

    I.specs[("fn", id(tempfile.NamedTemporaryFile))] = h_tmp

    def fs_op(name, raises):
        def h(I_, st, args, kwargs, node):
            out = []
            for r in raises:
                s2 = st.fork()
                e = Exc(r, (), tag=name, origin=ln(node))
                e.from_call = name
                s2.trace.append(Event("fs", name + "_failed", args, kwargs, e, lineno=ln(node)))
                out.append((s2, Raised(e)))
            st.trace.append(Event("fs", name, args, kwargs, None, lineno=ln(node)))
            out.append((st, None))
            return out
        return h

    I.specs[("fn", id(os.remove))] = fs_op("remove", [OSError])
    I.specs[("fn", id(os.replace))] = fs_op("replace", [OSError, KeyboardInterrupt])

    def h_write_bytecode(I_, st, args, kwargs, node):
        b, f = args
        nm = st.get(f).fields.get("name") if isinstance(f, Ref) and isinstance(st.get(f), HObj) else f
        return fs_op("write", [OSError, TypeError, KeyboardInterrupt])(I_, st, [nm, b, f], kwargs, node)

    I.specs["Bucket.write_bytecode"] = h_write_bytecode

    def cm_enter(I_, st, cm, node):
        if isinstance(cm, Ref) and isinstance(st.get(cm), HObj) and st.get(cm).cls in (GTmp, GFile):
            return [(st, cm)]
        return None

    def cm_exit(I_, st, cm, ctl, node):
        if not (isinstance(cm, Ref) and isinstance(st.get(cm), HObj) and st.get(cm).cls in (GTmp, GFile)):
            return None
        nm = st.get(cm).fields.get("name")
        out = []
        if ctl.kind == "ok" and st.get(cm).cls is GTmp:
            # closing flushes: may fail (disk full)
            s2 = st.fork()
            e = Exc(OSError, (), tag="close", origin=ln(node))
            e.from_call = "close"
            s2.trace.append(Event("fs", "close_failed", [nm], {}, e, lineno=ln(node)))
            from pyvc.interp import Ctl
            out.append((s2, Ctl("raise", e)))
        st.trace.append(Event("fs", "close", [nm], {}, None, lineno=ln(node)))
        out.append((st, ctl))
        return out

    I.specs["cm_enter"] = cm_enter
    I.specs["cm_exit"] = cm_exit


class Patched:
    """native fault injection around the real FileSystemBytecodeCache.dump_bytecode"""

    def __init__(self, fail, exc, remove_fails=False):
        self.fail, self.exc, self.remove_fails = fail, exc, remove_fails
        self.saved = {}

    def boom(self):
        return {"OSError": OSError("injected"), "KeyboardInterrupt": KeyboardInterrupt("injected"), "TypeError": TypeError("injected")}[self.exc]

    def __enter__(self):
        self.saved = {"replace": os.replace, "remove": os.remove, "ntf": tempfile.NamedTemporaryFile}
        p = self
        if self.fail == "replace":
            def replace(a, b):
                raise p.boom()
            os.replace = replace
        if self.remove_fails:
            def remove(a):
                raise OSError("injected remove failure")
            os.remove = remove
        if self.fail == "create":
            def ntf(*a, **k):
                raise p.boom()
            tempfile.NamedTemporaryFile = ntf
        return self

    def __exit__(self, *a):
        os.replace, os.remove, tempfile.NamedTemporaryFile = self.saved["replace"], self.saved["remove"], self.saved["ntf"]


def crash_case(fail, exc, remove_fails, prior, directory):
    """one crash point of the real dump_bytecode.  -> None | description of the violated clause"""
    from jinja2.bccache import FileSystemBytecodeCache, Bucket
    cache = FileSystemBytecodeCache(directory)
    env = jinja2.Environment()
    new_code = env.compile("new {{ x }}", "t", None)
    old_code = env.compile("old {{ x }}", "t", None)
    key = cache.get_cache_key("t", None)
    if prior:
        b0 = Bucket(env, key, cache.get_source_checksum("old {{ x }}"))
        b0.code = old_code
        cache.dump_bytecode(b0)
    final = cache._get_cache_filename(Bucket(env, key, "x"))
    old_bytes = open(final, "rb").read() if (prior and os.path.isfile(final)) else None
    if prior and old_bytes is None:
        return "an undisturbed dump_bytecode did not store the entry under its final name"

    class FaultyBucket(Bucket):
        def write_bytecode(self, f):
            if fail and fail.startswith("write"):
                n = int(fail[5:])
                full = io.BytesIO()
                Bucket.write_bytecode(self, full)
                data = full.getvalue()
                cut = [0, len(B.bc_magic), len(B.bc_magic) + 10, len(data) - 1][n]
                f.write(data[:cut])
                raise p.boom()
            Bucket.write_bytecode(self, f)

    b = FaultyBucket(env, key, cache.get_source_checksum("new {{ x }}"))
    b.code = new_code
    full = io.BytesIO()
    Bucket.write_bytecode(b, full)
    new_bytes = full.getvalue()
    raised = None
    with Patched(fail, exc, remove_fails) as p:
        try:
            cache.dump_bytecode(b)
        except BaseException as ex:  # noqa
            raised = ex
    what = f"crash point {fail or 'none'}({exc}), remove_fails={remove_fails}, prior entry={prior}"
    now = open(final, "rb").read() if os.path.exists(final) else None
    if now not in (old_bytes, new_bytes):
        return f"{what}: the final name holds a partial entry ({len(now)} of {len(new_bytes)} bytes)"
    left = [n for n in os.listdir(directory) if n != os.path.basename(final)]
    if left and not remove_fails:
        return f"{what}: temporary file left behind: {left}"
    if fail is None and (raised is not None or now != new_bytes):
        return f"{what}: undisturbed dump raised {raised!r} / did not store the entry"
    if fail and exc == "KeyboardInterrupt" and not isinstance(raised, KeyboardInterrupt):
        return f"{what}: KeyboardInterrupt was swallowed"
    if fail and (fail.startswith("write") or fail == "create") and raised is None:
        return f"{what}: the failure to write the entry was swallowed (dump_bytecode must not fail silently)"
    # whatever happened, both sources load and render correctly afterwards, without raising
    for src in ("new {{ x }}", "old {{ x }}"):
        from jinja2 import DictLoader
        e2 = jinja2.Environment(loader=DictLoader({"t": src}), bytecode_cache=FileSystemBytecodeCache(directory), cache_size=0)
        got = cached_render(e2, "t")
        if got != ("ok", src.split()[0] + " <b>"):
            return f"{what}: loading {src!r} afterwards gives {got!r}"
    return None


CRASH_POINTS = [(None, "OSError")] + [(f, e) for f in ("create", "write0", "write1", "write2", "write3", "replace") for e in ("OSError", "KeyboardInterrupt")]


def replay_fs(w):
    import shutil
    cases = []
    if w.get("fail", "?") != "?":
        cases.append((w.get("fail"), w.get("exc", "OSError"), bool(w.get("remove_fails")), bool(w.get("prior", True))))
    cases += [(f, e, rf, pr) for (f, e) in CRASH_POINTS for rf in (False, True) for pr in (True, False)]
    for f, e, rf, pr in cases:
        d = tempfile.mkdtemp(prefix="c27f")
        try:
            r = crash_case(f, e, rf, pr, d)
        finally:
            shutil.rmtree(d, ignore_errors=True)
        if r:
            return (True, r)
    return (False, "every injected crash point leaves the final name with the previous or a complete entry and no temporary file")


class FsDump(VC):
    prop = "C27"
    target = "jinja2.bccache:FileSystemBytecodeCache.dump_bytecode"
    timeout_quick = 20000

    def __init__(self):
        VC.__init__(self, "C27", "C27.FileSystemBytecodeCache.dump_bytecode")

    def configure(self, I):
        install_fs_specs(I, self)
        c = self

        def h_name(I_, st, args, kwargs, node):
            st.trace.append(Event("call", "_get_cache_filename", args, kwargs, c.final, lineno=ln(node)))
            return [(st, c.final)]

        I.specs["FileSystemBytecodeCache._get_cache_filename"] = h_name

    def setup(self, I, st):
        self.final = sym("final_name", "obj")
        self.cache = A.obj(st, B.FileSystemBytecodeCache, "self", fields={"directory": sym("directory", "obj"), "pattern": sym("pattern", "obj")})
        self.bucket, _ = bucket_obj(st, "bucket")
        return [self.cache, self.bucket], {}

    # helpers ---------------------------------------------------------------------------------
    def tmp(self, out):
        cr = [e for e in fs_events(out) if e.name == "create"]
        return cr[0] if len(cr) == 1 else None

    def p_names(self, pre, out):
        """the name is computed once, for this bucket; the temporary file is created in the directory of the final name
        (same file system: os.replace is a rename), opened for binary writing, not deleted on close, with a non-empty suffix"""
        gn = A.calls(out, "_get_cache_filename")
        if len(gn) != 1 or tuple(gn[0].args[1:]) != (self.bucket,):
            return False
        evs = fs_events(out)
        if not evs or evs[0].name not in ("create", "create_failed") or sum(e.name in ("create", "create_failed") for e in evs) != 1:
            return False
        kw = evs[0].kwargs
        pos = evs[0].args[1:] if evs[0].name == "create" else ()
        mode = kw.get("mode", pos[0] if pos else None)
        if mode != "wb" or kw.get("delete", True) is not False or not (isinstance(kw.get("suffix"), str) and kw["suffix"]):
            return False
        if "dir" not in kw:
            return False
        return to_term(kw["dir"], "obj") == F_dirname(self.final.t)

    def p_atomic(self, pre, out):
        """the only event whose target is the final name is os.replace(tmp, final), which happens at most once, after the
        entry has been written completely and the temporary file closed, and is the last event when it succeeds"""
        evs = fs_events(out)
        cr = self.tmp(out)
        if cr is None:
            return all(e.name == "create_failed" for e in evs)
        t = cr.args[0]
        conds = []
        names = [e.name for e in evs]
        for i, e in enumerate(evs):
            if e.name in ("replace", "replace_failed"):
                if e.args[0] is not t or e.args[1] is not self.final or names[:i] != ["create", "write", "close"]:
                    return False
                if e.name == "replace" and i != len(evs) - 1:
                    return False
            elif e.name != "create_failed":
                path = e.args[0]
                conds.append(to_term(path, "obj") != self.final.t)
        if sum(n in ("replace", "replace_failed") for n in names) > 1:
            return False
        return z3.And(*conds) if conds else True

    def p_cleanup(self, pre, out):
        """every exit that does not end with a successful replace removes the temporary file (last event: os.remove(tmp));
        a successful dump returns None"""
        evs = fs_events(out)
        cr = self.tmp(out)
        if cr is None:
            return out.raised
        t = cr.args[0]
        if evs[-1].name == "replace":
            return out.returned and out.value is None and not any(e.name.startswith("remove") for e in evs)
        last = evs[-1]
        return last.name in ("remove", "remove_failed") and last.args[0] is t and sum(e.name.startswith("remove") for e in evs) == 1

    def p_errors(self, pre, out):
        """failures to create / write / close the entry are not swallowed (BytecodeCache.dump_bytecode: "must not fail
        silently"); KeyboardInterrupt is never swallowed; nothing else is raised"""
        evs = fs_events(out)
        failed = [e for e in evs if e.name.endswith("_failed") and e.name != "remove_failed"]
        must = [e for e in failed if e.name in ("create_failed", "write_failed", "close_failed") or e.result.cls is KeyboardInterrupt]
        if must:
            return out.raised and out.value is must[0].result
        return out.returned

    posts = [("names_and_tempfile_arguments", p_names), ("only_replace_targets_final_name", p_atomic),
             ("exceptional_exit_removes_temporary_file", p_cleanup), ("errors_not_swallowed", p_errors)]

    def concretize(self, model, pre, out):
        evs = fs_events(out)
        failed = [e for e in evs if e.name.endswith("_failed")]
        w = {"fail": None, "exc": "OSError", "remove_fails": any(e.name == "remove_failed" for e in evs), "prior": True, "trace": [e.name for e in evs]}
        for e in failed:
            if e.name != "remove_failed":
                w["fail"] = {"create_failed": "create", "write_failed": "write2", "close_failed": "write3", "replace_failed": "replace"}[e.name]
                w["exc"] = e.result.cls.__name__ if e.result.cls.__name__ in ("OSError", "KeyboardInterrupt") else "OSError"
        return w

    def finding_key(self, res):
        return "trace:" + ">".join((res.witness or {}).get("trace", []))

    def replay(self, w):
        return replay_fs(w)


def replay_fsload(w):
    """real FileSystemBytecodeCache.load_bytecode: missing file, directory in place of the file, valid entry"""
    import shutil
    from jinja2.bccache import FileSystemBytecodeCache, Bucket
    d = tempfile.mkdtemp(prefix="c27l")
    try:
        cache = FileSystemBytecodeCache(d)
        code = sample_code()
        b = Bucket(None, "k1", "s")
        for situation in ("missing", "directory", "valid", "permission"):
            b = Bucket(None, "k_" + situation, "s")
            fn = cache._get_cache_filename(b)
            if os.path.dirname(fn) != d:
                return (True, f"_get_cache_filename leaves the cache directory: {fn!r}")
            saved_open = None
            if situation == "directory":
                os.mkdir(fn)
            elif situation == "valid":
                b1 = Bucket(None, b.key, "s")
                b1.code = code
                cache.dump_bytecode(b1)
            elif situation == "permission":
                import builtins
                saved_open = builtins.open

                def deny(*a, **k):
                    raise PermissionError(13, "denied")
                B.__dict__["open"] = deny
            try:
                cache.load_bytecode(b)
            except BaseException as ex:  # noqa
                return (True, f"load_bytecode with a {situation} entry raises {type(ex).__name__}: {ex} (must be a miss)")
            finally:
                B.__dict__.pop("open", None)
            want = code if situation == "valid" else None
            if b.code != want:
                return (True, f"load_bytecode with a {situation} entry: code={b.code!r}, expected {want!r}")
        return (False, "missing / directory / unreadable entries are misses, a valid entry is loaded")
    finally:
        shutil.rmtree(d, ignore_errors=True)


class FsLoad(VC):
    prop = "C27"
    target = "jinja2.bccache:FileSystemBytecodeCache.load_bytecode"

    def __init__(self):
        VC.__init__(self, "C27", "C27.FileSystemBytecodeCache.load_bytecode")

    def configure(self, I):
        install_fs_specs(I, self)
        c = self
        I.specs["FileSystemBytecodeCache._get_cache_filename"] = A.abstract_fn("_get_cache_filename", returns="obj")

        def h_open(I_, st, args, kwargs, node):
            out = []
            for r in (FileNotFoundError, IsADirectoryError, PermissionError):
                s2 = st.fork()
                e = Exc(r, (), tag="open", origin=ln(node))
                s2.trace.append(Event("fs", "open_failed", args, kwargs, e, lineno=ln(node)))
                out.append((s2, Raised(e)))
            f = gfile(st, "abstract", name=args[0])
            st.trace.append(Event("fs", "open", args, kwargs, f, lineno=ln(node)))
            out.append((st, f))
            return out

        I.specs[("fn", id(open))] = h_open
        I.specs["Bucket.load_bytecode"] = A.abstract_fn("Bucket.load_bytecode", returns=None, raises=[("any", Exception)])

    def setup(self, I, st):
        self.cache = A.obj(st, B.FileSystemBytecodeCache, "self", fields={"directory": sym("directory", "obj"), "pattern": sym("pattern", "obj")})
        self.bucket, self.pre = bucket_obj(st, "bucket", code=None)
        return [self.cache, self.bucket], {}

    def p_load(self, pre, out):
        gn = A.calls(out, "_get_cache_filename")
        evs = fs_events(out)
        ld = A.calls(out, "Bucket.load_bytecode")
        if len(gn) != 1 or tuple(gn[0].args[1:]) != (self.bucket,) or not evs or evs[0].name not in ("open", "open_failed"):
            return False
        o = evs[0]
        mode = o.kwargs.get("mode", o.args[1] if len(o.args) > 1 else "r")
        if o.args[0] is not gn[0].result or mode != "rb":
            return False
        untouched = out.st.get(self.bucket).fields == self.pre
        if o.name == "open_failed":
            # FileNotFoundError / IsADirectoryError / PermissionError: a miss
            return out.returned and out.value is None and not ld and untouched and len(evs) == 1
        f = o.result
        if len(ld) != 1 or tuple(ld[0].args) != (self.bucket, f) or [e.name for e in evs] != ["open", "close"]:
            return False
        # the stream is closed after the bucket has read it, also when reading fails; failures are not swallowed here
        tr = [e for e in out.st.trace if e.kind in ("fs", "call")]
        if not (tr.index(o) < tr.index(ld[0]) < tr.index(evs[1])):
            return False
        if isinstance(ld[0].result, Exc):
            return out.raised and out.value is ld[0].result
        return out.returned and out.value is None

    posts = [("missing_or_unreadable_is_a_miss_else_bucket_reads_closed_stream", p_load)]

    def concretize(self, model, pre, out):
        return {}

    def replay(self, w):
        return replay_fsload(w)


def replay_clear(w):
    import shutil
    from jinja2.bccache import FileSystemBytecodeCache, Bucket
    d = tempfile.mkdtemp(prefix="c27k")
    try:
        mine, other = FileSystemBytecodeCache(d), FileSystemBytecodeCache(d, "other_%s.bin")
        for c in (mine, other):
            for k in ("k1", "k2"):
                b = Bucket(None, k, "s")
                b.code = sample_code()
                c.dump_bytecode(b)
        open(os.path.join(d, "keep.txt"), "w").close()
        os.mkdir(os.path.join(d, "__jinja2_dir.cache"))  # cannot be removed with os.remove: must not stop the others
        try:
            mine.clear()
        except BaseException as ex:  # noqa
            return (True, f"clear() raises {type(ex).__name__}: {ex}")
        left = sorted(os.listdir(d))
        want = sorted(["keep.txt", "__jinja2_dir.cache", "other_k1.bin", "other_k2.bin"])
        if left != want:
            return (True, f"after clear() the directory holds {left}, expected {want} (only this cache's entries are removed)")
        return (False, "clear() removes exactly this cache's entries")
    finally:
        shutil.rmtree(d, ignore_errors=True)


class FsClear(VC):
    """clear(): removes exactly the files of this cache's directory that match its pattern; a file that cannot be removed does
    not stop the others"""
    prop = "C27"
    target = "jinja2.bccache:FileSystemBytecodeCache.clear"

    def __init__(self):
        VC.__init__(self, "C27", "C27.FileSystemBytecodeCache.clear")

    def configure(self, I):
        import ast
        import fnmatch
        install_fs_specs(I, self)
        c = self
        c.F_fmt = z3.Function("pattern_percent", Obj, Obj, Obj)

        def h_mod(I_, st, args, kwargs, node):
            a, b = args
            arg = b[0] if isinstance(b, tuple) and len(b) == 1 else b
            return [(st, Sym(c.F_fmt(to_term(a, "obj"), to_term(arg, "obj")), "obj"))]

        I.specs[("binop", ast.Mod)] = h_mod
        I.specs[("fn", id(os.listdir))] = A.abstract_fn("listdir", returns="obj")

        def h_filter(I_, st, args, kwargs, node):
            c.matched = [sym("match0", "obj"), sym("match1", "obj")]
            r = st.alloc(HList(items=list(c.matched)))
            st.trace.append(Event("call", "fnmatch.filter", args, kwargs, r, lineno=ln(node)))
            return [(st, r)]

        I.specs[("fn", id(fnmatch.filter))] = h_filter

    def setup(self, I, st):
        self.dir, self.pat = sym("directory", "obj"), sym("pattern", "obj")
        self.cache = A.obj(st, B.FileSystemBytecodeCache, "self", fields={"directory": self.dir, "pattern": self.pat})
        return [self.cache], {}

    def p_clear(self, pre, out):
        if out.raised:
            return False
        ls, fl = A.calls(out, "listdir"), A.calls(out, "fnmatch.filter")
        if len(ls) != 1 or len(fl) != 1 or tuple(ls[0].args) != (self.dir,) or fl[0].args[0] is not ls[0].result:
            return False
        rem = [e for e in fs_events(out) if e.name.startswith("remove")]
        if len(rem) != 2:
            return False
        star = to_term("*", "obj")
        conds = [to_term(fl[0].args[1], "obj") == self.F_fmt(self.pat.t, star)]
        for e, m in zip(rem, self.matched):
            conds.append(to_term(e.args[0], "obj") == F_join(self.dir.t, m.t))
        return z3.And(*conds)

    posts = [("removes_each_matching_file_of_its_directory", p_clear)]

    def concretize(self, model, pre, out):
        return {}

    def replay(self, w):
        return replay_clear(w)


# ------------------------------------------------------------------------------------------------
# MemcachedBytecodeCache
# ------------------------------------------------------------------------------------------------

class GClient:
    pass


def replay_memcached(w):
    from jinja2.bccache import MemcachedBytecodeCache, Bucket

    class Err(Exception):
        pass

    class Client:
        def __init__(self, fail):
            self.fail, self.store, self.calls = fail, {}, []

        def get(self, key):
            self.calls.append(("get", key))
            if self.fail:
                raise Err()
            return self.store.get(key)

        def set(self, key, value, timeout=None):
            self.calls.append(("set", key, value, timeout))
            if self.fail:
                raise Err()
            self.store[key] = value

    code = sample_code()
    for ignore in (True, False):
        for fail in (False, True):
            for timeout in (None, 30):
                c = Client(fail)
                m = MemcachedBytecodeCache(c, prefix="p/", timeout=timeout, ignore_memcache_errors=ignore)
                b = Bucket(None, "key", "s")
                b.code = code
                for op in ("dump", "load"):
                    b2 = Bucket(None, "key", "s")
                    try:
                        m.dump_bytecode(b) if op == "dump" else m.load_bytecode(b2)
                        raised = None
                    except Err as ex:
                        raised = ex
                    except BaseException as ex:  # noqa
                        return (True, f"{op}_bytecode(ignore={ignore}, client fails={fail}) raises {type(ex).__name__}: {ex}")
                    if (raised is not None) != (fail and not ignore):
                        return (True, f"{op}_bytecode(ignore_memcache_errors={ignore}, client fails={fail}): raised={raised!r}")
                    if op == "load" and b2.code != (None if fail else code):
                        return (True, f"load_bytecode(ignore={ignore}, client fails={fail}): code={b2.code!r}")
                want = ("set", "p/key", b.bytecode_to_string()) + ((timeout,) if True else ())
                got = c.calls[0]
                if got[:3] != want[:3] or got[3] != timeout or c.calls[1] != ("get", "p/key"):
                    return (True, f"client calls {c.calls!r:.200} (timeout={timeout})")
    return (False, "client errors are swallowed iff ignore_memcache_errors; keys, values and timeout are passed as documented")


class MemLoad(VC):
    prop = "C27"
    target = "jinja2.bccache:MemcachedBytecodeCache.load_bytecode"

    def __init__(self):
        VC.__init__(self, "C27", "C27.MemcachedBytecodeCache.load_bytecode")

    def configure(self, I):
        I.specs["GClient.get"] = A.abstract_fn("client.get", returns="obj", raises=[("any", Exception), KeyboardInterrupt])
        I.specs["Bucket.bytecode_from_string"] = A.abstract_fn("bytecode_from_string", returns=None)

    def setup(self, I, st):
        self.ignore = sym("ignore_memcache_errors", "bool")
        self.prefix, self.key = sym("prefix", "str"), sym("bucket_key", "str")
        self.client = A.obj(st, GClient, "client")
        self.cache = A.obj(st, B.MemcachedBytecodeCache, "self", fields={"client": self.client, "prefix": self.prefix, "timeout": sym("timeout", "obj"),
                                                                         "ignore_memcache_errors": self.ignore})
        self.bucket, self.pre = bucket_obj(st, "bucket", code=None)
        st.get(self.bucket).fields["key"] = self.key
        self.pre["key"] = self.key
        return [self.cache, self.bucket], {}

    def p_load(self, pre, out):
        g, fs = A.calls(out, "client.get"), A.calls(out, "bytecode_from_string")
        if len(g) != 1 or len(g[0].args) != 2 or g[0].kwargs:
            return False
        key_ok = to_term(g[0].args[1], "str") == z3.Concat(self.prefix.t, self.key.t)
        untouched = out.st.get(self.bucket).fields == self.pre
        r = g[0].result
        if isinstance(r, Exc):
            if fs or not untouched:
                return False
            is_exception = r.cls is None  # the abstract `Exception` subclass; KeyboardInterrupt is concrete
            if out.raised:
                ok = out.value is r or getattr(out.value, "src", None) is r
                return z3.And(key_ok, z3.BoolVal(bool(ok)), z3.Not(self.ignore.t) if is_exception else z3.BoolVal(True))
            return z3.And(key_ok, z3.BoolVal(is_exception), self.ignore.t)
        # what the client returns goes through Bucket.bytecode_from_string (totality: C27.Bucket.load_bytecode.total)
        ok = out.returned and len(fs) == 1 and tuple(fs[0].args) == (self.bucket, r)
        return z3.And(key_ok, z3.BoolVal(bool(ok)))

    posts = [("errors_swallowed_iff_ignore_else_bucket_loads_client_value", p_load)]

    def concretize(self, model, pre, out):
        return {}

    def replay(self, w):
        return replay_memcached(w)


class MemDump(VC):
    prop = "C27"
    target = "jinja2.bccache:MemcachedBytecodeCache.dump_bytecode"

    def __init__(self):
        VC.__init__(self, "C27", "C27.MemcachedBytecodeCache.dump_bytecode")

    def configure(self, I):
        I.specs["GClient.set"] = A.abstract_fn("client.set", returns=None, raises=[("any", Exception), KeyboardInterrupt])
        I.specs["Bucket.bytecode_to_string"] = A.abstract_fn("bytecode_to_string", returns="obj", raises=[TypeError])

    def setup(self, I, st):
        self.ignore = sym("ignore_memcache_errors", "bool")
        self.prefix, self.key, self.timeout = sym("prefix", "str"), sym("bucket_key", "str"), sym("timeout", "obj")
        self.client = A.obj(st, GClient, "client")
        self.cache = A.obj(st, B.MemcachedBytecodeCache, "self", fields={"client": self.client, "prefix": self.prefix, "timeout": self.timeout,
                                                                         "ignore_memcache_errors": self.ignore})
        self.bucket, self.pre = bucket_obj(st, "bucket")
        st.get(self.bucket).fields["key"] = self.key
        return [self.cache, self.bucket], {}

    def p_dump(self, pre, out):
        ts, s = A.calls(out, "bytecode_to_string"), A.calls(out, "client.set")
        if len(ts) != 1 or tuple(ts[0].args) != (self.bucket,):
            return False
        if isinstance(ts[0].result, Exc):
            return out.raised and out.value is ts[0].result and not s
        if len(s) != 1 or s[0].kwargs or len(s[0].args) not in (3, 4) or s[0].args[2] is not ts[0].result:
            return False
        has_timeout = self.timeout.t != host_const(None)
        args_ok = z3.And(to_term(s[0].args[1], "str") == z3.Concat(self.prefix.t, self.key.t),
                         z3.And(has_timeout, z3.BoolVal(s[0].args[3] is self.timeout)) if len(s[0].args) == 4 else z3.Not(has_timeout))
        r = s[0].result
        if isinstance(r, Exc):
            is_exception = r.cls is None
            if out.raised:
                ok = out.value is r or getattr(out.value, "src", None) is r
                return z3.And(args_ok, z3.BoolVal(bool(ok)), z3.Not(self.ignore.t) if is_exception else z3.BoolVal(True))
            return z3.And(args_ok, z3.BoolVal(is_exception), self.ignore.t)
        return z3.And(args_ok, z3.BoolVal(out.returned))

    posts = [("one_set_with_prefixed_key_errors_swallowed_iff_ignore", p_dump)]

    def concretize(self, model, pre, out):
        return {}

    def replay(self, w):
        return replay_memcached(w)


# ------------------------------------------------------------------------------------------------
# bounded stand-ins on the real caches
# ------------------------------------------------------------------------------------------------

def failure_key(ex):
    import traceback
    tb = traceback.extract_tb(ex.__traceback__)
    fr = [f for f in tb if "jinja2" in f.filename.replace("\\", "/")]
    where = fr[-1].name if fr else "?"
    return f"{type(ex).__name__}|{where}"


class MemClient:
    def __init__(self):
        self.store = {}

    def get(self, key):
        return self.store.get(key)

    def set(self, key, value, timeout=None):
        self.store[key] = value


def damaged_entries(data):
    """(label, bytes) of foreign / stale / damaged variants of one stored entry"""
    magic = B.bc_magic
    out = [("empty", b""), ("garbage", b"\x00\x01garbage" * 5), ("foreign-minor-version", magic[:-3] + bytes([(magic[-3] + 1) % 256]) + magic[-2:] + data[len(magic):]),
           ("foreign-bc-version", b"j2" + pickle.dumps(B.bc_version + 1, 2) + magic[2 + len(pickle.dumps(B.bc_version, 2)):] + data[len(magic):]),
           ("stale-checksum", magic + pickle.dumps("0" * 40, 2) + data[len(magic) + len(pickle.dumps("0" * 40, 2)):]),
           ("trailing-garbage", data + b"xyz")]
    for nm, bts in PICKLE_BYTES.items():
        out.append((f"pickle-{nm}", magic + bts))
    for pos in (len(magic) + 30,):  # inside the stored checksum
        out.append((f"flipped-byte@{pos}", data[:pos] + bytes([data[pos] ^ 0xFF]) + data[pos + 1:]))
    return out


def truncation_run(kind, tier, only=None):
    """store a real entry, replace it by every damaged variant, load it through get_template.
    -> (n_cases, {key: {count, detail, witness}})"""
    import shutil
    from jinja2 import DictLoader
    failures = {}
    n = 0
    sources = VERSIONS[:1] if tier == "quick" else VERSIONS
    for si, source in enumerate(sources):
        d = tempfile.mkdtemp(prefix="c27t")
        try:
            client = MemClient()
            mk = (lambda: B.FileSystemBytecodeCache(d)) if kind == "fs" else (lambda: B.MemcachedBytecodeCache(client, ignore_memcache_errors=False))
            env = jinja2.Environment(loader=DictLoader({"t": source}), bytecode_cache=mk(), cache_size=0)
            want = fresh_render({}, source)
            first = cached_render(env, "t")
            if kind == "fs":
                path = os.path.join(d, os.listdir(d)[0])
                data = open(path, "rb").read()
            else:
                (mkey, data), = client.store.items()

            def put(bts):
                if kind == "fs":
                    with open(path, "wb") as f:
                        f.write(bts)
                else:
                    client.store[mkey] = bts

            def get():
                return open(path, "rb").read() if kind == "fs" else client.store[mkey]

            # quick tier: every offset of the header / checksum / start of the code record, then every 7th, then the tail
            offsets = range(len(data)) if tier != "quick" else sorted(set(range(min(128, len(data)))) | set(range(128, len(data), 7))
                                                                    | set(range(max(0, len(data) - 16), len(data))))
            variants = [(f"truncated@{k}", data[:k]) for k in offsets] + damaged_entries(data)
            if kind != "fs":
                variants.append(("client-returns-None", None))
            for label, bts in variants:
                if only is not None and label != only:
                    continue
                n += 1
                put(bts)
                if bts is None:
                    client.store.pop(mkey, None)
                try:
                    got = ("ok", env.get_template("t").render(x="<b>"))
                    key = None if got == want else "wrong-render"
                    det = f"{kind} cache, entry {label}: renders {got!r}, expected {want!r}"
                    if key is None and label != "trailing-garbage" and get() != data:
                        key, det = "not-rewritten", f"{kind} cache, entry {label}: after the miss the entry was not replaced by a complete one"
                except Exception as ex:  # noqa
                    key = failure_key(ex)
                    det = f"{kind} cache, entry {label} of template {source!r}: get_template raises {type(ex).__name__}: {str(ex)[:60]} (must be a miss)"
                if key:
                    f = failures.setdefault(key, {"count": 0, "detail": det, "labels": [], "witness": {"kind": kind, "label": label, "source": si, "tier": tier}})
                    f["count"] += 1
                    f["labels"].append(label)
        finally:
            shutil.rmtree(d, ignore_errors=True)
    return n, failures


def bounded_truncation(kind):
    def run(task, tier, seed):
        n, failures = truncation_run(kind, tier)
        name = f"C27.bounded.truncation[{kind}]"
        task.bound_text = (f"{'FileSystemBytecodeCache' if kind == 'fs' else 'MemcachedBytecodeCache (fake client)'}: the real stored entry of "
                           f"{'1 template truncated at every byte offset below 128 and in the last 16, every 7th in between,' if tier == 'quick' else str(len(VERSIONS)) + ' templates truncated at every byte offset'} plus foreign-version, stale-checksum, garbage, "
                           f"bit-flipped and damaged-pickle variants ({n} entries), each loaded through Environment.get_template")
        task.stats = {"entries": n, "failing_classes": len(failures)}
        rs = [Res(name, "bounded-ok", "native", 0, f"{n} damaged entries, {n - sum(f['count'] for f in failures.values())} are clean misses", "bounded")]
        for k, (key, f) in enumerate(sorted(failures.items())):
            lab = f["labels"]
            rs.append(Res(f"{name}#p{k}", "refuted", "native", 0, f"{f['count']} entries ({lab[0]} .. {lab[-1]}) fail like: {f['detail']}", "bounded", dict(f["witness"], key=key)))
        return rs
    return run


def replay_truncation(w):
    n, failures = truncation_run(w["kind"], w.get("tier", "quick"), only=w["label"])
    for key, f in failures.items():
        return (True, f["detail"])
    return (False, f"entry {w['label']} is a clean miss")


def bounded_histories(task, tier, seed):
    import shutil
    maxlen = 4 if tier == "quick" else 5
    root = tempfile.mkdtemp(prefix="c27h")
    n = 0
    rs = []
    try:
        bad = None
        for k in range(1, maxlen + 1):
            for ops in itertools.product(("L1", "L2", "M", "C", "U"), repeat=k):
                if "L1" not in ops and "L2" not in ops:
                    continue
                sub = os.path.join(root, "h")
                os.mkdir(sub)
                try:
                    r = run_history(ops, ({}, {}), sub)
                finally:
                    shutil.rmtree(sub, ignore_errors=True)
                n += 1
                if r and bad is None:
                    bad = (ops, r)
        # the same with the memcached cache (shared fake client)
        for k in range(1, 4):
            for ops in itertools.product(("L1", "L2", "M", "U"), repeat=k):
                client = MemClient()
                r = run_history(ops, ({}, {}), None, make_cache=lambda: B.MemcachedBytecodeCache(client))
                n += 1
                if r and bad is None:
                    bad = (ops, r)
    finally:
        shutil.rmtree(root, ignore_errors=True)
    task.bound_text = (f"all histories of length <= {maxlen} over load(env1)/load(env2)/modify/clear/load-other-template with two equally configured "
                       f"environments sharing a FileSystemBytecodeCache directory, and of length <= 3 sharing a memcached client: {n} histories")
    task.stats = {"histories": n}
    if bad:
        return [Res("C27.bounded.histories", "refuted", "native", 0, bad[1], "bounded", {"ops": list(bad[0])})]
    return [Res("C27.bounded.histories", "bounded-ok", "native", 0, f"{n} histories: every load renders what compiling the current source renders", "bounded")]


def replay_hist_w(w):
    import shutil
    d = tempfile.mkdtemp(prefix="c27h")
    try:
        r = run_history(tuple(w["ops"]), ({}, {}), d)
    finally:
        shutil.rmtree(d, ignore_errors=True)
    if r:
        return (True, r)
    return replay_history(w)


def bounded_crash(task, tier, seed):
    import shutil
    n = 0
    rs = []
    for (f, e) in CRASH_POINTS:
        for rf in (False, True):
            for pr in (True, False):
                d = tempfile.mkdtemp(prefix="c27f")
                try:
                    r = crash_case(f, e, rf, pr, d)
                finally:
                    shutil.rmtree(d, ignore_errors=True)
                n += 1
                if r:
                    rs.append(Res(f"C27.bounded.crash_points#p{n}", "refuted", "native", 0, r, "bounded", {"fail": f, "exc": e, "remove_fails": rf, "prior": pr}))
    task.bound_text = (f"fault injection into the real FileSystemBytecodeCache.dump_bytecode: {len(CRASH_POINTS)} crash points (temp-file creation, after "
                       "0/1/2/3 partial writes, os.replace; OSError and KeyboardInterrupt) x os.remove failing or not x previous entry present or not, "
                       f"followed by loads of the old and the new source: {n} runs")
    task.stats = {"runs": n}
    return [Res("C27.bounded.crash_points", "bounded-ok", "native", 0, f"{n - len(rs)} of {n} crash runs keep the entry atomic and the directory clean", "bounded")] + rs[:5]


def table_magic(task, tier, seed):
    """bc_magic identifies the interpreter's major/minor version and the bytecode format version"""
    import sys
    rs = []
    m = B.bc_magic
    ok = False
    try:
        f = io.BytesIO(m[2:])
        v1, v2 = pickle.load(f), pickle.load(f)
        ok = m[:2] == b"j2" and v1 == B.bc_version and v2 == (sys.version_info[0] << 24) | sys.version_info[1] and f.read() == b""
    except Exception:
        ok = False
    rs.append(Res("C27.table.bc_magic.embeds_interpreter_version", "discharged" if ok else "refuted", "table", 0,
                  "" if ok else f"bc_magic {m!r} does not decode to (bc_version, major<<24|minor)", "table", None if ok else {"magic_ok": False, "stored": "ok", "marshal": "ok"}))
    from jinja2.bccache import FileSystemBytecodeCache, Bucket, BytecodeCache
    c = FileSystemBytecodeCache("/some/dir", "__jinja2_%s.cache")
    key = BytecodeCache().get_cache_key("a/b.html", "/x/a/b.html")
    fn = c._get_cache_filename(Bucket(None, key, "s"))
    ok2 = fn == os.path.join("/some/dir", "__jinja2_%s.cache" % key) and os.path.dirname(fn) == "/some/dir" and all(ch in "0123456789abcdef" for ch in key)
    rs.append(Res("C27.table._get_cache_filename", "discharged" if ok2 else "refuted", "table", 0, "" if ok2 else f"cache file name {fn!r}", "table", None if ok2 else {}))
    keys = {BytecodeCache().get_cache_key(n, f) for n in ("a", "b", "a/b") for f in (None, "a", "b", "x/y")}
    ok3 = len(keys) == 12
    rs.append(Res("C27.table.get_cache_key.distinct", "discharged" if ok3 else "refuted", "table", 0, "" if ok3 else "cache keys of distinct (name, filename) pairs collide", "table", None if ok3 else {}))
    v, d = replay_checksum({})
    rs.append(Res("C27.table.get_source_checksum.corpus", "refuted" if v else "discharged", "table", 0, d if v else "", "table", {} if v else None))
    return rs


class Bounded(FnTask):
    def finding_key(self, res):
        w = res.witness or {}
        return w.get("key") or w.get("label") or str(w.get("ops") or w.get("fail"))


TASKS = [
    BucketLoad(), BucketWrite(), RoundTrip(), GetBucket(), ChecksumInjective(), KeyConfig(),
    LoaderLoad(True), LoaderLoad(True, True), LoaderLoad(False),
    FsDump(), FsLoad(), FsClear(), MemLoad(), MemDump(),
    CacheKeyTotal(),
    KeyBounded("C27", "C27.bounded.cache_key_injective", bounded_key_injective, "bounded", replay_key_collision),
    FnTask("C27", "C27.tables", table_magic, "table", replay_load_family),
    Bounded("C27", "C27.bounded.truncation[fs]", bounded_truncation("fs"), "bounded", replay_truncation),
    Bounded("C27", "C27.bounded.truncation[memcached]", bounded_truncation("memcached"), "bounded", replay_truncation),
    Bounded("C27", "C27.bounded.histories", bounded_histories, "bounded", replay_hist_w),
    Bounded("C27", "C27.bounded.crash_points", bounded_crash, "bounded", replay_fs),
]

META = {
    "level": "proof-of-mechanism",
    "explanation": "Every function of the bytecode-cache mechanism (Bucket, BytecodeCache.get_bucket/get_source_checksum, BaseLoader.load, "
                   "FileSystemBytecodeCache.dump_bytecode/load_bytecode/clear, MemcachedBytecodeCache.load_bytecode/dump_bytecode) is symbolically "
                   "executed from its real source against whole-view postconditions: totality and magic/checksum gate of load_bytecode with "
                   "pickle/marshal/read as abstract callees with their documented raise sets, write/load round trip over a ghost byte stream, "
                   "checksum of the current source, compile-iff-miss and store-only-then in the loader, a ghost file-system event trace for the "
                   "atomic write (only os.replace(tmp, final) targets the final name; every other exit removes the temporary file), error "
                   "swallowing iff ignore_memcache_errors, and a read-set obligation on the key/checksum. End-to-end statements about histories, "
                   "truncation offsets and crash points are bounded stand-ins on the real caches.",
    "assumptions": [
        "os.replace is atomic; a temporary file in the directory of the final name is on the same file system",
        "sha1 and utf-8 encoding are collision-free (uninterpreted injective functions)",
        "pickle.load(pickle.dump(x)) = x and marshal.load(marshal.dump(c)) = c on a stream read back record by record",
        "f.read on an opened stream does not raise; asynchronous exceptions arrive only at the modelled call sites",
        "A-EQ equality of abstract atoms (checksums, magic bytes, names) is term equality",
    ],
    "trusted_base": ["z3 5.1 / cvc5", "pyvc symbolic executor",
                     "dependency spec: pickle.load raises one of EOFError, UnpicklingError, AttributeError, ImportError, IndexError, ValueError or returns a value",
                     "dependency spec: marshal.load raises EOFError, ValueError or TypeError or returns a value",
                     "dependency spec: tempfile.NamedTemporaryFile(dir, prefix, suffix) creates dir/prefix<random>suffix",
                     "dependency specs: os.remove / os.replace / open / with-statement on files as ghost file-system events"],
}
