"""C03  Statements and variable scoping follow Jinja's scoping rules  (level: other - mechanisms proved,
the end-to-end statement argued from them and probed by a bounded differential stand-in).

Mechanisms under contract (DESIGN section 5, C03):

  C03.symbols.<method>.*       idtracking.Symbols: every method against the reference-table semantics over ARBITRARY
                               (array-encoded, unbounded) tables `refs`, `loads`, `stores` and an arbitrary ancestor chain
                               (the parent is used through the contract of find_ref/find_load: induction over the chain);
                               class invariant INV (pointwise, instantiated at the touched names and at an arbitrary name q):
                                 INV1  refs[n] defined here      =>  refs[n] == "l_<level>_<n>"
                                 INV2  refs[n] defined here      =>  refs[n] is a key of loads here or of an ancestor
                                 INV3  level == parent.level + 1 unless given (Symbols.__init__)
                                 INV4  n in stores               =>  refs[n] defined here
  C03.symbols.no_alias.*       string lemma on the identifier built by the real _define_ref: (level, name) -> ident is injective
                               and never a compiler-internal name; no string constant of compiler.py is of the form l_<digit>...
  C03.symbols.store_local.*    store(n) in a child table defines l_<child level>_<n>, different from every ancestor ref, and its
                               load is alias(<ancestor ref>) when an ancestor knows n
  C03.symbols.branch_update.*  loop-body commutation (result independent of set iteration order) + bounded exhaustive
                               enumeration of the real method against the rule of the property statement
  C03.frames.*                 compiler.Frame.__init__/copy/inner/soft
  C03.visitors.*               FrameSymbolVisitor / RootVisitor: which fields are analysed in which table
  C03.emit.scopes.*            visit_For/With/FilterBlock/AssignBlock/Macro/CallBlock/Scope/OverlayScope/If frame discipline
  C03.assign_tracking.*        push/pop_assign_tracking, visit_Name bookkeeping, visit_For discards loop stores
  C03.enter_leave_frame.*      CodeGenerator.enter_frame / leave_frame
  C03.namespace.*              utils.Namespace, NSRef guard in visit_Assign
  C03.bounded.alpha            differential stand-in: generated templates vs. their alpha-renamings and a reference
                               interpreter of the scoping rules of docs/templates.rst
"""
from __future__ import annotations

import ast
import itertools
import re
import time
import z3

from pyvc.contract import VC, Res, FnTask, Task, Outcome
from pyvc.values import State, Sym, Ref, BoundMethod, HObj, HList, HDict, HSet, Exc, Unsupported, fresh_name, sym, fresh, Event, Obj
from pyvc.smt import to_term, model_value, check_sat
from pyvc.interp import Raised
from pyvc import abstract as A
from pyvc import models

import jinja2.idtracking as IDT
import jinja2.compiler as C
import jinja2.nodes as N
import jinja2.utils as U

S_ = z3.StringSort()
B_ = z3.BoolSort()

PARAM, RESOLVE, ALIAS, UNDEF = IDT.VAR_LOAD_PARAMETER, IDT.VAR_LOAD_RESOLVE, IDT.VAR_LOAD_ALIAS, IDT.VAR_LOAD_UNDEFINED

DIGITS = z3.Plus(z3.Range("0", "9"))
IDENT_START = z3.Union(z3.Range("A", "Z"), z3.Range("a", "z"), z3.Re("_"), z3.Range(chr(0x80), chr(0x2FFFF)))
IDENT_RE = z3.Concat(IDENT_START, z3.Star(z3.Union(IDENT_START, z3.Range("0", "9"))))


NFKC = z3.Function("nfkc", z3.StringSort(), z3.StringSort())          # unicodedata.normalize("NFKC", s)
ENC = z3.Function("utf8_encode", z3.StringSort(), Obj)                 # s.encode()
HEXF = z3.Function("bytes_hex", Obj, z3.StringSort())                  # b.hex()
HEXDIGITS = z3.Plus(z3.Union(z3.Range("0", "9"), z3.Range("a", "f")))


def hexenc(name):
    return HEXF(ENC(name))


def ident(level, name):
    """the identifier scheme (idtracking.Symbols._define_ref): l_<level>_<name> for a name that is its own NFKC form, else
    l_<level>_0<hex of the UTF-8 encoding of the name> (Python compares identifiers after NFKC normalisation)"""
    pre = z3.Concat(z3.StringVal("l_"), models.py_str_int(level), z3.StringVal("_"))
    return z3.If(NFKC(name) == name, z3.Concat(pre, name), z3.Concat(pre, z3.StringVal("0"), hexenc(name)))


def name_spec(*names):
    """dependency spec of s.encode().hex(): a non-empty string of hex digits, injective in s"""
    out = [z3.InRe(hexenc(n), HEXDIGITS) for n in names]
    for a, b in itertools.combinations(names, 2):
        out.append((hexenc(a) == hexenc(b)) == (a == b))
    return out


def install_nfkc(I):
    import unicodedata

    def normalize(I_, st, args, kwargs, node):
        form, v = args
        if isinstance(form, str) and isinstance(v, str):
            return [(st, unicodedata.normalize(form, v))]
        if form != "NFKC":
            raise Unsupported("unicodedata.normalize form other than NFKC", node)
        return [(st, Sym(NFKC(to_term(v, "str")), "str"))]

    I.specs[("fn", id(unicodedata.normalize))] = normalize
    I.specs["str.encode"] = lambda I_, st, args, kwargs, node: [(st, Sym(ENC(to_term(args[0], "str")), "obj"))]
    prev = I.specs.get("method_obj")

    def method_obj(I_, st, args, kwargs, node):
        if args[1] == "hex" and len(args) == 2:
            return [(st, Sym(HEXF(args[0].t), "str"))]
        return prev(I_, st, args, kwargs, node) if prev else None

    I.specs["method_obj"] = method_obj
    prevg = I.specs.get("getattr_obj")
    I.specs["getattr_obj"] = lambda I_, st, args, kwargs, node: ([(st, BoundMethod(args[0], "hex"))] if args[1] == "hex" else (prevg(I_, st, args, kwargs, node) if prevg else None))


def str_int_spec(*levels):
    """dependency spec of str(int) on non-negative ints: a non-empty digit string, injective"""
    out = []
    for a in levels:
        out.append(z3.InRe(models.py_str_int(a), DIGITS))
    for a, b in itertools.combinations(levels, 2):
        out.append((models.py_str_int(a) == models.py_str_int(b)) == (a == b))
    return out


# ------------------------------------------------------------------ abstract `loads` table

class Loads:
    """Model class of a dict[str, tuple[str, str | None]] of unbounded size: arrays dom / kind / has / param."""


def new_loads(st, tag, initial=True, empty=False):
    if empty:
        f = {"dom": z3.K(S_, z3.BoolVal(False)), "kind": z3.K(S_, z3.StringVal("")), "has": z3.K(S_, z3.BoolVal(False)),
             "param": z3.K(S_, z3.StringVal(""))}
    else:
        f = {"dom": z3.Const(fresh_name(tag + "_ldom"), z3.ArraySort(S_, B_)), "kind": z3.Const(fresh_name(tag + "_lkind"), z3.ArraySort(S_, S_)),
             "has": z3.Const(fresh_name(tag + "_lhas"), z3.ArraySort(S_, B_)), "param": z3.Const(fresh_name(tag + "_lparam"), z3.ArraySort(S_, S_))}
    return st.alloc(HObj(Loads, fields=f, path=tag + ".loads"), initial=initial)


def load_value_terms(v):
    """(kind term, has-param term, param term) of a load tuple value"""
    if not (isinstance(v, tuple) and len(v) == 2):
        raise Unsupported(f"load value {v!r} is not a pair")
    k, p = v
    kt = to_term(k, "str")
    if p is None:
        return kt, z3.BoolVal(False), z3.StringVal("")
    return kt, z3.BoolVal(True), to_term(p, "str")


def install_loads(I):
    install_nfkc(I)

    def setitem(I_, st, args, kwargs, node):
        ref, key, v = args
        h = st.get(ref)
        k = to_term(key, "str")
        kt, ht, pt = load_value_terms(v)
        f = h.fields
        f["dom"], f["kind"], f["has"], f["param"] = z3.Store(f["dom"], k, True), z3.Store(f["kind"], k, kt), z3.Store(f["has"], k, ht), z3.Store(f["param"], k, pt)
        st.written.add((ref.id, "*"))
        st.trace.append(Event("write", "loads.__setitem__", [ref, key, v], lineno=getattr(node, "lineno", None)))
        return [(st, None)]

    def value_at(I_, st, h, k):
        f = h.fields
        out = []
        for s, b in I_.fork_bool(st, z3.Select(f["has"], k)):
            kind = Sym(z3.Select(f["kind"], k), "str")
            out.append((s, (kind, Sym(z3.Select(f["param"], k), "str") if b else None)))
        return out

    def getitem(I_, st, args, kwargs, node):
        ref, key = args
        h = st.get(ref)
        k = to_term(key, "str")
        out = []
        for s, b in I_.fork_bool(st, z3.Select(h.fields["dom"], k)):
            if b:
                out += value_at(I_, s, s.get(ref), k)
            else:
                out += models.raise_(s, KeyError, key, node=node)
        return out

    def contains(I_, st, args, kwargs, node):
        ref, key = args
        return [(st, Sym(z3.Select(st.get(ref).fields["dom"], to_term(key, "str")), "bool"))]

    def copy(I_, st, args, kwargs, node):
        h = st.get(args[0])
        return [(st, st.alloc(HObj(Loads, fields=dict(h.fields), path=h.path + ".copy()")))]

    I.specs["Loads.__setitem__"] = setitem
    I.specs["Loads.__getitem__"] = getitem
    I.specs["Loads.__contains__"] = contains
    I.specs["Loads.copy"] = copy


def loads_terms(st, ref):
    """(dom, kind, has, param) of a loads table: the model class, or a concrete dict (fresh tables built by __init__)"""
    h = st.get(ref)
    if isinstance(h, HObj) and h.cls is Loads:
        f = h.fields
        return f["dom"], f["kind"], f["has"], f["param"]
    if isinstance(h, HDict) and h.concrete:
        dom, kind, has, param = z3.K(S_, z3.BoolVal(False)), z3.K(S_, z3.StringVal("")), z3.K(S_, z3.BoolVal(False)), z3.K(S_, z3.StringVal(""))
        for k, v in h.items.items():
            kt, ht, pt = load_value_terms(v)
            k = to_term(k, "str")
            dom, kind, has, param = z3.Store(dom, k, True), z3.Store(kind, k, kt), z3.Store(has, k, ht), z3.Store(param, k, pt)
        return dom, kind, has, param
    raise Unsupported("loads table of unknown shape")


def dict_terms(st, ref):
    h = st.get(ref)
    if h.concrete:
        dom, val = z3.K(S_, z3.BoolVal(False)), z3.K(S_, z3.StringVal(""))
        for k, v in h.items.items():
            dom, val = z3.Store(dom, to_term(k, "str"), True), z3.Store(val, to_term(k, "str"), to_term(v, "str"))
        return dom, val
    return h.dom, h.val


def set_terms(st, ref):
    h = st.get(ref)
    if h.items is not None:
        dom = z3.K(S_, z3.BoolVal(False))
        for k in h.items:
            dom = z3.Store(dom, to_term(k, "str"), True)
        return dom
    return h.dom


# ------------------------------------------------------------------ symbolic Symbols pre-state

class Tab:
    """An arbitrary Symbols instance: level L >= 0, unbounded tables, optional parent.  The ancestor chain is
    abstract: pknown(n) / pref(n) = the result of parent.find_ref(n), plhas(t) / plkind / plparhas / plparam =
    parent.find_load(t) (contracts of the recursive calls; induction over the chain)."""

    def __init__(self, st, with_parent, tag="self"):
        self.with_parent = with_parent
        self.L = z3.Int(fresh_name(tag + "_level"))
        st.assume(self.L >= 0)
        self.refs = A.adict(st, tag + "_refs", "str", "str")
        hr = st.get(self.refs)
        self.rdom, self.rval = hr.dom, hr.val
        self.sdom = z3.Const(fresh_name(tag + "_stores"), z3.ArraySort(S_, B_))
        self.stores = st.alloc(HSet(dom=self.sdom, size=z3.Int(fresh_name(tag + "_nstores")), kk="str"), initial=True)
        self.loads = new_loads(st, tag)
        self.ldom, self.lkind, self.lhas, self.lparam = loads_terms(st, self.loads)
        self.parent = None
        self.PL = z3.Int(fresh_name(tag + "_parent_level"))
        # contracts of the ancestor chain
        self.pknown = z3.Function(fresh_name("anc_known"), S_, B_)
        self.pref = z3.Function(fresh_name("anc_ref"), S_, S_)
        self.plevel = z3.Function(fresh_name("anc_level_of"), S_, z3.IntSort())
        self.plhas = z3.Function(fresh_name("anc_load_known"), S_, B_)
        self.plkind = z3.Function(fresh_name("anc_load_kind"), S_, S_)
        self.plparhas = z3.Function(fresh_name("anc_load_has_param"), S_, B_)
        self.plparam = z3.Function(fresh_name("anc_load_param"), S_, S_)
        if with_parent:
            st.assume(self.PL >= 0, self.L > self.PL)
            self.parent = st.alloc(HObj(IDT.Symbols, fields={"level": Sym(self.PL, "int")}, path="parent"), initial=True)
        self.ref = st.alloc(HObj(IDT.Symbols, fields={"level": Sym(self.L, "int"), "parent": self.parent, "refs": self.refs,
                                                      "loads": self.loads, "stores": self.stores}, path=tag), initial=True)

    # ---- invariant, pointwise
    def anc_known(self, n):
        return self.pknown(n) if self.with_parent else z3.BoolVal(False)

    def anc_load_known(self, t):
        return self.plhas(t) if self.with_parent else z3.BoolVal(False)

    def inv_at(self, n, rdom=None, rval=None, ldom=None, L=None, sdom=None):
        rdom = self.rdom if rdom is None else rdom
        rval = self.rval if rval is None else rval
        ldom = self.ldom if ldom is None else ldom
        sdom = self.sdom if sdom is None else sdom
        L = self.L if L is None else L
        r = z3.Select(rval, n)
        return z3.And(z3.Implies(z3.Select(rdom, n), z3.And(r == ident(L, n), z3.Or(z3.Select(ldom, r), self.anc_load_known(r)))),
                      z3.Implies(z3.Select(sdom, n), z3.Select(rdom, n)))  # INV4: a stored name has a ref in this table

    def anc_inv_at(self, n):
        """the ancestors satisfy INV: what they know is named l_<their level>_<n> with a level below ours, and has a load"""
        if not self.with_parent:
            return z3.BoolVal(True)
        lv = self.plevel(n)
        return z3.Implies(self.pknown(n), z3.And(self.pref(n) == ident(lv, n), lv >= 0, lv <= self.PL, self.plhas(self.pref(n))))

    def assume_inv(self, st, *names):
        """INV at the given names + instances of the lemma C03.symbols.no_alias (proved on the real _define_ref with the string
        theory): the identifier is injective in (level, name).  The other Symbols contracts use the lemma, not the string facts."""
        st.assume(*typed_not_none())
        for n in names:
            st.assume(self.inv_at(n), self.anc_inv_at(n))
        for a in names:
            for b in names:
                if a is not b:
                    st.assume(z3.Implies(ident(self.L, a) == ident(self.L, b), a == b))
                if self.with_parent:
                    lv = self.plevel(b)
                    st.assume(z3.Implies(z3.And(lv >= 0, ident(self.L, a) == ident(lv, b)), z3.And(self.L == lv, a == b)))

    # ---- reference semantics (chain lookup)
    def find_ref_known(self, n):
        return z3.Or(z3.Select(self.rdom, n), self.anc_known(n))

    def find_ref_val(self, n):
        return z3.If(z3.Select(self.rdom, n), z3.Select(self.rval, n), self.pref(n))

    def post(self, st):
        """(rdom, rval, sdom, ldom, lkind, lhas, lparam) of this table in state st"""
        h = st.get(self.ref)
        rd, rv = dict_terms(st, h.fields["refs"])
        sd = set_terms(st, h.fields["stores"])
        return (rd, rv, sd) + tuple(loads_terms(st, h.fields["loads"]))

    def fields_kept(self, st):
        """level / parent untouched and the three tables are still the same objects"""
        h = st.get(self.ref)
        f = h.fields
        return (f.get("parent") == self.parent if self.parent is not None else f.get("parent") is None) and f.get("refs") == self.refs \
            and f.get("loads") == self.loads and f.get("stores") == self.stores and isinstance(f.get("level"), Sym) and f["level"].t.eq(self.L)


def not_none(term):
    """a str is not None (the engine compares a str-kind value with None through str2obj)"""
    from pyvc.smt import str2obj, host_const
    return str2obj(term) != host_const(None)


def install_object_new(I):
    """object.__new__(cls): a fresh instance without attributes (dependency spec)"""
    def obj_new(I_, st, args, kwargs, node):
        return [(st, st.alloc(HObj(args[0])))]
    I.specs[("fn", id(object.__new__))] = obj_new


def typed_not_none():
    """str / int values are not None (dependency fact about the engine's embedding of typed values into Obj)"""
    from pyvc.smt import str2obj, int2obj, host_const
    x, i = z3.Const("nn_s", S_), z3.Int("nn_i")
    return [z3.ForAll([x], str2obj(x) != host_const(None)), z3.ForAll([i], int2obj(i) != host_const(None))]


def install_parent(I, tab_of):
    """Symbols.find_ref / find_load on the abstract parent = the chain contract; on anything else the real body."""

    def find_ref(I_, st, args, kwargs, node):
        t = tab_of()
        recv = args[0]
        if t.parent is not None and recv == t.parent:
            name = to_term(args[1], "str")
            out = []
            for s, b in I_.fork_bool(st, t.pknown(name)):
                if b:
                    s.assume(not_none(t.pref(name)))
                out.append((s, Sym(t.pref(name), "str") if b else None))
            return out
        return I_.call_closure(st, I_.closure_of_function(IDT.Symbols.find_ref), args, kwargs, node)

    def find_load(I_, st, args, kwargs, node):
        t = tab_of()
        recv = args[0]
        if t.parent is not None and recv == t.parent:
            tg = to_term(args[1], "str")
            out = []
            for s, b in I_.fork_bool(st, t.plhas(tg)):
                if not b:
                    out.append((s, None))
                    continue
                for s2, b2 in I_.fork_bool(s, t.plparhas(tg)):
                    out.append((s2, (Sym(t.plkind(tg), "str"), Sym(t.plparam(tg), "str") if b2 else None)))
            return out
        return I_.call_closure(st, I_.closure_of_function(IDT.Symbols.find_load), args, kwargs, node)

    I.specs["Symbols.find_ref"] = find_ref
    I.specs["Symbols.find_load"] = find_load


def arr_eq(a, b):
    return a == b


class SymVC(VC):
    """Base of the Symbols method contracts."""
    prop = "C03"
    method = ""
    with_parent = True
    timeout_quick = 20000

    def __init__(self, with_parent=True, name=None):
        self.with_parent = with_parent
        self.target = f"jinja2.idtracking:Symbols.{self.method}"
        super().__init__("C03", name or f"C03.symbols.{self.method}[{'child' if with_parent else 'root'}]")

    def configure(self, I):
        install_loads(I)
        install_parent(I, lambda: self.tab)
        install_object_new(I)
        I.inline.update({"jinja2.idtracking:Symbols._define_ref", "jinja2.idtracking:Symbols.ref"})

    def setup(self, I, st):
        self.tab = Tab(st, self.with_parent)
        self.name_ = sym("name", "str")
        self.q = z3.Const("q", S_)
        self.tab.assume_inv(st, self.name_.t, self.q)
        return self.args(), {}

    def args(self):
        return [self.tab.ref, self.name_]

    # generic clauses -----------------------------------------------------------------
    def p_inv(self, pre, out):
        """INV holds at the arbitrary name q in the post-state"""
        if out.raised:
            return None
        t = self.tab
        rd, rv, sd, ld, lk, lh, lp = t.post(out.st)
        return z3.And(t.fields_kept(out.st), t.inv_at(self.q, rd, rv, ld, sdom=sd))

    def concretize(self, model, pre, out):
        t = self.tab
        w = {"method": self.method, "with_parent": self.with_parent, "level": model_value(model, t.L),
             "name": model_value(model, self.name_.t)}
        n = self.name_.t
        w["name_in_refs"] = bool(model_value(model, z3.Select(t.rdom, n)))
        w["name_in_stores"] = bool(model_value(model, z3.Select(t.sdom, n)))
        if self.with_parent:
            w["parent_knows_name"] = bool(model_value(model, t.pknown(n)))
            w["parent_level"] = model_value(model, t.PL)
        return w

    def replay(self, w):
        return replay_symbols(w)


def loads_store(t, key, kind, has, param, base=None):
    ld, lk, lh, lp = base if base is not None else (t.ldom, t.lkind, t.lhas, t.lparam)
    kind = kind if z3.is_expr(kind) else to_term(kind, "str")
    param = param if z3.is_expr(param) else to_term(param, "str")
    return (z3.Store(ld, key, True), z3.Store(lk, key, kind), z3.Store(lh, key, has if not isinstance(has, bool) else z3.BoolVal(has)),
            z3.Store(lp, key, param))


def loads_equal(post, want, at=None):
    """extensional equality of loads tables (has/param only matter where defined; param only where has)"""
    ld, lk, lh, lp = post
    wd, wk, wh, wp = want
    k = z3.Const(fresh_name("lk"), S_)
    body = z3.And(z3.Select(ld, k) == z3.Select(wd, k),
                  z3.Implies(z3.Select(wd, k), z3.And(z3.Select(lk, k) == z3.Select(wk, k), z3.Select(lh, k) == z3.Select(wh, k),
                                                      z3.Implies(z3.Select(wh, k), z3.Select(lp, k) == z3.Select(wp, k)))))
    return z3.ForAll([k], body)


def parent_untouched(t, st):
    if t.parent is None:
        return True
    return not any(i == t.parent.id for (i, _f) in st.written)


class Store(SymVC):
    """store(n): n is recorded as stored; unless already referenced here it gets a NEW ref at THIS level whose load is
    alias(<ancestor ref>) when an ancestor knows n, else undefined; everything else unchanged."""
    method = "store"

    def p_returns(self, pre, out):
        return out.returned and out.value is None

    def p_view(self, pre, out):
        if out.raised:
            return None
        t, n = self.tab, self.name_.t
        rd, rv, sd, ld, lk, lh, lp = t.post(out.st)
        new = ident(t.L, n)
        had = z3.Select(t.rdom, n)
        alias = t.anc_known(n)
        want_loads = loads_store(t, new, z3.If(alias, z3.StringVal(ALIAS), z3.StringVal(UNDEF)), alias, t.pref(n))
        return z3.And(
            sd == z3.Store(t.sdom, n, True),
            z3.If(had,
                  z3.And(rd == t.rdom, rv == t.rval, loads_equal((ld, lk, lh, lp), (t.ldom, t.lkind, t.lhas, t.lparam))),
                  z3.And(rd == z3.Store(t.rdom, n, True), z3.Select(rv, n) == new, eq_except(rv, t.rval, rd, n),
                         loads_equal((ld, lk, lh, lp), want_loads))),
            parent_untouched(t, out.st))

    def p_local(self, pre, out):
        """C03.symbols.store_local: an assignment in an inner table never names an ancestor's Python local (it gets
        l_<this level>_<n>, which differs from every ancestor ref), and a name an ancestor knows is ALIASED, not rebound"""
        if out.raised or not self.with_parent:
            return None
        t, n, q = self.tab, self.name_.t, self.q
        rd, rv, sd, ld, lk, lh, lp = t.post(out.st)
        new = z3.Select(rv, n)
        return z3.Implies(z3.Not(z3.Select(t.rdom, n)), z3.And(
            z3.Select(rd, n), new == ident(t.L, n),
            z3.Implies(t.pknown(q), new != t.pref(q)),
            z3.Implies(t.pknown(n), z3.And(new != t.pref(n), z3.Select(ld, new), z3.Select(lk, new) == z3.StringVal(ALIAS),
                                           z3.Select(lh, new), z3.Select(lp, new) == t.pref(n))),
            z3.Implies(z3.Not(t.pknown(n)), z3.And(z3.Select(ld, new), z3.Select(lk, new) == z3.StringVal(UNDEF), z3.Not(z3.Select(lh, new))))))

    posts = [("returns_none", p_returns), ("view", p_view), ("preserves_INV", SymVC.p_inv), ("store_local", p_local)]


def eq_on(a, b, dom):
    """arrays a and b agree on every key of dom"""
    k = z3.Const(fresh_name("ek"), S_)
    return z3.ForAll([k], z3.Implies(z3.Select(dom, k), z3.Select(a, k) == z3.Select(b, k)))


def eq_except(a, b, dom, n):
    """arrays a and b agree on every key of dom other than n"""
    k = z3.Const(fresh_name("ek"), S_)
    return z3.ForAll([k], z3.Implies(z3.And(k != n, z3.Select(dom, k)), z3.Select(a, k) == z3.Select(b, k)))


def unchanged(t, st):
    """whole table state as before and nothing written"""
    rd, rv, sd, ld, lk, lh, lp = t.post(st)
    if not t.fields_kept(st):
        return False
    return z3.And(rd == t.rdom, rv == t.rval, sd == t.sdom, loads_equal((ld, lk, lh, lp), (t.ldom, t.lkind, t.lhas, t.lparam)),
                  parent_untouched(t, st), no_writes(t, st))


def no_writes(t, st):
    ids = {t.ref.id, t.refs.id, t.loads.id, t.stores.id} | ({t.parent.id} if t.parent is not None else set())
    return not any(i in ids for (i, _f) in st.written)


class FindRef(SymVC):
    """find_ref(n): the ref of n in the nearest table of the chain that defines it, None when none does; pure."""
    method = "find_ref"

    def p_result(self, pre, out):
        if out.raised:
            return False
        t, n = self.tab, self.name_.t
        if out.value is None:
            return z3.Not(t.find_ref_known(n))
        if not (isinstance(out.value, Sym) and out.value.k == "str"):
            return False
        return z3.And(t.find_ref_known(n), out.value.t == t.find_ref_val(n))

    def p_pure(self, pre, out):
        return unchanged(self.tab, out.st)

    posts = [("nearest_definition", p_result), ("pure", p_pure)]


class Ref_(SymVC):
    """ref(n) = find_ref(n), AssertionError when the chain does not know n; pure."""
    method = "ref"

    def p_result(self, pre, out):
        t, n = self.tab, self.name_.t
        if out.raised:
            return z3.And(out.value.cls is AssertionError, z3.Not(t.find_ref_known(n)))
        if not (isinstance(out.value, Sym) and out.value.k == "str"):
            return False
        return z3.And(t.find_ref_known(n), out.value.t == t.find_ref_val(n))

    def p_pure(self, pre, out):
        return unchanged(self.tab, out.st)

    posts = [("nearest_definition_or_assertion", p_result), ("pure", p_pure)]


def load_tuple_is(v, kind, has, param):
    """z3 condition: the returned load value v (host pair) equals (kind, param if has else None)"""
    if not (isinstance(v, tuple) and len(v) == 2):
        return False
    k, p = v
    conj = [to_term(k, "str") == kind]
    if p is None:
        conj.append(z3.Not(has))
    else:
        conj += [has, to_term(p, "str") == param]
    return z3.And(*conj)


class FindLoad(SymVC):
    """find_load(t): the load instruction of target t in the nearest table of the chain, None when unknown; pure."""
    method = "find_load"

    def p_result(self, pre, out):
        if out.raised:
            return False
        t, n = self.tab, self.name_.t
        here = z3.Select(t.ldom, n)
        if out.value is None:
            return z3.Not(z3.Or(here, t.anc_load_known(n)))
        return z3.If(here, load_tuple_is(out.value, z3.Select(t.lkind, n), z3.Select(t.lhas, n), z3.Select(t.lparam, n)),
                     z3.And(t.anc_load_known(n), load_tuple_is(out.value, t.plkind(n), t.plparhas(n), t.plparam(n))))

    def p_pure(self, pre, out):
        return unchanged(self.tab, out.st)

    posts = [("nearest_definition", p_result), ("pure", p_pure)]


class DefineRef(SymVC):
    """_define_ref(n, load): refs[n] := l_<level>_<n> (returned); loads[that] := load when given; nothing else."""
    method = "_define_ref"

    def __init__(self, with_parent, load):
        self.load_shape = load
        super().__init__(with_parent, f"C03.symbols._define_ref[{'child' if with_parent else 'root'},load={load}]")

    def args(self):
        self.lkind, self.lparam = sym("load_kind", "str"), sym("load_param", "str")
        load = {"none": None, "pair": (self.lkind, self.lparam), "nopar": (self.lkind, None)}[self.load_shape]
        return [self.tab.ref, self.name_, load]

    def p_view(self, pre, out):
        if out.raised:
            return False
        t, n = self.tab, self.name_.t
        rd, rv, sd, ld, lk, lh, lp = t.post(out.st)
        new = ident(t.L, n)
        if self.load_shape == "none":
            want = (t.ldom, t.lkind, t.lhas, t.lparam)
        else:
            want = loads_store(t, new, self.lkind.t, self.load_shape == "pair", self.lparam.t)
        return z3.And(isinstance(out.value, Sym) and out.value.k == "str" and out.value.t == new, sd == t.sdom,
                      rd == z3.Store(t.rdom, n, True), z3.Select(rv, n) == new, eq_except(rv, t.rval, rd, n),
                      loads_equal((ld, lk, lh, lp), want), parent_untouched(t, out.st), t.fields_kept(out.st))

    def p_inv(self, pre, out):
        """INV is preserved exactly because a load is passed (all four call sites do)"""
        if self.load_shape == "none":
            return None
        return SymVC.p_inv(self, pre, out)

    posts = [("view", p_view), ("preserves_INV_given_a_load", p_inv)]


class DeclareParameter(SymVC):
    """declare_parameter(n): n is stored, (re)bound at THIS level with load (param, None); returns the identifier."""
    method = "declare_parameter"

    def p_view(self, pre, out):
        if out.raised:
            return False
        t, n = self.tab, self.name_.t
        rd, rv, sd, ld, lk, lh, lp = t.post(out.st)
        new = ident(t.L, n)
        want = loads_store(t, new, PARAM, False, z3.StringVal(""))
        return z3.And(isinstance(out.value, Sym) and out.value.k == "str" and out.value.t == new, sd == z3.Store(t.sdom, n, True),
                      rd == z3.Store(t.rdom, n, True), z3.Select(rv, n) == new, eq_except(rv, t.rval, rd, n),
                      loads_equal((ld, lk, lh, lp), want), parent_untouched(t, out.st))

    posts = [("view", p_view), ("preserves_INV", SymVC.p_inv)]


class Load(SymVC):
    """load(n): a name the chain already knows is left alone; an unknown one is bound here with load (resolve, n)."""
    method = "load"

    def p_view(self, pre, out):
        if out.raised or out.value is not None:
            return False
        t, n = self.tab, self.name_.t
        rd, rv, sd, ld, lk, lh, lp = t.post(out.st)
        new = ident(t.L, n)
        want = loads_store(t, new, RESOLVE, True, n)
        return z3.And(sd == t.sdom, parent_untouched(t, out.st),
                      z3.If(t.find_ref_known(n),
                            z3.And(rd == t.rdom, rv == t.rval, loads_equal((ld, lk, lh, lp), (t.ldom, t.lkind, t.lhas, t.lparam))),
                            z3.And(rd == z3.Store(t.rdom, n, True), z3.Select(rv, n) == new, eq_except(rv, t.rval, rd, n),
                                   loads_equal((ld, lk, lh, lp), want))))

    posts = [("view", p_view), ("preserves_INV", SymVC.p_inv)]


class Copy(SymVC):
    """copy(): a new table of the same class / level / parent whose three tables are equal but NOT shared."""
    method = "copy"

    def args(self):
        return [self.tab.ref]

    def p_fresh_equal(self, pre, out):
        if out.raised:
            return False
        t, st = self.tab, out.st
        r = out.value
        if not isinstance(r, Ref) or r == t.ref or r.id not in st.allocated:
            return False
        h = st.get(r)
        f = h.fields
        if h.cls is not IDT.Symbols or set(f) != {"level", "parent", "refs", "loads", "stores"}:
            return False
        if f["parent"] != t.parent if t.parent is not None else f["parent"] is not None:
            return False
        for k, src in (("refs", t.refs), ("loads", t.loads), ("stores", t.stores)):
            if not isinstance(f[k], Ref) or f[k] == src or f[k].id not in st.allocated:
                return False  # shares a table with the source
        rd, rv = dict_terms(st, f["refs"])
        sd = set_terms(st, f["stores"])
        return z3.And(to_term(f["level"], "int") == t.L, rd == t.rdom, eq_on(rv, t.rval, rd), sd == t.sdom,
                      loads_equal(loads_terms(st, f["loads"]), (t.ldom, t.lkind, t.lhas, t.lparam)))

    def p_src(self, pre, out):
        return unchanged(self.tab, out.st)

    posts = [("fresh_equal_unshared", p_fresh_equal), ("source_unchanged", p_src)]


class Init(VC):
    """Symbols(parent, level): level = given, else 0 without parent, else parent.level + 1; empty tables; parent kept."""
    prop = "C03"
    target = "jinja2.idtracking:Symbols.__init__"

    def __init__(self, with_parent, given):
        self.with_parent, self.given = with_parent, given
        super().__init__("C03", f"C03.symbols.__init__[{'child' if with_parent else 'root'},level={'given' if given else 'None'}]")

    def setup(self, I, st):
        self.obj = st.alloc(HObj(IDT.Symbols), initial=True)
        self.PL = z3.Int("parent_level")
        self.parent = st.alloc(HObj(IDT.Symbols, fields={"level": Sym(self.PL, "int")}, path="parent"), initial=True) if self.with_parent else None
        self.lv = sym("level", "int")
        st.assume(*typed_not_none())
        return [self.obj, self.parent, self.lv if self.given else None], {}

    def p_post(self, pre, out):
        if out.raised:
            return False
        st = out.st
        f = st.get(self.obj).fields
        if set(f) != {"level", "parent", "refs", "loads", "stores"}:
            return False
        if (f["parent"] != self.parent) if self.parent is not None else (f["parent"] is not None):
            return False
        refs, loads, stores = (st.get(f[k]) if isinstance(f[k], Ref) else None for k in ("refs", "loads", "stores"))
        if not (isinstance(refs, HDict) and refs.concrete and not refs.items and isinstance(loads, HDict) and loads.concrete and not loads.items
                and isinstance(stores, HSet) and stores.items == []):
            return False
        if len({f["refs"].id, f["loads"].id, f["stores"].id}) != 3:
            return False
        want = self.lv.t if self.given else (self.PL + 1 if self.with_parent else z3.IntVal(0))
        return z3.And(to_term(f["level"], "int") == want, not any(self.parent is not None and i == self.parent.id for (i, _x) in st.written))

    posts = [("level_rule_and_empty_tables", p_post)]

    def concretize(self, model, pre, out):
        return {"method": "__init__", "with_parent": self.with_parent, "given": self.given,
                "level": model_value(model, self.lv.t) if self.given else None, "parent_level": model_value(model, self.PL)}

    def replay(self, w):
        return replay_symbols(w)


# ------------------------------------------------------------------ native reference model + replay

class RefSym:
    """Reference semantics of the symbol table, written from the property statement and the docstrings:
    a chain of tables; a name referenced at depth d is the Python local l_<d>_<name>."""

    def __init__(self, parent=None, level=None):
        self.level = level if level is not None else (0 if parent is None else parent.level + 1)
        self.parent, self.refs, self.loads, self.stores = parent, {}, {}, set()

    def chain(self):
        t = self
        while t is not None:
            yield t
            t = t.parent

    def find_ref(self, n):
        return next((t.refs[n] for t in self.chain() if n in t.refs), None)

    def find_load(self, target):
        return next((t.loads[target] for t in self.chain() if target in t.loads), None)

    def ref(self, n):
        r = self.find_ref(n)
        if r is None:
            raise AssertionError(n)
        return r

    def bind(self, n, load):
        self.refs[n] = native_ident(self.level, n)
        self.loads[self.refs[n]] = load
        return self.refs[n]

    def store(self, n):
        self.stores.add(n)
        if n not in self.refs:
            outer = self.parent.find_ref(n) if self.parent is not None else None
            self.bind(n, (ALIAS, outer) if outer is not None else (UNDEF, None))

    def declare_parameter(self, n):
        self.stores.add(n)
        return self.bind(n, (PARAM, None))

    def load(self, n):
        if self.find_ref(n) is None:
            self.bind(n, (RESOLVE, n))

    def copy(self):
        c = RefSym(self.parent, self.level)
        c.refs, c.loads, c.stores = dict(self.refs), dict(self.loads), set(self.stores)
        return c

    def branch_update(self, branches):
        """after an if: the branches' tables are merged in branch order; a name stored in some branch and not before is, after
        the if, maybe-assigned: its load becomes alias(outer) when an enclosing scope knows it, else resolve(name)"""
        new = set().union(*[b.stores for b in branches]) - self.stores
        for b in branches:
            self.refs.update(b.refs)
            self.loads.update(b.loads)
            self.stores |= b.stores
        for n in new:
            outer = self.parent.find_ref(n) if self.parent is not None else None
            self.loads[self.find_ref(n)] = (ALIAS, outer) if outer is not None else (RESOLVE, n)

    def dump_stores(self):
        return {n: self.find_ref(n) for t in self.chain() for n in t.stores}

    def dump_param_targets(self):
        return {t for t, (k, _p) in self.loads.items() if k == PARAM}

    def state(self):
        return (self.level, dict(self.refs), dict(self.loads), set(self.stores))


def real_state(t):
    return (t.level, dict(t.refs), dict(t.loads), set(t.stores))


def native_ident(level, name):
    """the identifier scheme, natively: a name that is not its own NFKC form is spelled as 0<hex of its UTF-8 encoding>"""
    import unicodedata
    return f"l_{level}_{name}" if unicodedata.normalize("NFKC", name) == name else f"l_{level}_0{name.encode().hex()}"


def build_pair(spec):
    """spec: list of (level or None, [(op, name), ...]) from the root down -> (real table, reference table)"""
    real = ref = None
    for level, ops in spec:
        real, ref = IDT.Symbols(real, level=level), RefSym(ref, level=level)
        for op, n in ops:
            getattr(real, op)(n)
            getattr(ref, op)(n)
    return real, ref


def run_both(real, ref, method, args):
    def run(o):
        try:
            return ("ok", getattr(o, method)(*args))
        except Exception as ex:
            return ("raise", type(ex).__name__)
    return run(real), run(ref)


def replay_symbols(w):
    """Real Symbols vs the reference semantics on the witness state (and on neighbouring states: the witness only fixes the
    facts the verifier's model decided)."""
    m = w.get("method")
    name = w.get("name") or "x"
    if not re.fullmatch(r"[A-Za-z_][A-Za-z0-9_]*", name):
        name = "x"
    problems = []
    if m == "__init__":
        for parent in ((None, IDT.Symbols(level=w.get("parent_level") or 0)) if w.get("with_parent") else (None,)):
            for lv in {w.get("level"), None, 0, 3}:
                real = IDT.Symbols(parent, level=lv)
                want = lv if lv is not None else (0 if parent is None else parent.level + 1)
                if real.level != want or real.parent is not parent or real.refs != {} or real.loads != {} or real.stores != set():
                    problems.append(f"Symbols(parent={'yes' if parent else None}, level={lv}): level={real.level} (rule: {want}), refs={real.refs}, loads={real.loads}, stores={real.stores}")
        return (bool(problems), "; ".join(problems[:3]) or "Symbols.__init__ follows the level rule")
    lv = w.get("level")
    lv = lv if isinstance(lv, int) and 0 <= lv < 50 else 1
    plv = w.get("parent_level")
    plv = plv if isinstance(plv, int) and 0 <= plv < lv else max(0, lv - 1)
    variants = []
    for parent_ops in ([("store", name)], [("load", name)], [("declare_parameter", name)], [], [("store", "other")]):
        for own_ops in ([], [("load", name)], [("store", name)], [("declare_parameter", name)], [("load", "other"), ("store", "z")]):
            spec = ([(plv, parent_ops)] if w.get("with_parent", True) else []) + [(lv if not w.get("with_parent", True) else None, own_ops)]
            variants.append(spec)
    for spec in variants:
        for arg in (name, "other", "fresh"):
            real, ref = build_pair(spec)
            if m in ("store", "load", "declare_parameter", "find_ref", "ref"):
                args = (arg,)
            elif m == "find_load":
                args = (native_ident(real.level, arg),)
            elif m == "_define_ref":
                args = (arg, (ALIAS, "l_0_q"))
            elif m == "copy":
                args = ()
            else:
                return (None, f"no native oracle for {m}")
            if m == "_define_ref":
                got = ("ok", real._define_ref(*args))
                want = ("ok", ref.bind(*args))
            elif m == "copy":
                c = real.copy()
                got = ("ok", real_state(c) + (c.parent is real.parent, c.refs is not real.refs, c.loads is not real.loads, c.stores is not real.stores, type(c) is type(real)))
                want = ("ok", ref.state() + (True, True, True, True, True))
            else:
                got, want = run_both(real, ref, m, args)
            if got != want or real_state(real) != ref.state() or (real.parent is not None and real_state(real.parent) != ref.parent.state()):
                problems.append(f"tables {spec}: {m}{args}: real -> {got}, state {real_state(real)}; reference -> {want}, state {ref.state()}")
    return (bool(problems), "; ".join(problems[:2]) or f"Symbols.{m} agrees with the reference semantics on the witness family")


# ------------------------------------------------------------------ C03.frames : compiler.Frame

FRAME_FLAGS = ("toplevel", "rootlevel", "loop_frame", "block_frame", "soft_frame")
FRAME_FIELDS = {"eval_ctx", "parent", "symbols", "require_output_check", "buffer", "block"} | set(FRAME_FLAGS)


class FrameVC(VC):
    """An arbitrary Frame: arbitrary flags / buffer / block, its symbol table an arbitrary Tab."""
    prop = "C03"
    method = ""

    def __init__(self, name_suffix=""):
        self.target = f"jinja2.compiler:Frame.{self.method}"
        super().__init__("C03", f"C03.frames.{self.method}{name_suffix}")

    def configure(self, I):
        install_loads(I)
        install_object_new(I)
        I.inline.update({"jinja2.idtracking:Symbols.__init__", "jinja2.idtracking:Symbols.copy", "jinja2.compiler:Frame.__init__",
                         "jinja2.compiler:Frame.copy"})

    def make_frame(self, st, tag="frame"):
        self.tab = Tab(st, True, tag + "_symbols")
        st.assume(*typed_not_none())
        self.flags = {k: sym(f"{tag}.{k}", "bool") for k in FRAME_FLAGS + ("require_output_check",)}
        self.buffer, self.block = sym(f"{tag}.buffer", "obj"), sym(f"{tag}.block", "obj")
        self.eval_ctx = A.obj(st, N.EvalContext, "eval_ctx")
        self.outer = A.obj(st, C.Frame, "outer_frame")
        fields = {"eval_ctx": self.eval_ctx, "parent": self.outer, "symbols": self.tab.ref, "buffer": self.buffer, "block": self.block}
        fields.update(self.flags)
        self.frame = st.alloc(HObj(C.Frame, fields=fields, path=tag), initial=True)
        return self.frame

    def setup(self, I, st):
        return [self.make_frame(st)], {}

    def source_untouched(self, st):
        ids = {self.frame.id, self.tab.ref.id, self.tab.refs.id, self.tab.loads.id, self.tab.stores.id, self.eval_ctx.id, self.outer.id}
        if self.tab.parent is not None:
            ids.add(self.tab.parent.id)
        if any(i in ids for (i, _f) in st.written):
            return False
        return unchanged(self.tab, st)

    def new_frame_ok(self, st, r):
        return isinstance(r, Ref) and r != self.frame and r.id in st.allocated and st.get(r).cls is C.Frame and set(st.get(r).fields) == FRAME_FIELDS

    def table_is_fresh_child(self, st, sref, parent_ref, level_term):
        """sref is a freshly allocated EMPTY table with the given parent and level"""
        if not (isinstance(sref, Ref) and sref.id in st.allocated):
            return False
        f = st.get(sref).fields
        if set(f) != {"level", "parent", "refs", "loads", "stores"}:
            return False
        if (f["parent"] != parent_ref) if parent_ref is not None else (f["parent"] is not None):
            return False
        refs, loads, stores = (st.get(f[k]) if isinstance(f[k], Ref) else None for k in ("refs", "loads", "stores"))
        if not (isinstance(refs, HDict) and refs.concrete and not refs.items and isinstance(loads, HDict) and loads.concrete and not loads.items
                and isinstance(stores, HSet) and stores.items == []):
            return False
        return to_term(f["level"], "int") == level_term

    def concretize(self, model, pre, out):
        return {"method": self.method}

    def replay(self, w):
        return replay_frames(w)


class FrameInner(FrameVC):
    """inner(): a NEW frame whose table is an empty child of this frame's table, one level deeper; buffer / block / output check
    inherited, every scope flag cleared.  inner(isolated=True): a fresh chain (no parent frame, no parent table) one level deeper."""
    method = "inner"

    def __init__(self, isolated):
        self.isolated = isolated
        super().__init__("[isolated]" if isolated else "")

    def setup(self, I, st):
        return [self.make_frame(st)], ({"isolated": True} if self.isolated else {})

    def p_child(self, pre, out):
        if out.raised or not self.new_frame_ok(out.st, out.value):
            return False
        st, f = out.st, out.st.get(out.value).fields
        if f["eval_ctx"] != self.eval_ctx:
            return False
        if any(f[k] is not False for k in FRAME_FLAGS):
            return False
        if self.isolated:
            if f["parent"] is not None or f["buffer"] is not None or f["block"] is not None or f["require_output_check"] is not False:
                return False
            return self.table_is_fresh_child(st, f["symbols"], None, self.tab.L + 1)
        if f["parent"] != self.frame or f["buffer"] is not self.buffer or f["block"] is not self.block or f["require_output_check"] is not self.flags["require_output_check"]:
            return False
        return self.table_is_fresh_child(st, f["symbols"], self.tab.ref, self.tab.L + 1)

    def p_src(self, pre, out):
        return self.source_untouched(out.st)

    posts = [("fresh_child_one_level_deeper", p_child), ("source_untouched", p_src)]


class FrameCopy(FrameVC):
    """copy() / soft(): a NEW frame with the same fields whose table is a COPY (same level and parent, equal but unshared
    tables); soft() additionally clears rootlevel and sets soft_frame - `if` shares the enclosing scope's level and names."""

    def __init__(self, method):
        self.method = method
        super().__init__()

    def p_copy(self, pre, out):
        if out.raised or not self.new_frame_ok(out.st, out.value):
            return False
        st, f = out.st, out.st.get(out.value).fields
        t = self.tab
        want = dict(self.flags)
        if self.method == "soft":
            want["rootlevel"], want["soft_frame"] = False, True
        for k, v in want.items():
            if f[k] is not v:
                return False
        if f["eval_ctx"] != self.eval_ctx or f["parent"] != self.outer or f["buffer"] is not self.buffer or f["block"] is not self.block:
            return False
        sref = f["symbols"]
        if not isinstance(sref, Ref) or sref == t.ref or sref.id not in st.allocated:
            return False  # shares the symbol table with the enclosing frame
        sf = st.get(sref).fields
        if st.get(sref).cls is not IDT.Symbols or set(sf) != {"level", "parent", "refs", "loads", "stores"} or sf["parent"] != t.parent:
            return False
        for k, src in (("refs", t.refs), ("loads", t.loads), ("stores", t.stores)):
            if not isinstance(sf[k], Ref) or sf[k] == src or sf[k].id not in st.allocated:
                return False
        rd, rv = dict_terms(st, sf["refs"])
        return z3.And(to_term(sf["level"], "int") == t.L, rd == t.rdom, eq_on(rv, t.rval, rd), set_terms(st, sf["stores"]) == t.sdom,
                      loads_equal(loads_terms(st, sf["loads"]), (t.ldom, t.lkind, t.lhas, t.lparam)))

    def p_src(self, pre, out):
        return self.source_untouched(out.st)

    posts = [("fresh_frame_with_copied_table", p_copy), ("source_untouched", p_src)]


class FrameInit(VC):
    """Frame(eval_ctx, parent, level): root frame = fresh root table at `level`, no buffer / block / output check; child frame = empty
    child table of the parent's, inheriting buffer / block / output check; every scope flag False."""
    prop = "C03"
    target = "jinja2.compiler:Frame.__init__"

    def __init__(self, with_parent):
        self.with_parent = with_parent
        super().__init__("C03", f"C03.frames.__init__[{'child' if with_parent else 'root'}]")

    def configure(self, I):
        I.inline.update({"jinja2.idtracking:Symbols.__init__"})

    def setup(self, I, st):
        st.assume(*typed_not_none())
        self.obj = st.alloc(HObj(C.Frame), initial=True)
        self.eval_ctx = A.obj(st, N.EvalContext, "eval_ctx")
        self.PL = z3.Int("parent_table_level")
        self.lv = sym("level", "int")
        self.parent = None
        if self.with_parent:
            self.ptab = st.alloc(HObj(IDT.Symbols, fields={"level": Sym(self.PL, "int")}, path="parent.symbols"), initial=True)
            self.roc, self.buffer, self.block = sym("parent.require_output_check", "bool"), sym("parent.buffer", "obj"), sym("parent.block", "obj")
            self.parent = st.alloc(HObj(C.Frame, fields={"symbols": self.ptab, "require_output_check": self.roc, "buffer": self.buffer,
                                                         "block": self.block}, path="parent"), initial=True)
            return [self.obj, self.eval_ctx, self.parent], {}
        return [self.obj, self.eval_ctx, None, self.lv], {}

    def p_post(self, pre, out):
        if out.raised:
            return False
        st, f = out.st, out.st.get(self.obj).fields
        if set(f) != FRAME_FIELDS or f["eval_ctx"] != self.eval_ctx or any(f[k] is not False for k in FRAME_FLAGS):
            return False
        helper = FrameVC.table_is_fresh_child
        if self.with_parent:
            if f["parent"] != self.parent or f["buffer"] is not self.buffer or f["block"] is not self.block or f["require_output_check"] is not self.roc:
                return False
            if any(i in (self.parent.id, self.ptab.id) for (i, _x) in st.written):
                return False
            return helper(self, st, f["symbols"], self.ptab, self.PL + 1)
        if f["parent"] is not None or f["buffer"] is not None or f["block"] is not None or f["require_output_check"] is not False:
            return False
        return helper(self, st, f["symbols"], None, self.lv.t)

    posts = [("fields_and_table", p_post)]

    def concretize(self, model, pre, out):
        return {"method": "__init__"}

    def replay(self, w):
        return replay_frames(w)


def replay_frames(w):
    """native: Frame construction / inner / soft / copy on the real classes + the scoping family"""
    problems = []
    ec = N.EvalContext(__import__("jinja2").Environment())
    root = C.Frame(ec, level=3)
    root.symbols.store("x")
    root.buffer, root.block, root.require_output_check, root.toplevel, root.rootlevel = "t_1", "b", True, True, True
    inner = root.inner()
    if not (inner.parent is root and inner.symbols.parent is root.symbols and inner.symbols.level == 4 and inner.symbols.refs == {} and inner.buffer == "t_1"
            and inner.block == "b" and inner.require_output_check is True and not any(getattr(inner, k) for k in FRAME_FLAGS)):
        problems.append(f"inner(): parent/table/level/flags wrong: level {inner.symbols.level}, flags {[k for k in FRAME_FLAGS if getattr(inner, k)]}")
    iso = root.inner(isolated=True)
    if not (iso.parent is None and iso.symbols.parent is None and iso.symbols.level == 4 and iso.buffer is None):
        problems.append("inner(isolated=True) does not start a fresh chain one level deeper")
    for name in ("soft", "copy"):
        c = getattr(root, name)()
        if c is root or c.symbols is root.symbols or c.symbols.refs is root.symbols.refs or c.symbols.loads is root.symbols.loads or c.symbols.stores is root.symbols.stores:
            problems.append(f"{name}() shares the symbol table with the enclosing frame")
        if real_state(c.symbols) != real_state(root.symbols) or c.symbols.parent is not root.symbols.parent or c.parent is not root.parent:
            problems.append(f"{name}() does not copy the table")
        want = (False, True) if name == "soft" else (True, False)
        if (c.rootlevel, c.soft_frame) != want or c.toplevel is not True or c.buffer != "t_1":
            problems.append(f"{name}(): flags rootlevel={c.rootlevel} soft_frame={c.soft_frame} toplevel={c.toplevel}")
    bad, det = native_scoping()
    if bad:
        problems.append(det)
    return (bool(problems), "; ".join(problems[:3]) or "Frame construction agrees with the frame discipline")


# ------------------------------------------------------------------ C03.symbols.no_alias

# names that generated code uses for its own purposes (compiler.py: write_commons, visit_Template, visit_For, macro_body,
# visit_Block, visit_Include/Import, CodeGenerator.temporary_identifier; runtime.exported): a template variable's
# Python local must never be one of them
def internal_names():
    import jinja2.runtime as R
    names = {"context", "environment", "missing", "resolve", "undefined", "concat", "cond_expr_undefined", "Undefined", "caller", "macro",
             "loop", "reciter", "loop_render_func", "depth", "fiter", "_loop_vars", "_block_vars", "parent_template", "included_template",
             "included_context", "template", "name", "blocks", "debug_info", "root", "event", "self", "_block_vars", "_get_default_module",
             "_get_default_module_async", "Namespace", "Markup", "escape", "str_join", "identity", "TemplateRuntimeError", "TemplateNotFound",
             "TemplateReference", "LoopContext", "AsyncLoopContext", "Macro", "auto_await", "auto_aiter", "auto_to_list", "markup_join"}
    return sorted(names | set(R.exported) | set(R.async_exported))




class NoAlias(VC):
    """The identifier the REAL _define_ref builds for (level, name): injective in (level, name) over identifiers and
    non-negative levels, of the documented shape (l_<digits>_<name>, or l_<digits>_0<hex> for a name that is not its own NFKC
    form), and never a name the generated code uses itself (t_<n> temporaries, context, environment, resolve, ...).
    LIMIT: this is injectivity of the generated STRING.  Python compares identifiers after NFKC normalisation; that step is covered
    by the table C03.symbols.no_alias.nfkc (every identifier character, real _define_ref) and by C02.names.identifier_injective
    (contracts of C02, hunt C03_2).  It is also injectivity in (LEVEL, name), not in (scope, name): sibling scopes of equal depth
    share a local (C03.symbols.no_alias.sibling_scopes, known finding)."""
    prop = "C03"
    target = "jinja2.idtracking:Symbols._define_ref"
    timeout_quick = 90000  # the string lemma goes to cvc5; generous budget for a loaded machine

    def __init__(self):
        super().__init__("C03", "C03.symbols.no_alias")

    def configure(self, I):
        install_loads(I)

    def setup(self, I, st):
        self.t1, self.t2 = Tab(st, False, "t1"), Tab(st, False, "t2")
        self.n1, self.n2 = sym("name1", "str"), sym("name2", "str")
        st.assume(z3.InRe(self.n1.t, IDENT_RE), z3.InRe(self.n2.t, IDENT_RE), *str_int_spec(self.t1.L, self.t2.L))
        st.assume(*name_spec(self.n1.t, self.n2.t))
        return [self.t2.ref, self.n2, (ALIAS, "x")], {}

    def paths(self, I):
        """the real _define_ref is run for (level1, name1) and then for (level2, name2): every pair of its paths"""
        st = State()
        self.configure(I)
        args, kwargs = self.setup(I, st)
        pre = st.fork()
        clo = self.closure(I)
        outs = []
        for s1, id1 in I.call_closure(st, clo, [self.t1.ref, self.n1, (ALIAS, "x")], {}):
            for s2, v in I.call_closure(s1, clo, list(args), {}):
                o = Outcome(s2, "raise" if isinstance(v, Raised) else "return", v.exc if isinstance(v, Raised) else v, len(outs))
                o.id1 = id1
                outs.append(o)
        return pre, outs

    def p_injective(self, pre, out):
        if out.raised or not isinstance(out.value, Sym) or not isinstance(out.id1, Sym):
            return False
        return z3.Implies(out.id1.t == out.value.t, z3.And(self.t1.L == self.t2.L, self.n1.t == self.n2.t))

    def p_shape(self, pre, out):
        if out.raised or not isinstance(out.value, Sym):
            return False
        return z3.InRe(out.value.t, z3.Concat(z3.Re("l_"), DIGITS, z3.Re("_"), z3.Union(IDENT_RE, z3.Concat(z3.Re("0"), HEXDIGITS))))

    def p_not_internal(self, pre, out):
        if out.raised or not isinstance(out.value, Sym):
            return False
        v = out.value.t
        return z3.And(z3.Not(z3.InRe(v, z3.Concat(z3.Re("t_"), DIGITS))), z3.Not(z3.InRe(v, z3.Concat(z3.Re("block_"), z3.Full(z3.ReSort(S_))))),
                      *[v != z3.StringVal(c) for c in internal_names()])

    posts = [("injective_in_level_and_name", p_injective), ("documented_shape", p_shape), ("never_an_internal_name", p_not_internal)]

    def concretize(self, model, pre, out):
        return {"level1": model_value(model, self.t1.L), "name1": model_value(model, self.n1.t),
                "level2": model_value(model, self.t2.L), "name2": model_value(model, self.n2.t)}

    def replay(self, w):
        return replay_no_alias(w)


def replay_no_alias(w):
    """Native: distinct (level, name) pairs get distinct identifiers, none of them internal; and shadowing templates
    keep inner and outer variables apart."""
    problems = []
    internal = set(internal_names())
    pairs = {(w.get("level1", 0), w.get("name1", "a")), (w.get("level2", 1), w.get("name2", "a"))}
    for lv in (0, 1, 2, 10, 11, 1_0):
        for nm in ("a", "_a", "a_1", "1_a"[2:] + "1", "_1", "context", "l_0_a", "t_1", "é"):
            pairs.add((lv, nm))
    seen = {}
    for lv, nm in sorted((p for p in pairs if isinstance(p[0], int) and p[0] >= 0 and isinstance(p[1], str) and p[1].isidentifier()), key=repr):
        t = IDT.Symbols(level=lv)
        i = t._define_ref(nm, load=(ALIAS, "x"))
        if i in seen and seen[i] != (lv, nm):
            problems.append(f"(level={lv}, name={nm!r}) and (level={seen[i][0]}, name={seen[i][1]!r}) both get the Python local {i!r}")
        seen[i] = (lv, nm)
        if i in internal or re.fullmatch(r"t_\d+|block_.*", i):
            problems.append(f"(level={lv}, name={nm!r}) gets the compiler-internal name {i!r}")
        if i != native_ident(lv, nm):
            problems.append(f"(level={lv}, name={nm!r}) -> {i!r}, documented {native_ident(lv, nm)}")
    bad, det = native_scoping()
    if bad:
        problems.append(det)
    return (bool(problems), "; ".join(problems[:3]) or "identifiers are distinct, non-internal and of the documented shape")


# ------------------------------------------------------------------ C03.visitors / C03.emit.scopes : frame discipline of the visitors

def _mk(field, ctx="load"):
    return N.Name(f"M_{field}", ctx)


def _out(field):
    return [N.Output([_mk(field)])]


def marker_node(cls):
    """a concrete node of the class whose every child field holds a distinct marker name"""
    flt = lambda: N.Filter(None, "f", [_mk("filter")], [], None, None)
    if cls is N.For:
        return N.For(_mk("target", "store"), _mk("iter"), _out("body"), _out("else_"), _mk("test"), False)
    if cls is N.With:
        return N.With([_mk("targets", "param")], [_mk("values")], _out("body"))
    if cls is N.FilterBlock:
        return N.FilterBlock(_out("body"), flt())
    if cls is N.AssignBlock:
        return N.AssignBlock(_mk("target", "store"), flt(), _out("body"))
    if cls is N.Macro:
        return N.Macro("M_name", [_mk("args", "param")], [_mk("defaults")], _out("body"))
    if cls is N.CallBlock:
        return N.CallBlock(N.Call(_mk("call"), [], [], None, None), [_mk("args", "param")], [_mk("defaults")], _out("body"))
    if cls is N.Scope:
        return N.Scope(_out("body"))
    if cls is N.If:
        return N.If(_mk("test"), _out("body"), [N.If(_mk("elif_"), _out("elif_"), [], [])], _out("else_"))
    raise ValueError(cls)


def analysed(sym):
    return {n[2:] for n in set(sym.refs) | set(sym.stores) if n.startswith("M_")}


def outer_analysed(cls):
    """fields whose names the REAL FrameSymbolVisitor records in the ENCLOSING table when it meets a node of this class"""
    sym = IDT.Symbols()
    IDT.FrameSymbolVisitor(sym).visit(marker_node(cls))
    return analysed(sym), sym


def inner_analysed(cls, **kw):
    """fields whose names the REAL RootVisitor (Symbols.analyze_node) records in the table of the node's own frame"""
    sym = IDT.Symbols(parent=IDT.Symbols())
    sym.analyze_node(marker_node(cls), **kw)
    return analysed(sym), sym


# what the property statement demands, per construct:
#   outer   fields that belong to the ENCLOSING scope (evaluated / assigned outside)
#   scoped  fields that belong to the construct's own fresh scope
#   no_leak fields that can assign: the enclosing table must not learn them ("assignments do not leak")
SCOPES = {
    "For": dict(outer={"iter"}, scoped={"target", "body", "else_", "test"}, no_leak={"target", "body", "else_"}, n_inner=3),
    "With": dict(outer={"values"}, scoped={"targets", "body"}, no_leak={"targets", "body"}, n_inner=1),
    # the filter of a filter block / filtered set block is written in the opening tag, outside the body: like with-values, the
    # loop iterable and call arguments it belongs to the enclosing scope (only the filtered VALUE comes from the body's buffer)
    "FilterBlock": dict(outer={"filter"}, scoped={"body"}, no_leak={"body"}, n_inner=1, outer_copy=True),
    "AssignBlock": dict(outer={"target", "filter"}, scoped={"body"}, no_leak={"body"}, n_inner=1, outer_copy=True),
    "Scope": dict(outer=set(), scoped={"body"}, no_leak={"body"}, n_inner=1),
    "Macro": dict(outer=set(), scoped={"defaults", "body"}, no_leak={"args", "body"}, n_inner=1),
    "CallBlock": dict(outer={"call"}, scoped={"defaults", "body"}, no_leak={"args", "body"}, n_inner=1),
}


def record_frames(I):
    """emission run instrumentation: which child is visited in which frame, which table is analysed"""
    orig = I.specs["CodeGenerator.visit"]

    def visit(I_, st, args, kwargs, node):
        fr = args[2] if len(args) > 2 else kwargs.get("frame")
        st.trace.append(Event("call", "gen.visit", [args[1], fr]))
        return orig(I_, st, args, kwargs, node)

    I.specs["CodeGenerator.visit"] = visit
    for nm in ("visit_Filter", "visit_Call"):
        o2 = I.specs[f"CodeGenerator.{nm}"]

        def dv(I_, st, args, kwargs, node, o2=o2):
            st.trace.append(Event("call", "gen.visit", [args[1], args[2]]))
            return o2(I_, st, args, kwargs, node)

        I.specs[f"CodeGenerator.{nm}"] = dv

    def analyze(I_, st, args, kwargs, node):
        st.trace.append(Event("call", "symbols.analyze_node", args, kwargs))
        return [(st, None)]

    I.specs["Symbols.analyze_node"] = analyze

    def find_all(I_, st, args, kwargs, node):
        # Node.find_all(cls): an arbitrary number of descendants of that class (abstract list)
        from pyvc import emit
        cls = args[1]
        h = st.get(args[0])
        if isinstance(cls, tuple):
            # descendants of several classes: an abstract list whose (never materialised) elements have the first class's fields
            return [(st, st.alloc(emit.HNodeList(cls[0], f"{h.path}.find_all({'|'.join(c.__name__ for c in cls)})", kind="stmt")))]
        return [(st, st.alloc(emit.HNodeList(cls, f"{h.path}.find_all({cls.__name__})", kind="expr")))]

    I.specs["Node.find_all"] = find_all
    # bookkeeping of the "parameter not yet assigned" optimisation of visit_Name: not a scoping decision, abstract here
    for nm in ("push_parameter_definitions", "pop_parameter_definitions", "mark_parameter_stored"):
        I.specs[f"CodeGenerator.{nm}"] = A.abstract_fn(nm, returns=None)
    I.specs["CodeGenerator.parameter_is_undeclared"] = A.abstract_fn("parameter_is_undeclared", returns="bool")


def field_of(st, child):
    if not isinstance(child, Ref):
        return None
    path = getattr(st.get(child), "path", "") or ""
    m = re.match(r"node\.([A-Za-z_]+)", path)
    return m.group(1) if m else None


class ScopeDiscipline(Task):
    """C03.emit.scopes.<Class> (emission, symbolic over all paths of the real visitor) joined with C03.visitors.<Class>
    (the real FrameSymbolVisitor / RootVisitor run on a marker node)."""
    kind = "emission"

    def __init__(self, cls_name, extra=(), is_async=None):
        self.prop, self.cls_name, self.is_async = "C03", cls_name, is_async
        self.name = f"C03.emit.scopes.{cls_name}" + ("" if is_async is None else "[async]" if is_async else "[sync]")
        self.extra = list(extra)  # [(obligation name, predicate(schema, tree, placeholders, text))] checked on the same run
        if cls_name in ("Macro", "CallBlock"):
            self.bound_text = "macro / call block nodes with a concrete parameter list of length 1 (name, default, body, flags symbolic)"

    def finding_key(self, res):
        return (res.witness or {}).get("key", "?")

    def replay(self, w):
        v, d = replay_scopes(w)
        if not v:
            v2, d2 = replay_tracking(w)
            if v2:
                return v2, d2
        return v, d

    def run_schemas(self, tier="quick"):
        from pyvc import emit
        cls = getattr(N, self.cls_name)
        kw = {"pre": (lambda st, g, nd: set_tracking(st, g))} if self.cls_name == "For" else {}
        if self.is_async is not None:
            kw["env_fields"] = {"is_async": self.is_async}  # case split over environment.is_async (two tasks, run in parallel)
        if self.cls_name in ("Macro", "CallBlock"):
            def fields(st):
                return {"args": st.alloc(HList(items=[emit.make_node(st, N.Name, "node.args[0]")]), initial=True),
                        "defaults": st.alloc(HList(items=[emit.make_node(st, N.Expr, "node.defaults[0]", kind="expr")]), initial=True)}
            kw["node_fields"] = fields
        out = []
        big = self.cls_name in ("For", "Macro", "CallBlock")
        variants = [kw]
        conf = track_configure
        if self.cls_name == "AssignBlock":
            # the namespace guard loop of visit_AssignBlock walks the target: concrete target shapes (stated bound)
            variants = [dict(kw, node_fields=target_fields(shape)) for shape in TARGET_SHAPES]
            self.bound_text = SHAPE_BOUND

            def conf(I):
                track_configure(I)
                concrete_find_all(I)
        for kw2 in variants:
            for buf in ((None,) if big and tier == "quick" else (None, "t_buf")):
                scs, _I = emit.run_visitor(f"jinja2.compiler:CodeGenerator.visit_{self.cls_name}", cls, buffer=buf, configure=conf, **kw2)
                for sc in scs:
                    sc.buffer = buf
                out += scs
        return out

    def run(self, tier, seed):
        t0 = time.time()
        try:
            scs = self.run_schemas(tier)
        except Unsupported as ex:
            return [Res(self.name + ".engine", "unknown", "pyvc-emit", time.time() - t0, f"unsupported: {ex}", self.kind)]
        res = []
        cls = getattr(N, self.cls_name)
        # analysis side (native, exact: the visitors dispatch on the node class only)
        outer, _ = outer_analysed(cls)
        spec = SCOPES.get(self.cls_name)
        seen = set()

        def add(name, fails, key):
            if (name, key) in seen and fails:
                return
            seen.add((name, key))
            res.append(Res(name, "refuted" if fails else "discharged", "pyvc-emit", 0, "; ".join(fails[:3]), self.kind,
                           {"class": self.cls_name, "key": key, "failures": fails[:4]} if fails else None))

        if self.is_async:
            pass  # the analysis-side obligations are reported by the [sync] task
        elif spec is not None:
            leak = sorted(spec["no_leak"] & outer)
            add(f"C03.visitors.{self.cls_name}.no_leak", [f"FrameSymbolVisitor.visit_{self.cls_name} records the names of field `{f}` in the ENCLOSING table "
                                                           f"(assignments inside a {self.cls_name} would leak)" for f in leak], f"{self.cls_name}.leak")
            missing = sorted(spec["outer"] - outer)
            add(f"C03.visitors.{self.cls_name}.outer_fields", [f"field `{f}` belongs to the enclosing scope but FrameSymbolVisitor.visit_{self.cls_name} does not analyse it"
                                                               for f in missing], f"{self.cls_name}.outer")
        else:
            missing = sorted({"test", "body", "elif_", "else_"} - outer)
            add("C03.visitors.If.shares_scope", [f"`if` shares the enclosing scope, but field `{f}` is not analysed in the enclosing table" for f in missing], "If.outer")
        n_paths = 0
        for i, sc in enumerate(scs):
            if sc.outcome == "raise":
                # compile-time rejections (CodeGenerator.fail) are not scope decisions
                from jinja2.exceptions import TemplateAssertionError
                ok = getattr(sc.value, "cls", None) is TemplateAssertionError
                add(f"{self.name}#p{i}", [] if ok else [f"visitor raises {sc.value!r}"], f"{self.cls_name}.raise")
                continue
            n_paths += 1
            fails = self.check_path(sc, spec, outer)
            for key, msgs in fails.items():
                add(f"{self.name}#p{i}", msgs, key)
            if not fails:
                add(f"{self.name}#p{i}", [], "")
            for ob, pred in self.extra:
                from pyvc import emit
                txt, ph = sc.texts()[0]
                try:
                    tree = emit.parse_stmts(txt)
                    msgs = pred(sc, tree, ph, txt) or []
                except SyntaxError as ex:
                    msgs = [f"emitted text does not parse: {ex.msg}"]
                add(f"{ob}{self.name[len('C03.emit.scopes.' + self.cls_name):]}#p{i}", msgs, ob)
        if n_paths < 2:
            res.append(Res(self.name + ".paths", "error", "pyvc-emit", 0, f"only {n_paths} paths", self.kind))
        return res

    def check_path(self, sc, spec, outer_set):
        st = sc.st
        outer_frame = sc.gen.frame
        fails = {}

        def fail(key, msg):
            fails.setdefault(f"{self.cls_name}.{key}", []).append(msg)

        evs = [e for e in st.trace if e.kind == "call"]
        inner = [e for e in evs if e.name == "frame.inner"]
        soft = [e for e in evs if e.name in ("frame.soft", "frame.copy")]
        visits = [(k, e) for k, e in enumerate(evs) if e.name == "gen.visit"]
        if spec is None:  # If
            if len(soft) != 1 or soft[0].name != "frame.soft" or inner or soft[0].args[0] != outer_frame:
                fail("frames", f"visit_If must work on exactly one frame.soft() of its frame (soft: {len(soft)}, inner: {len(inner)})")
                return fails
            f = soft[0].result
            for k, e in visits:
                if e.args[1] != f:
                    fail("frames", f"field `{field_of(st, e.args[0])}` of an if is not visited in the soft frame")
            if any(e.name in ("enter_frame", "leave_frame") for e in evs):
                fail("frames", "visit_If enters / leaves a frame although `if` shares the enclosing scope")
            return fails
        outer_frames = [outer_frame]
        if spec.get("outer_copy"):
            # a copy of the enclosing frame (same table, same level) that only carries the body's buffer is the enclosing scope
            copies = [e for e in soft if e.name == "frame.copy" and e.args[0] == outer_frame]
            outer_frames += [e.result for e in copies]
            soft = [e for e in soft if e not in copies]
        if len(inner) != spec["n_inner"] or soft or any(e.args[0] != outer_frame or e.kwargs or len(e.args) > 1 for e in inner):
            fail("frames", f"expected {spec['n_inner']} frame.inner() of the enclosing frame and no soft frame: inner={len(inner)} soft={len(soft)} "
                           f"kwargs={[e.kwargs for e in inner]}")
            return fails
        frames = [e.result for e in inner]
        sym_of = {st.get(f).fields["symbols"]: f for f in frames}
        analysed_kw = {}
        pos = {id(e): k for k, e in enumerate(evs)}
        for e in evs:
            if e.name == "symbols.analyze_node" and e.args and e.args[0] in sym_of:
                analysed_kw.setdefault(sym_of[e.args[0]], []).append((pos[id(e)], dict(e.kwargs)))
        enters = {f: [pos[id(e)] for e in evs if e.name == "enter_frame" and e.args and e.args[0] == f] for f in frames}
        leaves = {f: [pos[id(e)] for e in evs if e.name == "leave_frame" and e.args and e.args[0] == f] for f in frames}
        cls = getattr(N, self.cls_name)
        for k, e in visits:
            fld = field_of(st, e.args[0])
            fr = e.args[1]
            if fld is None:
                continue
            if fld in spec["outer"]:
                if fr not in outer_frames:
                    fail(fld, f"field `{fld}` belongs to the enclosing scope but is compiled in the construct's inner frame (assignments of the body are visible to it)")
                elif fld not in outer_set:
                    fail(fld, f"field `{fld}` is visited in the enclosing frame but FrameSymbolVisitor.visit_{self.cls_name} does not analyse it there")
                continue
            if fld in spec["scoped"]:
                if fr not in frames:
                    fail(fld, f"field `{fld}` must be rendered in the construct's own fresh scope but is visited in {'the enclosing frame' if fr in outer_frames else 'another frame'}")
                    continue
                an = analysed_kw.get(fr, [])
                if not an or min(p for p, _kw in an) > k:
                    fail(fld, f"field `{fld}` is visited in an inner frame whose table was not analysed before")
                    continue
                known = set(outer_set)
                for _p, kw in an:
                    kw = {a: (b if isinstance(b, str) else None) for a, b in kw.items()}
                    try:
                        known |= inner_analysed(cls, **kw)[0]
                    except Exception as ex:  # noqa
                        fail(fld, f"analyze_node({kw}) on a {self.cls_name} raises {type(ex).__name__}: {ex}")
                if fld not in known:
                    fail(fld, f"field `{fld}` is visited in the inner frame, but neither RootVisitor.visit_{self.cls_name} (inner table) nor FrameSymbolVisitor.visit_{self.cls_name} "
                              f"(enclosing table) analyses it: a name used only there is unknown to the frame (Symbols.ref raises AssertionError)")
                is_target = fld in ("target", "targets")
                if not is_target:
                    if len(enters[fr]) != 1 or enters[fr][0] > k:
                        fail(fld, f"field `{fld}` is emitted before enter_frame of its frame (loads / aliases not yet bound)")
                    if len(leaves[fr]) != 1 or leaves[fr][0] < k:
                        fail(fld, f"field `{fld}` is emitted after leave_frame of its frame")
                continue
        for f in frames:
            if len(enters[f]) > 1 or len(leaves[f]) > 1 or len(enters[f]) != len(leaves[f]):
                fail("frames", f"enter_frame / leave_frame are not paired: {len(enters[f])} / {len(leaves[f])}")
            elif enters[f] and enters[f][0] > leaves[f][0]:
                fail("frames", "leave_frame precedes enter_frame")
            if any(e.args[1] == f for _k, e in visits) and not enters[f]:
                fail("frames", "an inner frame is used without enter_frame")
        return fails


def replay_scopes(w):
    """native: every construct keeps its assignments inside, uses names that occur only in its header fields, and
    evaluates header fields in the documented scope"""
    import jinja2
    env = jinja2.Environment()
    cases = [
        ("{% for x in xs %}{% set y = x %}{% endfor %}[{{ x }}{{ y }}]", {"xs": [1]}, "[]"),
        ("{% for x in x %}{{ x }}{% endfor %}", {"x": [1, 2]}, "12"),
        ("{% for x in xs %}{% set y = x %}{% endfor %}[{{ y }}]", {"xs": [1], "y": 9}, "[9]"),
        ("{% with y = 1 %}{% endwith %}[{{ y }}]{% macro m(y) %}{% endmacro %}[{{ y }}]", {"y": 9}, "[9][9]"),
        ("{% for x in xs if x > lim %}{{ x }}{% endfor %}", {"xs": [1, 2, 3], "lim": 1}, "23"),
        ("{% for x in [] %}{% else %}{{ e }}{% endfor %}", {"e": "E"}, "E"),
        ("{% with a = b %}{{ a }}{% set c = 1 %}{% endwith %}[{{ a }}{{ c }}]", {"b": 5}, "5[]"),
        ("{% filter replace('a', r) %}aa{% set q = 1 %}{% endfilter %}[{{ q }}]", {"r": "b"}, "bb[]"),
        ("{% filter replace('a', x) %}{% set x = 'b' %}aaa{% endfilter %}|{{ x }}", {"x": "c"}, "ccc|c"),
        ("{% set x = 'c' %}{% filter replace('a', x) %}{% set x = 'b' %}aaa{% endfilter %}|{{ x }}", {}, "ccc|c"),
        ("{% set y | replace('a', x) %}{% set x = 'b' %}aaa{% endset %}{{ y }}|{{ x }}", {"x": "c"}, "ccc|c"),
        ("{% set x = 'q' %}{% set x | replace('a', x) %}aXa{% endset %}{{ x }}", {}, "qXq"),
        ("{% set x %}a{% set q = 1 %}{% endset %}{{ x }}[{{ q }}]", {}, "a[]"),
        ("{% set x | replace('a', r) %}aXa{% endset %}{{ x }}", {"r": "b"}, "bXb"),
        ("{% for i in [1] %}{% set x | replace('a', r) %}aXa{% endset %}{{ x }}{% endfor %}", {"r": "b"}, "bXb"),
        ("{% macro m(p=d) %}{{ p }}{% set q = 1 %}{% endmacro %}{{ m() }}[{{ p }}{{ q }}]", {"d": 4}, "4[]"),
        ("{% macro k() %}{{ caller() }}{% endmacro %}{% call k() %}{{ v }}{% set q = 1 %}{% endcall %}[{{ q }}]", {"v": 3}, "3[]"),
        ("{% if t %}{% set q = 1 %}{% endif %}[{{ q }}]", {"t": True}, "[1]"),
        ("{% if f %}{% elif t %}{% set q = 2 %}{% else %}{% endif %}[{{ q }}]", {"t": True}, "[2]"),
    ]
    problems = []
    for src, data, want in cases:
        try:
            got = env.from_string(src).render(data)
        except Exception as ex:
            got = f"{type(ex).__name__}: {ex}"
        if got != want:
            problems.append(f"{src!r} with {data!r}: {got!r}, scoping rules give {want!r}")
    key = (w or {}).get("key", "")
    mine = lambda p: ("{% set y |" in p or "{% set x |" in p) if key.startswith("AssignBlock") else ("{% filter replace('a', x)" in p)
    if key.startswith(("AssignBlock.", "FilterBlock.")):
        problems = [p for p in problems if mine(p)]
    elif key:
        problems = [p for p in problems if "replace('a', x)" not in p]
    return (bool(problems), "; ".join(problems[:2]) or "scope constructs keep their assignments and resolve their header names")


SCOPE_TASKS = [ScopeDiscipline("For", [("C03.assign_tracking.visit_For.discard", lambda *a: for_discard_pred(*a))], is_async=b) for b in (False, True)] + \
              [ScopeDiscipline("Macro", [("C03.assign_tracking.visit_Macro.export", lambda *a: macro_export_pred(*a))], is_async=b) for b in (False, True)] + \
              [ScopeDiscipline("CallBlock", is_async=b) for b in (False, True)] + \
              [ScopeDiscipline(c) for c in ("With", "FilterBlock", "AssignBlock", "Scope", "If")]


# ------------------------------------------------------------------ harness: any CodeGenerator method on the abstract generator

def run_gen_method(method, build_args, buffer=None, configure=None, gen_fields=None, frame_flags=None, pre=None):
    """symbolic run of CodeGenerator.<method>(*build_args(st, gen)) -> list of emission schemas"""
    from pyvc import emit, extract
    from pyvc.engine import Interp
    I = Interp()
    emit.install(I)
    if configure:
        configure(I)
    st = State()
    g = emit.Gen(st, buffer=buffer, gen_fields=gen_fields(st) if callable(gen_fields) else gen_fields, frame_flags=frame_flags)
    if pre:
        pre(st, g)
    args = build_args(st, g)
    clo = I.closure_of_function(extract.resolve(f"jinja2.compiler:CodeGenerator.{method}"))
    out = []
    for s2, v in I.call_closure(st, clo, [g.gen] + list(args), {}):
        sc = emit.Schema(list(s2.ghost.get("out", [])), list(s2.pc), list(s2.notes), "raise" if isinstance(v, Raised) else "return", s2)
        sc.value = v.exc if isinstance(v, Raised) else v
        sc.gen = g
        sc.buffer = buffer
        out.append(sc)
    return out


def install_sorted(I):
    """sorted(<collection of known host values>): dependency spec = Python's sorted"""
    from pyvc.interp import deep_host

    def sorted_spec(I_, st, args, kwargs, node):
        items = I_.iter_concrete(st, args[0], node)
        if kwargs or not deep_host(items):
            raise Unsupported("sorted() of symbolic values", node)
        return [(st, st.alloc(HList(items=sorted(items))))]

    I.specs[("fn", id(sorted))] = sorted_spec

    def map_spec(I_, st, args, kwargs, node):
        fn, it = args
        results = [(st, [])]
        for x in I_.iter_concrete(st, it, node):
            nxt = []
            for s, acc in results:
                for s2, v in I_.call(s, fn, [x], {}, node):
                    if isinstance(v, Raised):
                        raise Unsupported("map() callee raises", node)
                    nxt.append((s2, acc + [v]))
            results = nxt
        return [(s, tuple(acc)) for s, acc in results]

    I.specs[("fn", id(map))] = map_spec


def stmts_of(sc):
    from pyvc import emit
    txt, ph = sc.texts()[0]
    return emit.parse_stmts(txt) if txt.strip() else ast.parse(""), ph, txt


def ident_of(ph, node):
    """the symbolic identifier a placeholder Name stands for (z3 term) or None"""
    if isinstance(node, ast.Name) and node.id in ph and isinstance(ph[node.id], tuple) and ph[node.id][0] == "ident":
        return ph[node.id][1]
    return None


# ------------------------------------------------------------------ C03.assign_tracking

TRACK_SETS = [[], ["a"], ["_p"], ["a", "b"], ["b", "_p"], ["_p", "_q"], ["c", "a", "_p"], ["a", "b", "c"]]


def assign_tracking(task, tier, seed):
    """pop_assign_tracking on every small tracked set x every frame kind (flags symbolic, at most one of loop / block /
    toplevel): stores of a loop body go to _loop_vars, of a block to _block_vars, top-level ones to context.vars, and exactly
    the public top-level names are exported; other frames and empty sets emit nothing."""
    rs = []
    T, L, B = z3.Bool("frame.toplevel"), z3.Bool("frame.loop_frame"), z3.Bool("frame.block_frame")
    for names in TRACK_SETS:
        def gen_fields(st, names=names):
            top = st.alloc(HSet(items=list(names)), initial=True)
            below = st.alloc(HSet(items=["zz"]), initial=True)
            return {"_assign_stack": st.alloc(HList(items=[below, top]), initial=True)}

        def pre(st, g):
            f = st.get(g.frame)
            t, l, b = (to_term(I_getattr(st, g.frame, k), "bool") for k in ("toplevel", "loop_frame", "block_frame"))
            st.assume(z3.Not(z3.And(l, b)), z3.Not(z3.And(t, l)), z3.Not(z3.And(t, b)))

        scs = run_gen_method("pop_assign_tracking", lambda st, g: [g.frame], gen_fields=gen_fields, pre=pre, configure=install_sorted)
        for i, sc in enumerate(scs):
            name = f"C03.assign_tracking.pop[{','.join(names) or 'empty'}]#p{i}"
            fails = check_pop(sc, names, T, L, B)
            rs.append(Res(name, "refuted" if fails else "discharged", "pyvc-emit", 0, "; ".join(fails[:3]), "emission",
                          {"names": names, "schema": sc.describe()[:300], "path_condition": [str(c) for c in sc.pc][:8]} if fails else None))
        if len(scs) < (1 if not names else 4):
            rs.append(Res(f"C03.assign_tracking.pop[{','.join(names)}].paths", "error", "pyvc-emit", 0, f"only {len(scs)} paths", "emission"))
    return rs


def I_getattr(st, ref, name):
    """materialise a lazy symbolic field of an abstract object"""
    h = st.get(ref)
    if name not in h.fields:
        spec = h.lazy[name]
        h.fields[name] = sym(f"{h.path}.{name}", spec) if isinstance(spec, str) else spec(st, f"{h.path}.{name}")
    return h.fields[name]


def check_pop(sc, names, T, L, B):
    if sc.outcome == "raise":
        return [f"raises {sc.value!r}"]
    st = sc.st
    stack = st.get(st.get(sc.gen.gen).fields["_assign_stack"]).items
    fails = []
    if len(stack) != 1 or st.get(stack[0]).items != ["zz"]:
        fails.append("pop_assign_tracking must pop exactly the topmost tracking set and leave the enclosing one untouched")
    tree, ph, txt = stmts_of(sc)
    kind = "loop" if sc.holds(L) else "block" if sc.holds(B) else "top" if sc.holds(T) else "other" if sc.holds(z3.Not(z3.Or(T, L, B))) else None
    if kind is None:
        return fails + ["path does not decide the frame kind"]
    refs = {}
    for e in st.trace:
        if e.kind == "call" and e.name == "symbols.ref":
            refs.setdefault(e.args[0], []).append(e.result.t)
    writes, exports, other = {}, [], []
    for stmt in tree.body:
        tgt = {"loop": "_loop_vars", "block": "_block_vars", "top": "context.vars"}.get(kind)
        if isinstance(stmt, ast.Assign) and len(stmt.targets) == 1 and isinstance(stmt.targets[0], ast.Subscript):
            sub = stmt.targets[0]
            from pyvc import emit
            base = emit.call_name(sub.value) if isinstance(sub.value, ast.Attribute) else getattr(sub.value, "id", None)
            if base == tgt and isinstance(sub.slice, ast.Constant):
                writes[sub.slice.value] = stmt.value
                continue
        if isinstance(stmt, ast.Expr) and isinstance(stmt.value, ast.Call):
            from pyvc import emit
            cn = emit.call_name(stmt.value)
            a = stmt.value.args
            if cn == f"{tgt}.update" and len(a) == 1 and isinstance(a[0], ast.Dict) and all(isinstance(k, ast.Constant) for k in a[0].keys):
                for k, v in zip(a[0].keys, a[0].values):
                    writes[k.value] = v
                continue
            if cn == "context.exported_vars.add" and len(a) == 1 and isinstance(a[0], ast.Constant):
                exports.append(a[0].value)
                continue
            if cn == "context.exported_vars.update" and len(a) == 1 and isinstance(a[0], ast.Tuple) and all(isinstance(x, ast.Constant) for x in a[0].elts):
                exports += [x.value for x in a[0].elts]
                continue
        other.append(ast.unparse(stmt)[:80])
    if other:
        fails.append(f"unexpected statements for a {kind} frame: {other[:2]}")
    want = set(names) if kind != "other" else set()
    if set(writes) != want:
        fails.append(f"{kind} frame with stores {names}: variables written to the {kind} store: {sorted(writes)}, expected {sorted(want)}")
    for n, v in writes.items():
        t = ident_of(ph, v)
        if t is None or not any(t.eq(r) for r in refs.get(n, [])):
            fails.append(f"value stored for {n!r} is not frame.symbols.ref({n!r})")
    pub = sorted(n for n in names if not n.startswith("_")) if kind == "top" else []
    if sorted(exports) != pub:
        fails.append(f"{kind} frame with stores {names}: exported {sorted(exports)}, expected exactly the public top-level names {pub}")
    return fails


class TrackSet:
    """model class of the topmost tracking set in runs where only the operations on it matter"""


def track_configure(I):
    record_frames(I)

    def add(I_, st, args, kwargs, node):
        st.trace.append(Event("call", "track.add", args[1:]))
        return [(st, None)]

    def diff(I_, st, args, kwargs, node):
        st.trace.append(Event("call", "track.difference_update", args[1:]))
        return [(st, None)]

    I.specs["TrackSet.add"] = add
    I.specs["TrackSet.difference_update"] = diff


def track_fields(st):
    return {"_assign_stack": st.alloc(HList(items=[st.alloc(HObj(TrackSet, path="tracking"), initial=True)]), initial=True)}


def name_tracking_pred(sc, tree, ph, txt):
    """visit_Name: a STORE in a toplevel / loop / block frame is recorded in the current tracking set; nothing else is"""
    if sc.outcome == "raise":
        return [f"raises {sc.value!r}"]
    adds = [e for e in sc.st.trace if e.kind == "call" and e.name == "track.add"]
    nf = sc.st.get(sc.node).fields
    ctx = nf.get("ctx")
    is_store = sc.holds(ctx.t == z3.StringVal("store")) if isinstance(ctx, Sym) else ctx == "store"
    not_store = sc.holds(ctx.t != z3.StringVal("store")) if isinstance(ctx, Sym) else ctx != "store"
    tracked_frame = z3.Or(z3.Bool("frame.toplevel"), z3.Bool("frame.loop_frame"), z3.Bool("frame.block_frame"))
    if is_store and sc.holds(tracked_frame):
        if len(adds) != 1 or adds[0].args[0] is not nf.get("name"):
            return ["a store in a toplevel / loop / block frame is not recorded in the assignment tracking set"]
    elif not_store or sc.holds(z3.Not(tracked_frame)):
        if adds:
            return ["a name is recorded as assigned although it is not a store in a tracked frame"]
    else:
        return ["path does not decide store / frame kind"]
    return []


def for_discard_pred(sc, tree, ph, txt):
    """visit_For: the names stored in the loop body are removed from the enclosing tracking set at the end (they were
    recorded while the body was compiled but do not outlive the iteration)"""
    if sc.outcome == "raise":
        return []
    st = sc.st
    evs = [e for e in st.trace if e.kind == "call"]
    diffs = [e for e in evs if e.name == "track.difference_update"]
    loops = [e.result for e in evs if e.name == "frame.inner" and st.get(e.result).fields.get("loop_frame") is True]
    if len(loops) != 1:
        return [f"visit_For must mark exactly one inner frame as loop_frame ({len(loops)})"]
    if len(diffs) != 1:
        return [f"visit_For must discard the loop stores from the enclosing tracking set exactly once ({len(diffs)})"]
    arg = diffs[0].args[0]
    sym_ref = st.get(loops[0]).fields["symbols"]
    stores = st.get(sym_ref).fields.get("stores")
    if arg is not stores and arg != stores:
        return ["the discarded set is not loop_frame.symbols.stores"]
    if evs.index(diffs[0]) < max([k for k, e in enumerate(evs) if e.name in ("gen.visit", "leave_frame")] or [0]):
        return ["loop stores are discarded before the loop has been compiled"]
    return []


def assign_bracket_pred(which):
    def pred(sc, tree, ph, txt):
        """visit_Assign / visit_AssignBlock: push a tracking layer first, pop it for the ENCLOSING frame after the target"""
        if sc.outcome == "raise":
            return []
        st = sc.st
        stack = st.get(st.get(sc.gen.gen).fields["_assign_stack"]).items
        fails = []
        if len(stack) != 1 or not isinstance(st.get(stack[0]), HSet) or st.get(stack[0]).items != []:
            fails.append("exactly one fresh (empty) tracking layer must be pushed")
        evs = [e for e in st.trace if e.kind == "call"]
        pops = [e for e in evs if e.name == "pop_assign_tracking"]
        if len(pops) != 1 or pops[0].args[0] != sc.gen.frame:
            fails.append("pop_assign_tracking must be called once, for the frame the target is assigned in (the enclosing frame)")
        tv = [k for k, e in enumerate(evs) if e.name == "gen.visit" and field_of(st, e.args[0]) == "target"]
        if len(tv) != 1 or (pops and evs.index(pops[0]) < tv[0]):
            fails.append("the tracking layer is popped before the target was compiled")
        for e in evs:
            if e.name == "gen.visit" and field_of(st, e.args[0]) == "target" and e.args[1] != sc.gen.frame:
                fails.append("the assignment target is compiled in an inner frame (the assignment would not reach the enclosing scope)")
        return fails
    return pred


def macro_export_pred(sc, tree, ph, txt):
    """visit_Macro in a toplevel frame: context.vars[name] = <macro local>, exported iff the name is public"""
    if sc.outcome == "raise" or tree is None:
        return []
    from pyvc import emit
    top = sc.holds(z3.Bool("frame.toplevel"))
    nottop = sc.holds(z3.Not(z3.Bool("frame.toplevel")))
    exp = [n for n in ast.walk(tree) if isinstance(n, ast.Call) and (emit.call_name(n) or "").startswith("context.exported_vars")]
    ctxw = [n for n in ast.walk(tree) if isinstance(n, ast.Subscript) and emit.call_name(n.value) == "context.vars" and isinstance(n.ctx, ast.Store)]
    fails = []
    nm = sc.st.get(sc.node).fields.get("name")
    if nottop:
        if exp or ctxw:
            fails.append("a macro defined in an inner scope is written to context.vars / exported")
    elif top:
        if len(ctxw) != 1:
            fails.append("a top-level macro must be stored in context.vars")
        priv_t = z3.PrefixOf(z3.StringVal("_"), nm.t) if isinstance(nm, Sym) else z3.BoolVal(str(nm).startswith("_"))
        if sc.holds(priv_t):
            if exp:
                fails.append("a macro whose name starts with an underscore is exported")
        elif sc.holds(z3.Not(priv_t)):
            if len(exp) != 1 or emit.call_name(exp[0]) != "context.exported_vars.add":
                fails.append("a public top-level macro is not exported (exactly once)")
        else:
            fails.append("the export decision does not depend on the leading underscore of the macro name")
    else:
        fails.append("path does not decide frame.toplevel")
    return fails


def replay_tracking(w):
    """native: exports / context variables of real templates"""
    import jinja2
    env = jinja2.Environment()
    cases = [
        ("{% set a = 1 %}{% set _p = 2 %}{% set b, c = 3, 4 %}{% macro m() %}{% endmacro %}{% macro _h() %}{% endmacro %}", {"a", "b", "c", "m"}, {"a": 1, "_p": 2, "b": 3, "c": 4}),
        ("{% for i in [1] %}{% set a = i %}{% endfor %}{% set z = 1 %}", {"z"}, {"z": 1}),
        ("{% with %}{% set a = 1 %}{% endwith %}", set(), {}),
        ("{% if true %}{% set a = 1 %}{% endif %}", {"a"}, {"a": 1}),
        ("{% set a %}x{% set q = 1 %}{% endset %}", {"a"}, {"a": "x"}),
        ("{% macro m() %}{% set inner = 1 %}{% endmacro %}{{ m() }}", {"m"}, None),
        ("{% set x %}{% for i in [1] %}{{ i }}{% endfor %}{% endset %}", {"x"}, {"x": "1"}),
        ("{% for i in [1] %}{% set x %}{% for j in [2] %}{{ j }}{% endfor %}{% endset %}{% endfor %}", set(), {}),
        ("{% for i in [1] %}{% set a = i %}{% for j in [1] %}{% set b = j %}{% endfor %}{% endfor %}", set(), {}),
    ]
    problems = []
    for src, exported, vars_ in cases:
        try:
            t = env.from_string(src)
            ctx = t.new_context({})
            "".join(t.root_render_func(ctx))
        except Exception as ex:
            problems.append(f"{src!r}: {type(ex).__name__}: {ex}")
            continue
        got_e = set(ctx.exported_vars)
        if got_e != exported:
            problems.append(f"{src!r}: exported {sorted(got_e)}, expected exactly the public top-level names {sorted(exported)}")
        if vars_ is not None:
            got_v = {k: (str(v) if not isinstance(v, int) else v) for k, v in ctx.vars.items() if not callable(v)}
            if got_v != vars_:
                problems.append(f"{src!r}: context.vars {got_v}, expected {vars_}")
    # loop stores are visible to scoped blocks / includes of that iteration through _loop_vars
    env2 = jinja2.Environment(loader=jinja2.DictLoader({"inc": "[{{ a }}]"}))
    got = env2.from_string("{% for i in [1, 2] %}{% set a = i %}{% include 'inc' %}{% endfor %}{% include 'inc' %}").render()
    if got != "[1][2][]":
        problems.append(f"loop store seen by an include: {got!r}, expected '[1][2][]'")
    got = env2.from_string("{% set a %}x{% endset %}{% set b %}{% set a = 5 %}{% include 'inc' %}{% endset %}{{ b }}{% include 'inc' %}").render()
    if got != "[5][x]":
        problems.append(f"block store seen by an include: {got!r}, expected '[5][x]'")
    return (bool(problems), "; ".join(problems[:3]) or "exports and context variables follow the assignment-tracking rules")


def tracking_tasks():
    from pyvc.emitcheck import EmitTask
    return [
        FnTask("C03", "C03.assign_tracking.pop", assign_tracking, "emission", replay_tracking),
        EmitTask("C03", "C03.assign_tracking.visit_Name", "jinja2.compiler:CodeGenerator.visit_Name", N.Name, name_tracking_pred, mode="expr",
                 buffers=(None,), replay_fn=replay_tracking, configure=track_configure, gen_fields=None, min_paths=4, pre=lambda st, g, nd: set_tracking(st, g)),
        EmitTask("C03", "C03.assign_tracking.visit_Assign.bracket", "jinja2.compiler:CodeGenerator.visit_Assign", N.Assign, assign_bracket_pred("Assign"), mode="stmts",
                 buffers=(None, "t_buf"), replay_fn=replay_tracking, configure=assign_configure, min_paths=1),
    ] + [EmitTask("C03", f"C03.assign_tracking.visit_AssignBlock.bracket[{shape}]", "jinja2.compiler:CodeGenerator.visit_AssignBlock", N.AssignBlock,
                  assign_bracket_pred("AssignBlock"), mode="stmts", buffers=(None, "t_buf"), replay_fn=replay_tracking, configure=shape_configure,
                  node_fields=target_fields(shape), min_paths=2) for shape in TARGET_SHAPES]


def shape_configure(I):
    record_frames(I)
    concrete_find_all(I)


def set_tracking(st, g):
    st.get(g.gen).fields["_assign_stack"] = st.alloc(HList(items=[st.alloc(HObj(TrackSet, path="tracking"), initial=True)]), initial=True)


def assign_configure(I):
    record_frames(I)
    I.specs["Node.find_all"] = lambda I_, st, args, kwargs, node: [(st, ())]  # no namespace refs in this run (see C03.namespace.guard)


# ------------------------------------------------------------------ C03.enter_leave_frame

LOAD_TABLES = ([[]] + [[a] for a in (PARAM, RESOLVE, ALIAS, UNDEF)] + [[a, b] for a in (PARAM, RESOLVE, ALIAS, UNDEF) for b in (PARAM, RESOLVE, ALIAS, UNDEF)]
               + [[UNDEF, ALIAS, UNDEF], [RESOLVE, UNDEF, UNDEF], [UNDEF, UNDEF, UNDEF], [ALIAS, RESOLVE, PARAM], ["bogus"], [ALIAS, "bogus"]])


def frame_with_loads(actions):
    def pre(st, g):
        items = {}
        for i, a in enumerate(actions):
            items[f"T{i}"] = (a, None if a in (PARAM, UNDEF) else sym(f"param{i}", "str"))
        st.get(g.symbols).fields["loads"] = st.alloc(HDict(items=items), initial=True)
    return pre


def enter_leave_frame(task, tier, seed):
    """enter_frame binds every load of the frame's table in its documented form (resolve -> `t = resolve('name')`, alias -> `t = outer`,
    undefined -> `t = missing`, parameter -> nothing) - each target exactly once, nothing else; leave_frame resets exactly
    the frame's targets to `missing` unless the Python function scope ends anyway."""
    rs = []

    def add(name, fails, wit):
        rs.append(Res(name, "refuted" if fails else "discharged", "pyvc-emit", 0, "; ".join(fails[:3]), "emission", wit if fails else None))

    for actions in LOAD_TABLES:
        label = ",".join(actions) or "empty"
        for ctxref in ("context", "t_9"):
            gf = (lambda st, ctxref=ctxref: {"_context_reference_stack": st.alloc(HList(items=["context", ctxref] if ctxref != "context" else ["context"]), initial=True)})
            scs = run_gen_method("enter_frame", lambda st, g: [g.frame], pre=frame_with_loads(actions), gen_fields=gf)
            for i, sc in enumerate(scs):
                add(f"C03.enter_leave_frame.enter[{label};{ctxref}]#p{i}", check_enter(sc, actions, ctxref), {"actions": actions, "schema": sc.describe()[:300], "which": "enter"})
            if not scs:
                rs.append(Res(f"C03.enter_leave_frame.enter[{label}].paths", "error", "pyvc-emit", 0, "no paths", "emission"))
        for wps in (False, True):
            scs = run_gen_method("leave_frame", lambda st, g, wps=wps: [g.frame, wps], pre=frame_with_loads(actions))
            for i, sc in enumerate(scs):
                add(f"C03.enter_leave_frame.leave[{label};python_scope={wps}]#p{i}", check_leave(sc, actions, wps), {"actions": actions, "schema": sc.describe()[:300], "which": "leave"})
    return rs


def check_enter(sc, actions, ctxref):
    from pyvc import emit
    if any(a not in (PARAM, RESOLVE, ALIAS, UNDEF) for a in actions):
        ok = sc.outcome == "raise" and getattr(sc.value, "cls", None) is NotImplementedError
        return [] if ok else ["an unknown load instruction must be rejected (NotImplementedError)"]
    if sc.outcome == "raise":
        return [f"raises {sc.value!r}"]
    tree, ph, txt = stmts_of(sc)
    st = sc.st
    loads = st.get(st.get(sc.gen.symbols).fields["loads"]).items
    want = []
    undefs = []
    for (t, (a, p)) in loads.items():
        if a == RESOLVE:
            want.append(("resolve", t, p))
        elif a == ALIAS:
            want.append(("alias", t, p))
        elif a == UNDEF:
            undefs.append(t)
    got = list(tree.body)
    fails = []
    n_want = len(want) + (1 if undefs else 0)
    if len(got) != n_want:
        return [f"loads {actions}: {len(got)} statements emitted, expected {n_want}: {txt!r}"]
    resolve_name = "resolve" if ctxref == "context" else f"{ctxref}.resolve"
    for (kind, t, p), stmt in zip(want, got):
        if not (isinstance(stmt, ast.Assign) and len(stmt.targets) == 1 and isinstance(stmt.targets[0], ast.Name) and stmt.targets[0].id == t):
            fails.append(f"statement for {t} ({kind}) is {ast.unparse(stmt)!r}")
            continue
        v = stmt.value
        if kind == "resolve":
            okc = isinstance(v, ast.Call) and emit.call_name(v) == resolve_name and len(v.args) == 1 and not v.keywords and isinstance(v.args[0], ast.Constant)
            key = f"'{v.args[0].value}'" if okc else None
            if not (okc and key in ph and ph[key][0] == "repr" and ph[key][1].eq(p.t)):
                fails.append(f"{t}: a resolve load must be emitted as `{t} = {resolve_name}(<name!r>)`, got {ast.unparse(stmt)!r}")
        else:
            tm = ident_of(ph, v)
            if tm is None or not tm.eq(p.t):
                fails.append(f"{t}: an alias load must be emitted as `{t} = <outer identifier>`, got {ast.unparse(stmt)!r}")
    if undefs:
        stmt = got[-1]
        ok = isinstance(stmt, ast.Assign) and [getattr(x, "id", None) for x in stmt.targets] == undefs and isinstance(stmt.value, ast.Name) and stmt.value.id == "missing"
        if not ok:
            fails.append(f"undefined loads {undefs} must be bound to `missing` once each: {ast.unparse(stmt)!r}")
    return fails


def check_leave(sc, actions, with_python_scope):
    if sc.outcome == "raise":
        return [f"raises {sc.value!r}"]
    tree, ph, txt = stmts_of(sc)
    targets = [f"T{i}" for i in range(len(actions))]
    if with_python_scope or not targets:
        return [] if not tree.body else [f"leave_frame must emit nothing here: {txt!r}"]
    if len(tree.body) != 1:
        return [f"leave_frame must reset the frame's targets in one statement: {txt!r}"]
    stmt = tree.body[0]
    ok = isinstance(stmt, ast.Assign) and sorted(getattr(x, "id", "?") for x in stmt.targets) == sorted(targets) and isinstance(stmt.value, ast.Name) and stmt.value.id == "missing"
    return [] if ok else [f"leave_frame must reset exactly {targets} to missing: {txt!r}"]


def replay_enter_leave(w):
    """native: the real generator on a frame with a concrete load table, plus the scoping family"""
    import jinja2
    from jinja2.compiler import CodeGenerator, Frame
    from io import StringIO
    env = jinja2.Environment()
    problems = []
    for actions in ([RESOLVE, ALIAS, UNDEF, PARAM, UNDEF], [ALIAS], [UNDEF], []):
        gen = CodeGenerator(env, "t", "t.html", stream=StringIO())
        fr = Frame(N.EvalContext(env, "t"))
        loads = {}
        for i, a in enumerate(actions):
            loads[f"l_1_v{i}"] = (a, {RESOLVE: f"v{i}", ALIAS: f"l_0_v{i}"}.get(a))
        fr.symbols.loads = loads
        gen.enter_frame(fr)
        entered = gen.stream.getvalue()
        lines = [x.strip() for x in entered.splitlines() if x.strip()]
        want = [f"l_1_v{i} = resolve('v{i}')" for i, a in enumerate(actions) if a == RESOLVE]
        want_alias = [f"l_1_v{i} = l_0_v{i}" for i, a in enumerate(actions) if a == ALIAS]
        und = [f"l_1_v{i}" for i, a in enumerate(actions) if a == UNDEF]
        expect = sorted(want + want_alias + ([" = ".join(und) + " = missing"] if und else []))
        if sorted(lines) != expect:
            problems.append(f"enter_frame with loads {loads}: emitted {lines}, expected {expect}")
        gen2 = CodeGenerator(env, "t", "t.html", stream=StringIO())
        gen2.leave_frame(fr)
        lv = [x.strip() for x in gen2.stream.getvalue().splitlines() if x.strip()]
        expect = [" = ".join(loads) + " = missing"] if loads else []
        if lv != expect:
            problems.append(f"leave_frame with loads {list(loads)}: emitted {lv}, expected {expect}")
        gen3 = CodeGenerator(env, "t", "t.html", stream=StringIO())
        gen3.leave_frame(fr, with_python_scope=True)
        if gen3.stream.getvalue().strip():
            problems.append("leave_frame(with_python_scope=True) emits code")
    bad, det = native_scoping(count=120)
    if bad:
        problems.append(det)
    return (bool(problems), "; ".join(problems[:3]) or "enter_frame / leave_frame emit the documented bindings")


# ------------------------------------------------------------------ C03.namespace

class NamespaceVC(VC):
    """utils.Namespace keeps its attributes in one private dict: __setitem__(n, v) stores exactly (n, v) there,
    __getattribute__(n) reads exactly that entry (AttributeError when absent): set-then-get is the identity, other
    attributes are untouched.  (The private field is name-mangled by Python; the contract runs on the source name.)"""
    prop = "C03"

    def __init__(self, method):
        self.method = method
        self.target = f"jinja2.utils:Namespace.{method}"
        super().__init__("C03", f"C03.namespace.{method}")

    def configure(self, I):
        I.specs[("fn", id(object.__getattribute__))] = A.abstract_fn("object.__getattribute__", returns="obj")

    def setup(self, I, st):
        self.attrs = A.adict(st, "attrs", "str", "obj")
        h = st.get(self.attrs)
        self.dom, self.val = h.dom, h.val
        self.ns = st.alloc(HObj(U.Namespace, fields={"__attrs": self.attrs}, path="ns"), initial=True)
        st.get(self.ns).plain_setattr = True
        self.n, self.v = sym("name", "str"), sym("value", "obj")
        return ([self.ns, self.n, self.v] if self.method == "__setitem__" else [self.ns, self.n]), {}

    def p_set(self, pre, out):
        if self.method != "__setitem__":
            return None
        if out.raised or out.value is not None:
            return False
        h = out.st.get(self.attrs)
        if out.st.get(self.ns).fields.get("__attrs") != self.attrs or set(out.st.get(self.ns).fields) != {"__attrs"}:
            return False
        return z3.And(h.dom == z3.Store(self.dom, self.n.t, True), z3.Select(h.val, self.n.t) == self.v.t, eq_except_obj(h.val, self.val, h.dom, self.n.t))

    def p_get(self, pre, out):
        if self.method != "__getattribute__":
            return None
        # names of the Python object protocol (__class__, __html__, __aiter__, ...: `__x__`) and the private dict itself are never
        # served from the attributes (they are looked up on the object); every other name - what a template can sensibly store - is
        dunder = z3.And(z3.PrefixOf(z3.StringVal("__"), self.n.t), z3.SuffixOf(z3.StringVal("__"), self.n.t))
        reserved = z3.Or(self.n.t == z3.StringVal("_Namespace__attrs"), dunder)
        delegated = A.calls(out, "object.__getattribute__")
        if delegated:
            return z3.And(reserved, out.returned and out.value is delegated[0].result)
        present = z3.Select(self.dom, self.n.t)
        if out.raised:
            return z3.And(z3.Not(reserved), z3.Not(present), out.value.cls is AttributeError)
        return z3.And(z3.Not(reserved), present, to_term(out.value, "obj") == z3.Select(self.val, self.n.t))

    def p_pure(self, pre, out):
        if self.method != "__getattribute__":
            return None
        h = out.st.get(self.attrs)
        return z3.And(h.dom == self.dom, h.val == self.val, not any(i in (self.ns.id, self.attrs.id) for (i, _f) in out.st.written))

    posts = [("stores_exactly_the_item", p_set), ("reads_exactly_the_item", p_get), ("read_is_pure", p_pure)]

    def concretize(self, model, pre, out):
        return {"name": model_value(model, self.n.t)}

    def replay(self, w):
        return replay_namespace(w)


def eq_except_obj(a, b, dom, n):
    k = z3.Const(fresh_name("ek"), S_)
    return z3.ForAll([k], z3.Implies(z3.And(k != n, z3.Select(dom, k)), z3.Select(a, k) == z3.Select(b, k)))


def replay_namespace(w):
    import jinja2
    problems = []
    name = (w or {}).get("name") or "found"
    for nm in {name, "found", "x", "_p", "items"}:
        if not isinstance(nm, str) or nm == "_Namespace__attrs" or (nm.startswith("__") and nm.endswith("__")):
            continue
        ns = U.Namespace({"other": 1}, keep=2)
        ns[nm] = 42
        try:
            got = getattr(ns, nm)
        except Exception as ex:
            got = f"{type(ex).__name__}"
        if got != 42:
            problems.append(f"ns[{nm!r}] = 42; ns.{nm} -> {got!r}")
        if ns._Namespace__attrs != {"other": 1, "keep": 2, nm: 42}:
            problems.append(f"after ns[{nm!r}] = 42 the attributes are {ns._Namespace__attrs}")
        try:
            getattr(ns, "absent_" + nm)
            problems.append("reading an absent attribute does not raise AttributeError")
        except AttributeError:
            pass
    if U.Namespace().__class__ is not U.Namespace or U.Namespace(a=1)._Namespace__attrs != {"a": 1} or U.Namespace({"a": 1}, b=2)._Namespace__attrs != {"a": 1, "b": 2}:
        problems.append("Namespace(...) does not initialise its attributes from dict(*args, **kwargs)")
    env = jinja2.Environment()
    cases = [("{% set ns = namespace(found=false) %}{% for i in [1, 2] %}{% set ns.found = i %}{% endfor %}{{ ns.found }}", {}, "2"),
             ("{% set ns = namespace(a=1) %}{% set ns.a, ns.b = 2, 3 %}{{ ns.a }}{{ ns.b }}", {}, "23"),
             ("{% set ns = namespace() %}{% set ns.a = 1 %}{% set ns2 = namespace() %}{{ ns2.a is defined }}", {}, "False")]
    for src, data, want in cases:
        got = env.from_string(src).render(data)
        if got != want:
            problems.append(f"{src!r}: {got!r}, expected {want!r}")
    for src, data, want in [("{% set ns = namespace() %}{% set ns.x %}42{% endset %}{{ ns.x }}", {}, "42"),
                            ("{% set ns = namespace() %}{% set ns.x | upper %}ab{% endset %}{{ ns.x }}", {}, "AB"),
                            ("{% set ns = namespace(n='') %}{% for i in [1, 2] %}{% set ns.n %}{{ ns.n }}{{ i }}{% endset %}{% endfor %}{{ ns.n }}", {}, "12")]:
        got = env.from_string(src).render(data)
        if got != want:
            problems.append(f"{src!r}: {got!r}, expected {want!r}")
    import copy as _copy
    for src, data in [("{% set d.a = 1 %}", {"d": {}}), ("{% set x = 1 %}{% set x.a = 1 %}", {}), ("{% set u.a = 1 %}", {}),
                      ("{% set ns = namespace() %}{% set ns.a, d.b = 1, 2 %}", {"d": {}}),
                      ("{% set ns = namespace() %}{% set ns, ns.x = d, 1 %}", {"d": {"a": 1}}), ("{% set ns = namespace() %}{% for i in [1] %}{% set ns, ns.x = d, 1 %}{% endfor %}", {"d": {"a": 1}}),
                      ("{% set d.x %}42{% endset %}", {"d": {"k": 1}}), ("{% set d.x | upper %}ab{% endset %}", {"d": {"k": 1}}),
                      ("{% for r in rows %}{% set r.x %}{{ loop.index }}{% endset %}{% endfor %}", {"rows": [{"n": 1}, {"n": 2}]}),
                      ("{% for r in rows %}{% set r.x = 1 %}{% endfor %}", {"rows": [{"n": 1}]}),
                      ("{% set l.x %}1{% endset %}", {"l": [1, 2]}), ("{% macro m(p) %}{% set p.x %}1{% endset %}{% endmacro %}{{ m(d) }}", {"d": {"k": 1}})]:
        before = _copy.deepcopy(data)
        try:
            env.from_string(src).render(data)
            problems.append(f"{src!r}: attribute assignment on a non-namespace object did not raise")
        except (jinja2.exceptions.TemplateRuntimeError, jinja2.exceptions.TemplateSyntaxError):
            pass  # rejected at run time (not a namespace) or already at compile time (name and its attribute in one target)
        except Exception as ex:
            problems.append(f"{src!r}: {type(ex).__name__} instead of TemplateRuntimeError")
        if data != before:
            problems.append(f"{src!r}: the non-namespace object was modified: data {before} became {data}")
    return (bool(problems), "; ".join(problems[:3]) or "Namespace items and attributes are inverse; non-namespace targets are rejected before any store")


# ---- assignment targets of concrete SHAPE (names / attributes symbolic): what `{% set ... %}` can put in target position
# (parser.parse_set is the only caller of parse_assign_target(with_namespace=True): see C03.namespace.nsref_sites)

def _t_name(st, path):
    from pyvc import emit
    return emit.make_node(st, N.Name, path, fields={"ctx": "store"})


def _t_nsref(st, path):
    from pyvc import emit
    return emit.make_node(st, N.NSRef, path)


def _t_tuple(items):
    def build(st, path):
        from pyvc import emit
        refs = [b(st, f"{path}.items[{i}]") for i, b in enumerate(items)]
        return emit.make_node(st, N.Tuple, path, fields={"items": st.alloc(HList(items=refs), initial=True), "ctx": "store"})
    return build


def _t_rebinding(order):
    """(ns, ns.x) / (ns.x, ns): a plain name and an attribute of THAT name in one target"""
    def build(st, path):
        from pyvc import emit
        shared = sym(f"{path}.shared_name", "str")
        nm = emit.make_node(st, N.Name, f"{path}.items[{order.index('name')}]", fields={"ctx": "store", "name": shared})
        ns = emit.make_node(st, N.NSRef, f"{path}.items[{order.index('nsref')}]", fields={"name": shared})
        items = [nm, ns] if order == ("name", "nsref") else [ns, nm]
        return emit.make_node(st, N.Tuple, path, fields={"items": st.alloc(HList(items=items), initial=True), "ctx": "store"})
    return build


TARGET_SHAPES = {
    "tuple(name=base,nsref)": _t_rebinding(("name", "nsref")), "tuple(nsref,name=base)": _t_rebinding(("nsref", "name")),
    "name": _t_name, "nsref": _t_nsref, "tuple(name)": _t_tuple([_t_name]), "tuple(nsref)": _t_tuple([_t_nsref]),
    "tuple(nsref,name)": _t_tuple([_t_nsref, _t_name]), "tuple(nsref,nsref)": _t_tuple([_t_nsref, _t_nsref]),
    "tuple(name,tuple(nsref))": _t_tuple([_t_name, _t_tuple([_t_nsref])]),
}
SHAPE_BOUND = "assignment targets of the shapes " + ", ".join(TARGET_SHAPES) + " (names and attributes symbolic, equal or distinct)"


def target_fields(shape):
    return lambda st: {"target": TARGET_SHAPES[shape](st, "node.target")}


def concrete_find_all(I):
    """Node.find_all(cls) on a node whose target has a concrete shape: the descendants of that class inside the concrete part
    (the abstract parts - value expression, bodies - cannot hold namespace references: only parse_set parses them, in target position)"""
    def descendants(st, ref):
        h = st.get(ref)
        for f in getattr(h.cls, "fields", ()):
            v = h.fields.get(f)
            if isinstance(v, Ref) and isinstance(st.get(v), HObj) and isinstance(st.get(v).cls, type) and issubclass(st.get(v).cls, N.Node):
                yield v
                yield from descendants(st, v)
            elif isinstance(v, Ref) and isinstance(st.get(v), HList) and st.get(v).concrete:
                for x in st.get(v).items:
                    if isinstance(x, Ref) and isinstance(st.get(x), HObj):
                        yield x
                        yield from descendants(st, x)

    def find_all(I_, st, args, kwargs, node):
        cls = args[1]
        return [(st, tuple(r for r in descendants(st, args[0]) if issubclass(st.get(r).cls, cls)))]

    I.specs["Node.find_all"] = find_all


def store_guard_configure(I):
    record_frames(I)
    concrete_find_all(I)
    I.emit_inline = (N.Keyword, N.Pair, N.Operand, N.NSRef, N.Tuple, N.Name)  # the target is compiled inline: its stores are visible


def is_namespace_guard(stmt, ph):
    """`if not isinstance(<template variable>, Namespace): raise TemplateRuntimeError(...)` -> the variable's identifier term"""
    from pyvc import emit
    if not (isinstance(stmt, ast.If) and not stmt.orelse and len(stmt.body) == 1 and isinstance(stmt.body[0], ast.Raise)):
        return None
    t = stmt.test
    if not (isinstance(t, ast.UnaryOp) and isinstance(t.op, ast.Not) and isinstance(t.operand, ast.Call) and emit.call_name(t.operand) == "isinstance"
            and len(t.operand.args) == 2 and isinstance(t.operand.args[1], ast.Name) and t.operand.args[1].id == "Namespace"):
        return None
    exc = stmt.body[0].exc
    if not (isinstance(exc, ast.Call) and emit.call_name(exc) == "TemplateRuntimeError"):
        return None
    return ident_of(ph, t.operand.args[0])


def guarded_store_pred(sc, tree, ph, txt):
    """Every emitted item store `<template variable>[<attr>] = ...` is DOMINATED, in the code of the same statement, by the
    guard `if not isinstance(<that variable>, Namespace): raise TemplateRuntimeError` (generated code never writes into an
    object the template did not create unless it is a Namespace)."""
    if sc.outcome == "raise" or tree is None:
        return []
    st = sc.st
    name_of = {}
    for e in st.trace:
        if e.kind == "call" and e.name == "symbols.ref" and isinstance(e.result, Sym):
            name_of[str(e.result.t)] = e.args[0]
    fails = []
    guarded = []  # template-variable names guarded so far (top-level statements, in order: straight-line domination)

    def same(a, b):
        if a is b:
            return True
        if isinstance(a, Sym) and isinstance(b, Sym):
            return a.t.eq(b.t) or sc.holds(a.t == b.t)
        return (not isinstance(a, Sym)) and (not isinstance(b, Sym)) and a == b

    def stores_in(node):
        for n in ast.walk(node):
            if isinstance(n, ast.Subscript) and isinstance(n.ctx, (ast.Store, ast.Del)):
                t = ident_of(ph, n.value)
                if t is not None:
                    yield n, t
            if isinstance(n, ast.Call) and isinstance(n.func, ast.Attribute) and n.func.attr in ("__setitem__", "__delitem__", "update", "setdefault", "pop", "clear"):
                t = ident_of(ph, n.func.value)
                if t is not None:
                    yield n, t

    def ordered_targets(t):
        """store targets of an assignment in Python's evaluation order (left to right, depth first)"""
        if isinstance(t, (ast.Tuple, ast.List)):
            for e in t.elts:
                yield from ordered_targets(e)
        elif isinstance(t, ast.Starred):
            yield from ordered_targets(t.value)
        else:
            yield t

    rebound = []  # names (re)bound by plain stores after their guard was emitted
    for stmt in tree.body:
        g = is_namespace_guard(stmt, ph)
        if g is not None:
            guarded.append(name_of.get(str(g)))
            continue
        seq = []
        if isinstance(stmt, ast.Assign):
            for t in stmt.targets:
                seq += list(ordered_targets(t))
        elif isinstance(stmt, (ast.AugAssign, ast.AnnAssign, ast.For, ast.AsyncFor)):
            seq += list(ordered_targets(stmt.target))
        handled = set()
        for t in seq:
            if isinstance(t, ast.Name) and ident_of(ph, t) is not None:
                rebound.append(name_of.get(str(ident_of(ph, t))))
            elif isinstance(t, ast.Subscript) and ident_of(ph, t.value) is not None:
                handled.add(id(t))
                nm = name_of.get(str(ident_of(ph, t.value)))
                if nm is None or not any(x is not None and same(x, nm) for x in guarded):
                    fails.append(f"item store `{ast.unparse(t)[:60]}` on a template variable without a preceding isinstance(..., Namespace) guard for that variable")
                elif any(x is not None and same(x, nm) for x in rebound):
                    fails.append(f"item store `{ast.unparse(t)[:60]}`: the variable is REBOUND between its Namespace guard and the store (targets are assigned left to "
                                 "right: the guard has checked the old value, the store goes to whatever the name was just bound to)")
        for n, t in stores_in(stmt):
            if id(n) in handled:
                continue
            nm = name_of.get(str(t))
            if nm is None or not any(x is not None and same(x, nm) for x in guarded) or any(x is not None and same(x, nm) for x in rebound):
                fails.append(f"item store `{ast.unparse(n)[:60]}` on a template variable without a valid isinstance(..., Namespace) guard for that variable")
    return fails


def non_vacuous(pred, n_refs):
    """the run must actually show the item stores of the shape (else the obligation would hold vacuously)"""
    def p(sc, tree, ph, txt):
        fails = pred(sc, tree, ph, txt) or []
        if sc.outcome != "raise" and tree is not None:
            n = sum(1 for x in ast.walk(tree) if isinstance(x, ast.Subscript) and isinstance(x.ctx, ast.Store) and ident_of(ph, x.value) is not None)
            if n != n_refs:
                fails.append(f"expected {n_refs} item stores on template variables in the emitted statement, found {n}")
        return fails
    return p


def store_guard_tasks(prop="C03", prefix="C03.namespace.store_guarded"):
    from pyvc.emitcheck import EmitTask
    ts = []
    for v, cls in (("visit_Assign", N.Assign), ("visit_AssignBlock", N.AssignBlock)):
        for shape in TARGET_SHAPES:
            t = EmitTask(prop, f"{prefix}.{v}[{shape}]", f"jinja2.compiler:CodeGenerator.{v}", cls, non_vacuous(guarded_store_pred, shape.count("nsref")), mode="stmts", buffers=(None, "t_buf"),
                         replay_fn=replay_namespace, configure=store_guard_configure, node_fields=target_fields(shape), min_paths=1)
            t.bound_text = SHAPE_BOUND
            ts.append(t)
    return ts


def nsref_sites(task, tier, seed):
    """Namespace references are only parsed in the target of `{% set %}`: parse_set is the only function of parser.py / ext.py that
    passes with_namespace=True (the others only forward their own parameter), and nothing else constructs nodes.NSRef; so the
    visitors that can meet an NSRef in store position are visit_Assign and visit_AssignBlock."""
    import inspect
    import jinja2.parser as P
    import jinja2.ext as X
    rs = []
    sites, ctor = [], []
    for mod in (P, X, C):
        tree = ast.parse(inspect.getsource(mod))
        for fn in ast.walk(tree):
            if not isinstance(fn, (ast.FunctionDef, ast.AsyncFunctionDef)):
                continue
            for n in ast.walk(fn):
                if isinstance(n, ast.Call):
                    for k in n.keywords:
                        if k.arg == "with_namespace" and not (isinstance(k.value, ast.Name) and k.value.id == "with_namespace"):
                            sites.append((mod.__name__, fn.name, ast.unparse(k.value)))
                    f = n.func
                    if (isinstance(f, ast.Attribute) and f.attr == "NSRef") or (isinstance(f, ast.Name) and f.id == "NSRef"):
                        if not (mod is C):
                            ctor.append((mod.__name__, fn.name))
    ok = sites == [("jinja2.parser", "parse_set", "True")]
    rs.append(Res("C03.namespace.nsref_sites.with_namespace", "discharged" if ok else "refuted", "table", 0, f"with_namespace passed as a constant in {sites}", "table", None if ok else {"sites": sites}))
    ok2 = set(ctor) <= {("jinja2.parser", "parse_primary")}
    rs.append(Res("C03.namespace.nsref_sites.constructed", "discharged" if ok2 else "refuted", "table", 0, f"nodes.NSRef constructed in {sorted(set(ctor))}", "table", None if ok2 else {"ctor": ctor}))
    return rs


def nsref_guard_task(n_refs):
    """visit_Assign with a target that contains n namespace references (names symbolic, possibly equal): every distinct
    referenced name is guarded by `if not isinstance(<ref>, Namespace): raise TemplateRuntimeError(...)` BEFORE the
    assignment statement; visit_NSRef emits the item store `<ref>[attr]`."""
    from pyvc.emitcheck import EmitTask
    from pyvc import emit

    def configure(I):
        record_frames(I)

        def find_all(I_, st, args, kwargs, node):
            if args[1] is not N.NSRef:
                return [(st, ())]
            refs = tuple(emit.make_node(st, N.NSRef, f"nsref{i}") for i in range(n_refs))
            return [(st, refs)]

        I.specs["Node.find_all"] = find_all

    def pred(sc, tree, ph, txt):
        if sc.outcome == "raise":
            return [f"raises {sc.value!r}"]
        st = sc.st
        guards = []
        body = list(tree.body)
        k = 0
        while k < len(body) and isinstance(body[k], ast.If):
            g = body[k]
            t = g.test
            ok = (isinstance(t, ast.UnaryOp) and isinstance(t.op, ast.Not) and isinstance(t.operand, ast.Call) and emit.call_name(t.operand) == "isinstance"
                  and len(t.operand.args) == 2 and isinstance(t.operand.args[1], ast.Name) and t.operand.args[1].id == "Namespace"
                  and len(g.body) == 1 and isinstance(g.body[0], ast.Raise) and isinstance(g.body[0].exc, ast.Call)
                  and emit.call_name(g.body[0].exc) == "TemplateRuntimeError" and not g.orelse)
            if not ok:
                return [f"unexpected guard shape: {ast.unparse(g)[:120]}"]
            guards.append(ident_of(ph, t.operand.args[0]))
            k += 1
        rest = body[k:]
        fails = []
        if len(rest) != 2 or not isinstance(rest[0], ast.Assign):
            fails.append(f"after the guards exactly the assignment (and the tracking marker) must follow: {[ast.unparse(x)[:60] for x in rest]}")
        if any(isinstance(n, ast.If) for x in rest for n in ast.walk(x)):
            fails.append("a guard is emitted after the assignment")
        # which names were looked up for guards
        refs = [e for e in st.trace if e.kind == "call" and e.name == "symbols.ref"]
        names = [st.get(emit_ref).fields.get("name") for emit_ref in [r for r in (sc_ns_nodes(st, n_refs))]]
        for i, nm in enumerate(names):
            mine = [e.result.t for e in refs if e.args[0] is nm]
            if not any(g is not None and any(g.eq(m) for m in mine) for g in guards):
                # allowed only when an earlier reference has the same name on this path
                dup = any(sc.holds(names[j].t == nm.t) for j in range(i))
                if not dup:
                    fails.append(f"namespace reference #{i} is assigned without an isinstance(..., Namespace) guard on its name")
        if len(guards) > len(names):
            fails.append("more guards than namespace references")
        return fails

    t = EmitTask("C03", f"C03.namespace.guard[{n_refs} refs]", "jinja2.compiler:CodeGenerator.visit_Assign", N.Assign, pred, mode="stmts",
                 buffers=(None,), replay_fn=replay_namespace, configure=configure, min_paths=1)
    t.bound_text = "assignment targets with at most 2 namespace references (names / attributes symbolic)"
    return t


def sc_ns_nodes(st, n):
    out = []
    for i, h in st.heap.items():
        if isinstance(h, HObj) and h.cls is N.NSRef and (h.path or "").startswith("nsref"):
            out.append((h.path, Ref(i)))
    return [r for _p, r in sorted(out)][:n]


def nsref_emit_pred(sc, tree, ph, txt):
    """visit_NSRef: `<ref of the name>[<attr!r>]` - an item access on the variable, i.e. Namespace.__setitem__ in store position"""
    if sc.outcome == "raise":
        return [f"raises {sc.value!r}"]
    if len(tree.body) != 1 or not isinstance(tree.body[0], ast.Expr) or not isinstance(tree.body[0].value, ast.Subscript):
        return [f"a namespace reference is not emitted as an item access: {txt!r}"]
    sub = tree.body[0].value
    nf = sc.st.get(sc.node).fields
    refs = [e for e in sc.st.trace if e.kind == "call" and e.name == "symbols.ref" and e.args[0] is nf.get("name")]
    t = ident_of(ph, sub.value)
    fails = []
    if t is None or not any(t.eq(e.result.t) for e in refs):
        fails.append("the subscripted object is not frame.symbols.ref(node.name)")
    key = f"'{sub.slice.value}'" if isinstance(sub.slice, ast.Constant) else None
    if key not in ph or ph[key][0] != "repr" or not ph[key][1].eq(nf.get("attr").t):
        fails.append("the item key is not the quoted attribute name")
    return fails


def namespace_tasks():
    from pyvc.emitcheck import EmitTask
    return [NamespaceVC("__setitem__"), NamespaceVC("__getattribute__"), nsref_guard_task(0), nsref_guard_task(1), nsref_guard_task(2),
            EmitTask("C03", "C03.namespace.visit_NSRef", "jinja2.compiler:CodeGenerator.visit_NSRef", N.NSRef, nsref_emit_pred, mode="stmts", buffers=(None,),
                     replay_fn=replay_namespace, min_paths=1),
            FnTask("C03", "C03.namespace.nsref_sites", nsref_sites, "table", replay_namespace)] + store_guard_tasks()


# ------------------------------------------------------------------ C03.symbols.no_alias.literals (table)

def literal_identifiers(task, tier, seed):
    """No text the code generator writes by itself can be (or start) an identifier of the template-variable scheme l_<level>_<name>:
    every string constant / f-string skeleton of jinja2/compiler.py is scanned for `l_` followed by a digit or by a formatted value;
    the names exported to generated modules (runtime.exported / async_exported) are checked against the same pattern."""
    import inspect
    import jinja2.runtime as R
    rs = []
    src = inspect.getsource(C)
    tree = ast.parse(src)
    bad = []
    n = 0
    for node in ast.walk(tree):
        text = None
        if isinstance(node, ast.JoinedStr):
            text = "".join(v.value if isinstance(v, ast.Constant) and isinstance(v.value, str) else "\x00" for v in node.values)
        elif isinstance(node, ast.Constant) and isinstance(node.value, str):
            text = node.value
        if text is None:
            continue
        n += 1
        if re.search(r"(?<![A-Za-z0-9_])l_[0-9\x00]", text):
            bad.append((node.lineno, text[:60]))
    rs.append(Res("C03.symbols.no_alias.literals.compiler", "refuted" if bad else "discharged", "table", 0,
                  f"compiler.py writes text of the l_<level>_ scheme itself: {bad[:3]}" if bad else f"{n} string constants scanned", "table",
                  {"level1": 0, "name1": "a", "level2": 1, "name2": "a"} if bad else None))
    clash = [x for x in list(R.exported) + list(R.async_exported) if re.match(r"l_[0-9]", x)]
    rs.append(Res("C03.symbols.no_alias.literals.runtime_exports", "refuted" if clash else "discharged", "table", 0, f"runtime exports {clash}" if clash else "", "table",
                  {"level1": 0, "name1": "a", "level2": 1, "name2": "a"} if clash else None))
    listed = set(internal_names())
    missing = [x for x in list(R.exported) + list(R.async_exported) if x not in listed]
    rs.append(Res("C03.symbols.no_alias.literals.internal_list_complete", "refuted" if missing else "discharged", "table", 0, f"not in the internal-name list: {missing}", "table",
                  {"level1": 0, "name1": "a", "level2": 1, "name2": "a"} if missing else None))
    return rs


# ------------------------------------------------------------------ hunt round: NFKC, find_undeclared, sibling scopes

def nfkc_table(task, tier, seed):
    """C03.symbols.no_alias.nfkc (table over all code points): Python compares identifiers after NFKC normalisation, so the
    Python locals of two DIFFERENT template names must differ after NFKC too.  Every identifier character c is tried in the
    names c (or a+c) against their NFKC forms, through the real Symbols._define_ref.  (The string lemma C03.symbols.no_alias
    proves injectivity of the generated string; this table, and C02.names.identifier_injective, cover what Python does with it.)"""
    import unicodedata
    bad = []
    n = 0
    t = IDT.Symbols(level=0)
    for cp in range(0x80, 0x30000):
        ch = chr(cp)
        name = ch if ch.isidentifier() else ("a" + ch if ("a" + ch).isidentifier() else None)
        if name is None:
            continue
        norm = unicodedata.normalize("NFKC", name)
        if norm == name or not norm.isidentifier():
            continue
        n += 1
        i1, i2 = t._define_ref(name, load=(ALIAS, "x")), t._define_ref(norm, load=(ALIAS, "x"))
        if unicodedata.normalize("NFKC", i1) == unicodedata.normalize("NFKC", i2) or not i1.isidentifier():
            bad.append((name, norm, i1, i2))
    ok = not bad
    return [Res("C03.symbols.no_alias.nfkc", "discharged" if ok else "refuted", "table", 0,
                f"{n} names that differ from their NFKC form get a local that differs, after NFKC, from the local of the normalised name" if ok else
                f"{len(bad)} pairs of distinct names share one Python local after NFKC, e.g. {bad[0][0]!r} (U+{ord(bad[0][0][-1]):04X}) and {bad[0][1]!r} -> {bad[0][2]!r} / {bad[0][3]!r}",
                "table", None if ok else {"key": "nfkc-equivalent-names", "name1": bad[0][0], "name2": bad[0][1]})]


def replay_nfkc(w):
    import jinja2
    env = jinja2.Environment()
    problems = []
    cases = [("{% set \ufb01 = 1 %}{% set fi = 2 %}{{ \ufb01 }}|{{ fi }}", {}, "1|2"), ("{% set fi = 2 %}{{ \ufb01 }}|{{ fi }}", {"\ufb01": 9}, "9|2"),
             ("{% with \ufb01 = 1, fi = 2 %}{{ \ufb01 }}{% endwith %}", {}, "1"), ("{% set \xb5 = 'micro' %}{% set \u03bc = 'mu' %}{{ \xb5 }}", {}, "micro"),
             ("{% for x in [1,2] %}{% set \uff4coop = 9 %}{{ loop.index }}{% endfor %}", {}, "12")]
    n1, n2 = (w or {}).get("name1"), (w or {}).get("name2")
    if n1 and n2:
        cases.append(("{%% set %s = 1 %%}{%% set %s = 2 %%}{{ %s }}|{{ %s }}" % (n1, n2, n1, n2), {}, "1|2"))
    for src, data, want in cases:
        try:
            got = env.from_string(src).render(data)
        except Exception as ex:
            got = f"{type(ex).__name__}: {ex}"
        if got != want:
            problems.append(f"{src!r} with {data!r}: {got!r}, distinct identifiers give {want!r}")
    return (bool(problems), "; ".join(problems[:3]) or "NFKC-equivalent names are separate variables")


# ---- find_undeclared (compiler.UndeclaredNameVisitor): used by visit_For to decide whether the body reads `loop`

def _load(n):
    return N.Output([N.Name(n, "load")])


def undeclared_family(n="loop"):
    """[(label, class, nodes, reads_n_free)]: statement lists in which a nested scope binds the watched name (as a parameter /
    with target) before, after or around a read of it; `reads_n_free` by the scoping rules: a with target is bound in the with
    body only and its values are evaluated outside; macro / call block parameters are bound in that macro / call body only"""
    m_call = lambda: N.Call(N.Name("m", "load"), [], [], None, None)
    binders = {
        "macro_param": lambda body: N.Macro("m", [N.Name(n, "param")], [], body),
        "call_param": lambda body: N.CallBlock(m_call(), [N.Name(n, "param")], [], body),
        "with_target": lambda body: N.With([N.Name(n, "param")], [N.Const(5)], body),
    }
    plain = {
        "with": lambda body: N.With([], [], body), "filter": lambda body: N.FilterBlock(body, N.Filter(None, "upper", [], [], None, None)),
        "setblock": lambda body: N.AssignBlock(N.Name("y", "store"), None, body), "if": lambda body: N.If(N.Const(1), body, [], []),
        "for": lambda body: N.For(N.Name("z", "store"), N.Const(()), body, [], None, False), "macro": lambda body: N.Macro("k", [], [], body),
    }
    fam = []
    for bn, b in binders.items():
        fam.append((f"{bn}[read inside];", bn, [b([_load(n)])], False))
        fam.append((f"{bn}[read inside]; read", bn, [b([_load(n)]), _load(n)], True))
        fam.append((f"{bn}[]; read", bn, [b([]), _load(n)], True))
        fam.append((f"read; {bn}[read inside]", bn, [_load(n), b([_load(n)])], True))
        for pn, p in plain.items():
            fam.append((f"{pn}[{bn}[read inside]; read]", bn, [p([b([_load(n)]), _load(n)])], True))
            fam.append((f"{bn}[{pn}[read]]", bn, [b([p([_load(n)])])], False))
            fam.append((f"{bn}[]; {pn}[read]", bn, [b([]), p([_load(n)])], True))
    # evaluation order of a with statement: values (outside) before targets
    fam.append(("with n = n [read inside]", "with_value_order", [N.With([N.Name(n, "param")], [N.Name(n, "load")], [_load(n)])], True))
    fam.append(("with q = n, n = 1 []", "with_value_order", [N.With([N.Name("q", "param"), N.Name(n, "param")], [N.Name(n, "load"), N.Const(1)], [])], True))
    fam.append(("with n = 1, q = n []", "with_value_order", [N.With([N.Name(n, "param"), N.Name("q", "param")], [N.Const(1), N.Name(n, "load")], [])], True))
    # defaults of a macro are evaluated inside the macro scope, where an EARLIER parameter of that name shadows
    fam.append(("macro m(p = n) []", "macro_default", [N.Macro("m", [N.Name("p", "param")], [N.Name(n, "load")], [])], True))
    return fam


UNDECLARED_TEMPLATES = [
    ("macro_param", "{% for x in [1,2] %}{% macro m(loop) %}{{ loop }}{% endmacro %}[{{ loop.index }}]{% endfor %}", "[1][2]"),
    ("with_target", "{% for x in [1,2] %}{% with loop = 5 %}{{ loop }}{% endwith %}[{{ loop.index }}]{% endfor %}", "5[1]5[2]"),
    ("call_param", "{% macro m() %}{{ caller(7) }}{% endmacro %}{% for x in [1,2] %}{% call(loop) m() %}{{ loop }}{% endcall %}[{{ loop.index }}]{% endfor %}", "7[1]7[2]"),
    ("with_value_order", "{% for x in 'ab' %}{% with loop = loop %}{{ loop.index }}{% endwith %}{% endfor %}", "12"),
    ("with_value_order", "{% for x in 'ab' %}{% with q = loop.index, loop = 0 %}{{ q }}{{ loop }}{% endwith %}{% endfor %}", "1020"),
    ("plain", "{% for x in 'ab' %}{% with q = 1 %}{{ loop.index }}{% endwith %}{% endfor %}", "12"),
]


def undeclared_problems():
    import jinja2
    out = []
    for n, others in (("loop", ()), ("loop", ("zz",))):
        for label, cls, nodes_, want in undeclared_family(n):
            got = n in C.find_undeclared(nodes_, (n,) + others)
            if got != want:
                out.append((cls, f"find_undeclared([{label}], {(n,) + others}) says {n!r} is {'read' if got else 'not read'} by the enclosing body; by the scoping rules it is "
                                 f"{'read (the binding belongs to the nested scope only)' if want else 'not read'}"))
    env = jinja2.Environment()
    for cls, src, want in UNDECLARED_TEMPLATES:
        try:
            got = env.from_string(src).render()
        except Exception as ex:
            got = f"{type(ex).__name__}: {ex}"
        if got != want:
            out.append((cls, f"{src!r}: {got!r}, expected {want!r}"))
    return out


def undeclared_bounded(task, tier, seed):
    """C03.visitors.find_undeclared: visit_For makes `loop` available iff find_undeclared reports a free read of it in the body.  The
    real function is compared with the scoping rules on every member of a family of nested-scope shapes (bounded, exhaustive)."""
    ps = undeclared_problems()
    fam = undeclared_family()
    task.bound_text = f"{len(fam)} statement lists (binder in {{macro parameter, call-block parameter, with target}} x position x 6 plain nesting constructs, with-value order) x 2 watched-name sets, and {len(UNDECLARED_TEMPLATES)} templates"
    rs = [Res("C03.visitors.find_undeclared", "bounded-ok", "native", 0, f"{2 * len(fam) + len(UNDECLARED_TEMPLATES) - len(ps)} cases agree with the scoping rules", "bounded")]
    by = {}
    for cls, det in ps:
        by.setdefault(cls, []).append(det)
    for cls, dets in sorted(by.items()):
        rs.append(Res("C03.visitors.find_undeclared", "refuted", "native", 0, f"{len(dets)} cases: " + "; ".join(dets[:2])[:800], "bounded", {"key": cls}))
    return rs


def replay_undeclared(w):
    ps = [p for p in undeclared_problems() if not (w or {}).get("key") or p[0] == w["key"]]
    return (bool(ps), "; ".join(d for _c, d in ps[:2])[:1000] or "find_undeclared agrees with the scoping rules on the family")


# ---- sibling scopes share one Python local: observable through a closure that outlives its scope

class SiblingScopes(VC):
    """Two DIFFERENT scopes of equal depth under one parent (two with blocks, two loops, a loop's iterations) define the same
    name: the real _define_ref gives both the SAME Python local.  That is only sound while the lifetimes of the two variables
    cannot overlap; a macro (a closure over the local) stored in a namespace attribute outlives its scope and then reads the
    sibling scope's variable or the `missing` sentinel (C03.bounded.escaped_closure)."""
    prop = "C03"
    target = "jinja2.idtracking:Symbols._define_ref"

    def __init__(self):
        super().__init__("C03", "C03.symbols.no_alias.sibling_scopes")

    def configure(self, I):
        install_loads(I)

    def setup(self, I, st):
        self.t1, self.t2 = Tab(st, False, "scope1"), Tab(st, False, "scope2")
        self.n = sym("name", "str")
        # siblings: the same depth (the same level value)
        st.get(self.t2.ref).fields["level"] = st.get(self.t1.ref).fields["level"]
        self.t2.L = self.t1.L
        # no string facts are needed: both calls build literally the same identifier term (the paths stay trivially satisfiable)
        return [self.t2.ref, self.n, (ALIAS, "x")], {}

    def paths(self, I):
        st = State()
        self.configure(I)
        args, kwargs = self.setup(I, st)
        pre = st.fork()
        clo = self.closure(I)
        outs = []
        for s1, id1 in I.call_closure(st, clo, [self.t1.ref, self.n, (ALIAS, "x")], {}):
            for s2, v in I.call_closure(s1, clo, list(args), {}):
                o = Outcome(s2, "raise" if isinstance(v, Raised) else "return", v.exc if isinstance(v, Raised) else v, len(outs))
                o.id1 = id1
                outs.append(o)
        return pre, outs

    def p_distinct(self, pre, out):
        if out.raised or not isinstance(out.value, Sym):
            return False
        if z3.simplify(out.id1.t).eq(z3.simplify(out.value.t)):
            return False  # literally the same identifier term: refuted on this path if the path is feasible
        return out.id1.t != out.value.t

    posts = [("different_scopes_get_different_locals", p_distinct)]

    def finding_key(self, res):
        return "sibling-scopes-share-local"

    def concretize(self, model, pre, out):
        return {"key": "sibling-scopes-share-local", "name": model_value(model, self.n.t)}

    def replay(self, w):
        return replay_escaped(w)


_PRE = "{% set ns = namespace(f=none) %}"
ESCAPED = [
    ("with/with", _PRE + "{% with x = 1 %}{% macro m() %}[{{ x }}]{% endmacro %}{% set ns.f = m %}{% endwith %}{% with x = 2 %}{{ ns.f() }}{% endwith %}"),
    ("with/other name", _PRE + "{% with x = 1 %}{% macro m() %}[{{ x }}]{% endmacro %}{% set ns.f = m %}{% endwith %}{% with y = 2 %}{{ ns.f() }}{% endwith %}"),
    ("for/for", _PRE + "{% for x in [1] %}{% macro m() %}[{{ x }}]{% endmacro %}{% set ns.f = m %}{% endfor %}{% for x in [2] %}{{ ns.f() }}{% endfor %}"),
    ("for/after", _PRE + "{% for x in [1] %}{% macro m() %}[{{ x }}]{% endmacro %}{% set ns.f = m %}{% endfor %}{{ ns.f() }}"),
    ("iterations", _PRE + "{% for x in [1,2] %}{% if ns.f %}{{ ns.f() }}{% endif %}{% macro m() %}[{{ x }}]{% endmacro %}{% if not ns.f %}{% set ns.f = m %}{% endif %}{% endfor %}"),
    ("with set/with set", _PRE + "{% with %}{% set x = 1 %}{% macro m() %}[{{ x }}]{% endmacro %}{% set ns.f = m %}{% endwith %}{% with %}{% set x = 2 %}{{ ns.f() }}{% endwith %}"),
    ("control: macro scope", _PRE + "{% macro outer(x) %}{% macro m() %}[{{ x }}]{% endmacro %}{% set ns.f = m %}{% endmacro %}{{ outer(1) }}{% with x = 2 %}{{ ns.f() }}{% endwith %}"),
]


def escaped_problems():
    import jinja2
    env = jinja2.Environment()
    out = []
    for label, src in ESCAPED:
        try:
            got = env.from_string(src).render()
        except Exception as ex:
            got = f"{type(ex).__name__}: {ex}"
        # the macro reads the variable of the scope it was written in ([1]); a dead scope's variable may at most be undefined ([])
        if got not in ("[1]", "[]"):
            out.append((label, f"[{label}] {src!r}: {got!r} - the escaped macro reads another scope's variable or the `missing` sentinel; the scoping rules give '[1]' (at least '[]')"))
    return out


def escaped_bounded(task, tier, seed):
    ps = escaped_problems()
    task.bound_text = f"{len(ESCAPED)} templates: a macro defined in a with / for scope, kept in a namespace attribute and called from a sibling scope, a later iteration or after the scope"
    rs = [Res("C03.bounded.escaped_closure", "bounded-ok", "native", 0, f"{len(ESCAPED) - len(ps)} of {len(ESCAPED)} templates agree", "bounded")]
    if ps:
        rs.append(Res("C03.bounded.escaped_closure", "refuted", "native", 0, f"{len(ps)} templates: " + "; ".join(d for _l, d in ps[:2])[:800], "bounded", {"key": "sibling-scopes-share-local"}))
    return rs


def replay_escaped(w):
    ps = escaped_problems()
    return (bool(ps), "; ".join(d for _l, d in ps[:2])[:1000] or "escaped macros read their own scope's variable")


HUNT_TASKS = [FnTask("C03", "C03.symbols.no_alias.nfkc", nfkc_table, "table", replay_nfkc), SiblingScopes()]


# ------------------------------------------------------------------ bounded differential stand-in (end to end)

KNOWN_CLASSES = ("dead-read-changes-output",)  # listed in known_findings.d/c03.json
KEY_CLASSES = ("dead-read-changes-output", "for-else-loopcontrol")  # readable finding keys (the second one was DESIGN F11, repaired in /repo: a recurrence is a violation)


def native_scoping(w=None, count=240, seed=11):
    """Native oracle shared by the structural obligations: the documented scoping family, and a small generated corpus
    compared against the reference interpreter and its alpha-renamings (known classes of disagreement excluded)."""
    from standins import c03_scoping as S
    problems = S.doc_family_problems()
    if not problems:
        for i, prog in enumerate(S.programs(seed, count, max_depth=2, max_stmts=3)):
            for d in (S.DATA[i % len(S.DATA)], S.DATA[(i + 1) % len(S.DATA)]):
                for ob, key, det in S.check_program(prog, d, renaming_index=i):
                    if key not in KNOWN_CLASSES:
                        problems.append(f"[{ob}] {det}")
            if len(problems) > 2:
                break
    return (bool(problems), "; ".join(problems[:2])[:1500] or "documented scoping family and generated corpus agree with the scoping rules")


class Bounded(FnTask):
    def finding_key(self, res):
        return (res.witness or {}).get("key", "?")


def bounded_scoping(part, parts):
    def run(task, tier, seed):
        from standins import c03_scoping as S
        count = (400 if tier == "quick" else 4000)
        t0 = time.time()
        cases = 0
        fails = {}
        for i, prog in enumerate(S.programs(1000 * (seed + 1) + part, count, max_depth=3 if i_big(part) else 2, max_stmts=3)):
            for di, d in enumerate(S.DATA):
                cases += 1
                for ob, key, det in S.check_program(prog, d, renaming_index=i + di):
                    cls = key if key in KEY_CLASSES else "other"
                    fails.setdefault((ob, cls), []).append((prog, d, key, det))
        task.bound_text = (f"{count} generated statement trees per task (x{parts} tasks; depth <= 3, <= 3 statements per body, names {S.ALL_NAMES}) over "
                           f"if/elif/else, for (else, filter, recursive, break/continue), set, block set, with, macro (defaults), call, filter block, "
                           f"namespace; {len(S.DATA)} data assignments each; one of {len(S.RENAMINGS)} alpha-renamings per case (Unicode, Python keywords, "
                           f"compiler-internal names)")
        task.stats = {"cases": cases, "seconds": round(time.time() - t0, 1)}
        rs = [Res(f"C03.bounded.alpha[{part}]", "bounded-ok", "native", 0, f"{cases} renders equal their alpha-renamed render", "bounded"),
              Res(f"C03.bounded.reference[{part}]", "bounded-ok", "native", 0, f"{cases} renders compared with the reference interpreter of the scoping rules", "bounded")]
        for (ob, cls), lst in sorted(fails.items(), key=repr):
            prog, d, key, det = min(lst, key=lambda x: len(S.source(x[0])))
            small = S.shrink(prog, d, lambda p: (ob, cls) in S.disagreement(p, d, ob), budget=150)
            dets = [x for x in S.check_program(small, d) if x[0] == ob]
            det = dets[0][2] if dets else det
            k = cls if cls != "other" else S.source(small)
            rs.append(Res(f"C03.bounded.{ob}", "refuted", "native", 0, f"{len(lst)} cases like: {det}"[:900], "bounded",
                          {"key": k, "program": small, "data": d, "obligation": ob}))
        return rs
    return run


def i_big(part):
    return part % 2 == 0


def replay_bounded(w):
    from standins import c03_scoping as S
    if not w or "program" not in w:
        return native_scoping(w)
    prog, d = w["program"], w["data"]
    prog = _tuples_to_lists(prog)
    res = [x for x in S.check_program(prog, d) if x[0] == w.get("obligation")]
    if res:
        return (True, res[0][2][:1200])
    return (False, f"{S.source(prog)!r} on {d!r} agrees")


def _tuples_to_lists(x):
    return [_tuples_to_lists(y) for y in x] if isinstance(x, (list, tuple)) else x


N_BOUNDED = 4
BOUNDED_TASKS = [Bounded("C03", f"C03.bounded.scoping[{i}]", bounded_scoping(i, N_BOUNDED), "bounded", replay_bounded) for i in range(N_BOUNDED)]
for _t in BOUNDED_TASKS[2:]:
    _t.thorough_only = True  # two of the four stand-in shards run in the thorough tier only (no deciding obligation among them)


# ------------------------------------------------------------------ branch_update: order independence of the set iteration

class BranchUpdateCommutes(Task):
    """`for name in stores:` iterates a SET of strings (order depends on the hash seed).  The real loop body is executed
    from an arbitrary merged table for two distinct names in both orders: the final tables are equal, so the result of
    branch_update does not depend on the iteration order (needs INV1: distinct names have distinct targets)."""
    kind = "vc"

    def __init__(self, with_parent):
        self.prop, self.with_parent = "C03", with_parent
        self.name = f"C03.symbols.branch_update.order_independent[{'child' if with_parent else 'root'}]"

    def loop_node(self):
        from pyvc import extract
        fn = extract.resolve("jinja2.idtracking:Symbols.branch_update")
        node, module = extract.function_ast(fn)
        # found by SHAPE, not by the names of locals: the loop over a local SET of names (a plain name that is not a parameter of
        # the function); the other loops of branch_update iterate the parameter (the sequence of branch tables)
        params = {a.arg for a in node.args.posonlyargs + node.args.args + node.args.kwonlyargs}
        loops = [n for n in ast.walk(node) if isinstance(n, ast.For) and isinstance(n.iter, ast.Name) and isinstance(n.target, ast.Name)
                 and n.iter.id not in params]
        if len(loops) != 1:
            raise Unsupported("branch_update has no unique loop over a local set of names")
        return loops[0], node, module

    def run_order(self, I, st, tab, fnode, module, loop, names):
        from pyvc.interp import Frame
        results = [(st, None)]
        for nm in names:
            nxt = []
            for s, _ in results:
                fid = s.new_frame({"self": tab.ref, loop.target.id: nm, loop.iter.id: None})
                fr = Frame(fid, [], module, "Symbols.branch_update", set(), fn_node=fnode)
                for s2, c in I.exec_block(loop.body, s, fr):
                    if c.kind in ("ok", "continue"):
                        nxt.append((s2, None))
                    else:
                        nxt.append((s2, c))
            results = nxt
        return results

    def run(self, tier, seed):
        from pyvc.engine import Interp
        t0 = time.time()
        try:
            loop, fnode, module = self.loop_node()
            I = Interp()
            install_loads(I)
            I.inline.update({"jinja2.idtracking:Symbols._define_ref", "jinja2.idtracking:Symbols.ref"})
            st = State()
            tab = Tab(st, self.with_parent)
            install_parent(I, lambda: tab)
            n1, n2 = sym("name1", "str"), sym("name2", "str")
            tab.assume_inv(st, n1.t, n2.t)
            # both names come out of `stores` after the merge: stored here (INV4 gives them a ref here)
            st.assume(n1.t != n2.t, z3.Select(tab.sdom, n1.t), z3.Select(tab.sdom, n2.t))
            a = self.run_order(I, st.fork(), tab, fnode, module, loop, [n1, n2])
            b = self.run_order(I, st.fork(), tab, fnode, module, loop, [n2, n1])
        except Unsupported as ex:
            return [Res(self.name + ".engine", "unknown", "pyvc", time.time() - t0, f"unsupported: {ex}", self.kind)]
        res = []
        k = 0
        for sa, ca in a:
            for sb, cb in b:
                pc = list(sa.pc) + [c for c in sb.pc if not any(c.eq(d) for d in sa.pc)]
                name = f"{self.name}#p{k}"
                k += 1
                if ca is not None or cb is not None:
                    # an iteration failed (the `assert target is not None`): must be infeasible under INV
                    r = check_sat(pc, 10000, seed)
                    res.append(Res(name, "discharged" if r.status == "unsat" else ("refuted" if r.status == "sat" else "unknown"), r.backend, r.seconds,
                                   "" if r.status == "unsat" else f"the loop body can fail: {ca or cb}", self.kind, {"with_parent": self.with_parent} if r.status == "sat" else None))
                    continue
                ta, tb = tab.post(sa), tab.post(sb)
                same = z3.And(ta[0] == tb[0], ta[1] == tb[1], ta[2] == tb[2], loads_equal(ta[3:], tb[3:]), parent_untouched(tab, sa), parent_untouched(tab, sb))
                r = check_sat(pc + [z3.Not(same)], 20000, seed)
                if r.status == "unsat":
                    res.append(Res(name, "discharged", r.backend, r.seconds, "", self.kind))
                elif r.status == "sat":
                    res.append(Res(name, "refuted", r.backend, r.seconds, "the two iteration orders end in different tables", self.kind,
                                   {"with_parent": self.with_parent, "name1": model_value(r.model, n1.t), "name2": model_value(r.model, n2.t)}))
                else:
                    res.append(Res(name, "unknown", r.backend, r.seconds, f"solver: {r.reason}", self.kind))
        if not res:
            res.append(Res(self.name + ".paths", "error", "pyvc", 0, "no paths", self.kind))
        return res

    def replay(self, w):
        """native: branch_update of the real class under both iteration orders of a two-element store set"""
        problems = []
        for parent_ops in ([], [("store", "a")], [("store", "a"), ("store", "b")]) if w.get("with_parent", True) else ([],):
            outs = []
            for order in (("a", "b"), ("b", "a")):
                class OrderedSet(set):
                    def __iter__(self, order=order):
                        return iter([x for x in order if set.__contains__(self, x)])
                real, _ref = build_pair(([(0, parent_ops)] if w.get("with_parent", True) else []) + [(None if w.get("with_parent", True) else 0, [])])
                b1, b2 = real.copy(), real.copy()
                for x in order:
                    b1.store(x)
                b2.load("a")
                orig = set
                import builtins
                # the local `stores` set of branch_update is built with set(): run with a set type whose iteration order is forced
                IDT.__dict__["set"] = OrderedSet
                try:
                    real.branch_update([b1, b2, real.copy()])
                finally:
                    del IDT.__dict__["set"]
                outs.append(real_state(real))
            if outs[0] != outs[1]:
                problems.append(f"parent {parent_ops}: order a,b -> {outs[0]}; order b,a -> {outs[1]}")
        return (bool(problems), "; ".join(problems[:2]) or "both iteration orders give the same tables")


# ------------------------------------------------------------------ branch_update / dump_* : bounded exhaustive enumeration

def bounded_tables(task, tier, seed):
    """Real Symbols.branch_update / dump_stores / dump_param_targets on every small configuration vs the rule of the property
    statement: after an if, a name stored in some branch and not before gets alias(outer) when an enclosing table knows it,
    else resolve(name); names stored before keep their load; everything the branches defined is visible afterwards."""
    names = ["a", "b"]
    ops_all = [(op, n) for op in ("store", "load", "declare_parameter") for n in names]
    ops_branch = [(op, n) for op in ("store", "load") for n in names]
    one = [()] + [(o,) for o in ops_all]
    b_seqs = [()] + [(o,) for o in ops_branch] + [(o1, o2) for o1 in ops_branch for o2 in ops_branch]
    b_short = [()] + [(o,) for o in ops_branch]
    if tier != "quick":
        one = one + [(o1, o2) for o1 in ops_all for o2 in ops_all]
    chains = [[]] + [[(0, ps)] for ps in one] + [[(0, (("store", "a"),)), (None, ps)] for ps in one[:4]]
    cases = 0
    fails = {}
    t0 = time.time()

    def note(ob, key, detail, wit):
        fails.setdefault((ob, key), (detail, wit))

    for chain in chains:
        for self_ops in one:
            spec = chain + [(None if chain else 0, self_ops)]
            # dump_stores / dump_param_targets on this chain
            real, ref = build_pair(spec)
            cases += 1
            got, want = real.dump_stores(), ref.dump_stores()
            if got != want or list(got) != sorted_by_chain(real):
                note("dump_stores", "value", f"tables {spec}: dump_stores() = {got}, every stored name of the chain with its nearest ref: {want}", {"spec": spec, "method": "dump_stores"})
            got, want = real.dump_param_targets(), ref.dump_param_targets()
            if got != want:
                note("dump_param_targets", "value", f"tables {spec}: dump_param_targets() = {got}, parameter targets of the frame: {want}", {"spec": spec, "method": "dump_param_targets"})
            for b1 in b_seqs:
                for b2 in b_short:
                    for b3 in (b_short if tier != "quick" else b_short[:3]):
                        cases += 1
                        bad = branch_update_case(spec, (b1, b2, b3))
                        if bad:
                            note("branch_update", bad[0], bad[1], {"spec": spec, "branches": [b1, b2, b3], "method": "branch_update"})
    task.bound_text = (f"names {names}; tables built by <= {1 if tier == 'quick' else 2} operations (store/load/declare_parameter) on an ancestor chain of depth <= 2; "
                       f"three branches = copies with <= 2 / <= 1 / <= 1 further store/load operations")
    task.stats = {"cases": cases, "seconds": round(time.time() - t0, 1)}
    rs = [Res(f"C03.symbols.{m}.bounded", "bounded-ok", "native", 0, f"{cases} configurations agree with the rule", "bounded")
          for m in ("branch_update", "dump_stores", "dump_param_targets")]
    for (ob, key), (detail, wit) in sorted(fails.items()):
        wit = dict(wit, key=key)
        rs.append(Res(f"C03.symbols.{ob}.bounded", "refuted", "native", 0, detail[:900], "bounded", wit))
    return rs


def sorted_by_chain(real):
    """documented iteration order of dump_stores: sorted within a table, innermost table first (deterministic output)"""
    out = []
    t = real
    while t is not None:
        for n in sorted(t.stores):
            if n not in out:
                out.append(n)
        t = t.parent
    return out


def branch_update_case(spec, branch_ops):
    real, ref = build_pair(spec)
    before_real = real_state(real)
    stored_before = set(real.stores)
    loads_before = {n: real.find_load(real.find_ref(n)) for n in stored_before}
    rb, fb = [], []
    for ops in branch_ops:
        r, f = real.copy(), ref.copy()
        for op, n in ops:
            getattr(r, op)(n)
            getattr(f, op)(n)
        rb.append(r)
        fb.append(f)
    parent_before = real_state(real.parent) if real.parent is not None else None
    try:
        real.branch_update(rb)
    except Exception as ex:
        return ("raises", f"tables {spec}, branches {branch_ops}: branch_update raised {type(ex).__name__}: {ex}")
    ref.branch_update(fb)
    ctx = f"tables {spec} (state {before_real}), branches {branch_ops}"
    # the rule of the property statement, checked directly on the real result
    new = set().union(*[set(b.stores) for b in rb]) - stored_before
    for n in sorted(new):
        target = real.find_ref(n)
        if target is None:
            return ("rule", f"{ctx}: {n!r} was stored in a branch but has no ref afterwards")
        outer = real.parent.find_ref(n) if real.parent is not None else None
        want = (ALIAS, outer) if outer is not None else (RESOLVE, n)
        if real.find_load(target) != want:
            return ("rule", f"{ctx}: {n!r} stored in a branch and not before: load of {target} is {real.find_load(target)}, rule gives {want}")
        if n not in real.stores:
            return ("rule", f"{ctx}: {n!r} stored in a branch is not recorded as stored afterwards")
    for n in sorted(stored_before):
        if real.find_load(real.find_ref(n)) != loads_before[n]:
            return ("rule", f"{ctx}: {n!r} was stored before the if: its load changed from {loads_before[n]} to {real.find_load(real.find_ref(n))}")
    if real_state(real) != ref.state():
        return ("state", f"{ctx}: real state {real_state(real)}, reference {ref.state()}")
    if real.parent is not None and real_state(real.parent) != parent_before:
        return ("frame", f"{ctx}: the parent table was modified")
    for b, f in zip(rb, fb):
        if real_state(b) != f.state():
            return ("frame", f"{ctx}: a branch table was modified")
    return None


def replay_tables(w):
    spec = [(lv, [tuple(o) for o in ops]) for lv, ops in w.get("spec", [])]
    m = w.get("method")
    if m == "branch_update":
        bad = branch_update_case(spec, [[tuple(o) for o in b] for b in w["branches"]])
        return (bool(bad), bad[1] if bad else "agrees with the rule")
    real, ref = build_pair(spec)
    if m == "dump_stores":
        got, want = real.dump_stores(), ref.dump_stores()
        return (got != want or list(got) != sorted_by_chain(real), f"dump_stores() = {got}; rule: {want}")
    if m == "dump_param_targets":
        got, want = real.dump_param_targets(), ref.dump_param_targets()
        return (got != want, f"dump_param_targets() = {got}; rule: {want}")
    return (None, "no oracle")


SYMBOL_TASKS = (
    [cls(wp) for cls in (Store, FindRef, Ref_, FindLoad, DeclareParameter, Load, Copy) for wp in (True, False)]
    + [DefineRef(wp, shape) for wp in (True, False) for shape in ("pair", "nopar", "none")]
    + [Init(wp, g) for wp in (True, False) for g in (True, False)]
    + [NoAlias(), FnTask("C03", "C03.symbols.no_alias.literals", literal_identifiers, "table", lambda w: replay_no_alias(w))]
)
FRAME_TASKS = [FrameInit(True), FrameInit(False), FrameInner(False), FrameInner(True), FrameCopy("copy"), FrameCopy("soft")]
TABLE_TASKS = [BranchUpdateCommutes(True), BranchUpdateCommutes(False), Bounded("C03", "C03.symbols.tables.bounded", bounded_tables, "bounded", replay_tables)]
TASKS = SCOPE_TASKS + SYMBOL_TASKS + TABLE_TASKS + FRAME_TASKS + HUNT_TASKS + tracking_tasks() + [FnTask("C03", "C03.enter_leave_frame", enter_leave_frame, "emission", replay_enter_leave)] + namespace_tasks() + [Bounded("C03", "C03.visitors.find_undeclared", undeclared_bounded, "bounded", replay_undeclared), Bounded("C03", "C03.bounded.escaped_closure", escaped_bounded, "bounded", replay_escaped)] + BOUNDED_TASKS
META = {
    "level": "other",
    "explanation": (
        "Proof of mechanism, not of the end-to-end statement. (1) Every method of idtracking.Symbols is symbolically executed from its source over "
        "unbounded array-encoded tables and an abstract ancestor chain (induction through the contracts of find_ref/find_load) against the reference-table "
        "semantics, with the class invariant (refs defined here are l_<level>_<name>, have a load in the chain, stored names have a ref) preserved; the "
        "identifier built by the real _define_ref is proved injective in (level, name), of the documented shape and never a name generated code uses itself. "
        "(2) branch_update: the real loop body commutes for distinct names (order independence of the set iteration), and the method, dump_stores and "
        "dump_param_targets agree with the rule of the property statement on every small table configuration (bounded, exhaustive). (3) compiler.Frame "
        "__init__/copy/inner/soft: inner() = empty child table one level deeper, soft() = unshared copy of the same level, inner(isolated) = fresh chain. "
        "(4) Emission contracts on the real visit_For/With/FilterBlock/AssignBlock/Scope/Macro/CallBlock/If over all symbolic paths: which child field is "
        "compiled in which frame, bracketed by enter_frame/leave_frame, joined with the fields the real FrameSymbolVisitor/RootVisitor analyse into which "
        "table (marker nodes). (5) Assignment tracking (pop_assign_tracking on every small tracked set x frame kind, visit_Name, visit_For discard, "
        "visit_Assign/AssignBlock bracket, macro export), enter_frame/leave_frame on every small load table, utils.Namespace and the NSRef guard. "
        "(6) Bounded differential stand-in: generated statement trees rendered by the real engine vs. an independent reference interpreter of the documented "
        "scoping rules and vs. their alpha-renamings (Unicode, Python keywords, compiler-internal names). The lemma 'a template is compiled frame by frame "
        "exactly as these mechanisms say, hence renders as the scoping rules define' is argued, not derived."),
    "assumptions": [
        "A1 integers are mathematical; str(int) of a non-negative int is a non-empty digit string and injective (dependency spec)",
        "the ancestors of a table satisfy the class invariant and have smaller levels (induction hypothesis; established by Symbols.__init__ / Frame.inner)",
        "values of kind str / int are not None (engine embedding fact)",
        "Python name mangling of Namespace.__attrs (the contract runs on the source name; checked natively)",
        "emission runs: child visits are holes (modular); Symbols / Frame.inner / enter_frame are used through the specs proved here",
        "Macro / CallBlock emission runs use a concrete parameter list of length 1; namespace guard runs at most 2 references (stated bounds)",
    ],
    "trusted_base": ["pyvc symbolic executor and emission engine", "z3 5.1 / cvc5 1.0.3 (string lemma by cvc5)", "dependency specs: dict / set / str(int) / object.__new__ / sorted / map",
                     "standins/c03_scoping.py reference interpreter (written from docs/templates.rst)"],
}
