"""C03  Statements and variable scoping follow Jinja's scoping rules  (level: other - mechanisms proved,
the end-to-end statement argued from them and probed by a bounded differential stand-in).

Mechanisms under contract (DESIGN section 5, C03):

  C03.symbols.<method>.*       idtracking.Symbols: every method against the reference-table semantics over ARBITRARY
                               (array-encoded, unbounded) tables `refs`, `loads`, `stores` and an arbitrary ancestor chain
                               (the parent is used through the contract of find_ref/find_load: induction over the chain);
                               class invariant INV (pointwise, instantiated at the touched names and at an arbitrary name q):
                                 INV1  refs[n] defined here      =>  refs[n] == "l_<level>_<n>"
                                 INV2  refs[n] defined here      =>  refs[n] is a key of loads here or of an ancestor
                                 INV3  level == parent.level + 1 unless given (Symbols.__init__)
  C03.symbols.no_alias.*       string lemma on the identifier built by the real _define_ref: (level, name) -> ident is injective
                               and never a compiler-internal name; every literal identifier in every emission schema is not of
                               the form l_<digit>...
  C03.symbols.store_local.*    store(n) in a child table defines l_<child level>_<n>, different from every ancestor ref, and its
                               load is alias(<ancestor ref>) when an ancestor knows n
  C03.symbols.branch_update.*  loop-body commutation (result independent of set iteration order) + bounded exhaustive
                               enumeration of the real method against the rule of the property statement
  C03.frames.*                 compiler.Frame.__init__/copy/inner/soft
  C03.visitors.*               FrameSymbolVisitor / RootVisitor: which fields are analysed in which table
  C03.emit.scopes.*            visit_For/With/FilterBlock/AssignBlock/Macro/CallBlock/Scope/OverlayScope/If frame discipline
  C03.assign_tracking.*        push/pop_assign_tracking, visit_Name bookkeeping, visit_For discards loop stores
  C03.enter_leave_frame.*      CodeGenerator.enter_frame / leave_frame
  C03.namespace.*              utils.Namespace, NSRef guard in visit_Assign
  C03.bounded.alpha            differential stand-in: generated templates vs. their alpha-renamings and a reference
                               interpreter of the scoping rules of docs/templates.rst
"""
from __future__ import annotations

import ast
import itertools
import re
import time
import z3

from pyvc.contract import VC, Res, FnTask, Task, Outcome
from pyvc.values import State, Sym, Ref, BoundMethod, HObj, HList, HDict, HSet, Exc, Unsupported, fresh_name, sym, fresh, Event
from pyvc.smt import to_term, model_value, check_sat
from pyvc.interp import Raised
from pyvc import abstract as A
from pyvc import models

import jinja2.idtracking as IDT
import jinja2.compiler as C
import jinja2.nodes as N
import jinja2.utils as U

S_ = z3.StringSort()
B_ = z3.BoolSort()

PARAM, RESOLVE, ALIAS, UNDEF = IDT.VAR_LOAD_PARAMETER, IDT.VAR_LOAD_RESOLVE, IDT.VAR_LOAD_ALIAS, IDT.VAR_LOAD_UNDEFINED

DIGITS = z3.Plus(z3.Range("0", "9"))


def ident(level, name):
    """the documented identifier scheme l_<level>_<name> (src: idtracking docstrings / generated code)"""
    return z3.Concat(z3.StringVal("l_"), models.py_str_int(level), z3.StringVal("_"), name)


def str_int_spec(*levels):
    """dependency spec of str(int) on non-negative ints: a non-empty digit string, injective"""
    out = []
    for a in levels:
        out.append(z3.InRe(models.py_str_int(a), DIGITS))
    for a, b in itertools.combinations(levels, 2):
        out.append((models.py_str_int(a) == models.py_str_int(b)) == (a == b))
    return out


# ------------------------------------------------------------------ abstract `loads` table

class Loads:
    """Model class of a dict[str, tuple[str, str | None]] of unbounded size: arrays dom / kind / has / param."""


def new_loads(st, tag, initial=True, empty=False):
    if empty:
        f = {"dom": z3.K(S_, z3.BoolVal(False)), "kind": z3.K(S_, z3.StringVal("")), "has": z3.K(S_, z3.BoolVal(False)),
             "param": z3.K(S_, z3.StringVal(""))}
    else:
        f = {"dom": z3.Const(fresh_name(tag + "_ldom"), z3.ArraySort(S_, B_)), "kind": z3.Const(fresh_name(tag + "_lkind"), z3.ArraySort(S_, S_)),
             "has": z3.Const(fresh_name(tag + "_lhas"), z3.ArraySort(S_, B_)), "param": z3.Const(fresh_name(tag + "_lparam"), z3.ArraySort(S_, S_))}
    return st.alloc(HObj(Loads, fields=f, path=tag + ".loads"), initial=initial)


def load_value_terms(v):
    """(kind term, has-param term, param term) of a load tuple value"""
    if not (isinstance(v, tuple) and len(v) == 2):
        raise Unsupported(f"load value {v!r} is not a pair")
    k, p = v
    kt = to_term(k, "str")
    if p is None:
        return kt, z3.BoolVal(False), z3.StringVal("")
    return kt, z3.BoolVal(True), to_term(p, "str")


def install_loads(I):
    def setitem(I_, st, args, kwargs, node):
        ref, key, v = args
        h = st.get(ref)
        k = to_term(key, "str")
        kt, ht, pt = load_value_terms(v)
        f = h.fields
        f["dom"], f["kind"], f["has"], f["param"] = z3.Store(f["dom"], k, True), z3.Store(f["kind"], k, kt), z3.Store(f["has"], k, ht), z3.Store(f["param"], k, pt)
        st.written.add((ref.id, "*"))
        st.trace.append(Event("write", "loads.__setitem__", [ref, key, v], lineno=getattr(node, "lineno", None)))
        return [(st, None)]

    def value_at(I_, st, h, k):
        f = h.fields
        out = []
        for s, b in I_.fork_bool(st, z3.Select(f["has"], k)):
            kind = Sym(z3.Select(f["kind"], k), "str")
            out.append((s, (kind, Sym(z3.Select(f["param"], k), "str") if b else None)))
        return out

    def getitem(I_, st, args, kwargs, node):
        ref, key = args
        h = st.get(ref)
        k = to_term(key, "str")
        out = []
        for s, b in I_.fork_bool(st, z3.Select(h.fields["dom"], k)):
            if b:
                out += value_at(I_, s, s.get(ref), k)
            else:
                out += models.raise_(s, KeyError, key, node=node)
        return out

    def contains(I_, st, args, kwargs, node):
        ref, key = args
        return [(st, Sym(z3.Select(st.get(ref).fields["dom"], to_term(key, "str")), "bool"))]

    def copy(I_, st, args, kwargs, node):
        h = st.get(args[0])
        return [(st, st.alloc(HObj(Loads, fields=dict(h.fields), path=h.path + ".copy()")))]

    I.specs["Loads.__setitem__"] = setitem
    I.specs["Loads.__getitem__"] = getitem
    I.specs["Loads.__contains__"] = contains
    I.specs["Loads.copy"] = copy


def loads_terms(st, ref):
    """(dom, kind, has, param) of a loads table: the model class, or a concrete dict (fresh tables built by __init__)"""
    h = st.get(ref)
    if isinstance(h, HObj) and h.cls is Loads:
        f = h.fields
        return f["dom"], f["kind"], f["has"], f["param"]
    if isinstance(h, HDict) and h.concrete:
        dom, kind, has, param = z3.K(S_, z3.BoolVal(False)), z3.K(S_, z3.StringVal("")), z3.K(S_, z3.BoolVal(False)), z3.K(S_, z3.StringVal(""))
        for k, v in h.items.items():
            kt, ht, pt = load_value_terms(v)
            k = to_term(k, "str")
            dom, kind, has, param = z3.Store(dom, k, True), z3.Store(kind, k, kt), z3.Store(has, k, ht), z3.Store(param, k, pt)
        return dom, kind, has, param
    raise Unsupported("loads table of unknown shape")


def dict_terms(st, ref):
    h = st.get(ref)
    if h.concrete:
        dom, val = z3.K(S_, z3.BoolVal(False)), z3.K(S_, z3.StringVal(""))
        for k, v in h.items.items():
            dom, val = z3.Store(dom, to_term(k, "str"), True), z3.Store(val, to_term(k, "str"), to_term(v, "str"))
        return dom, val
    return h.dom, h.val


def set_terms(st, ref):
    h = st.get(ref)
    if h.items is not None:
        dom = z3.K(S_, z3.BoolVal(False))
        for k in h.items:
            dom = z3.Store(dom, to_term(k, "str"), True)
        return dom
    return h.dom


# ------------------------------------------------------------------ symbolic Symbols pre-state

class Tab:
    """An arbitrary Symbols instance: level L >= 0, unbounded tables, optional parent.  The ancestor chain is
    abstract: pknown(n) / pref(n) = the result of parent.find_ref(n), plhas(t) / plkind / plparhas / plparam =
    parent.find_load(t) (contracts of the recursive calls; induction over the chain)."""

    def __init__(self, st, with_parent, tag="self"):
        self.with_parent = with_parent
        self.L = z3.Int(fresh_name(tag + "_level"))
        st.assume(self.L >= 0)
        self.refs = A.adict(st, tag + "_refs", "str", "str")
        hr = st.get(self.refs)
        self.rdom, self.rval = hr.dom, hr.val
        self.sdom = z3.Const(fresh_name(tag + "_stores"), z3.ArraySort(S_, B_))
        self.stores = st.alloc(HSet(dom=self.sdom, size=z3.Int(fresh_name(tag + "_nstores")), kk="str"), initial=True)
        self.loads = new_loads(st, tag)
        self.ldom, self.lkind, self.lhas, self.lparam = loads_terms(st, self.loads)
        self.parent = None
        self.PL = z3.Int(fresh_name(tag + "_parent_level"))
        # contracts of the ancestor chain
        self.pknown = z3.Function(fresh_name("anc_known"), S_, B_)
        self.pref = z3.Function(fresh_name("anc_ref"), S_, S_)
        self.plevel = z3.Function(fresh_name("anc_level_of"), S_, z3.IntSort())
        self.plhas = z3.Function(fresh_name("anc_load_known"), S_, B_)
        self.plkind = z3.Function(fresh_name("anc_load_kind"), S_, S_)
        self.plparhas = z3.Function(fresh_name("anc_load_has_param"), S_, B_)
        self.plparam = z3.Function(fresh_name("anc_load_param"), S_, S_)
        if with_parent:
            st.assume(self.PL >= 0, self.L > self.PL)
            self.parent = st.alloc(HObj(IDT.Symbols, fields={"level": Sym(self.PL, "int")}, path="parent"), initial=True)
        self.ref = st.alloc(HObj(IDT.Symbols, fields={"level": Sym(self.L, "int"), "parent": self.parent, "refs": self.refs,
                                                      "loads": self.loads, "stores": self.stores}, path=tag), initial=True)

    # ---- invariant, pointwise
    def anc_known(self, n):
        return self.pknown(n) if self.with_parent else z3.BoolVal(False)

    def anc_load_known(self, t):
        return self.plhas(t) if self.with_parent else z3.BoolVal(False)

    def inv_at(self, n, rdom=None, rval=None, ldom=None, L=None):
        rdom = self.rdom if rdom is None else rdom
        rval = self.rval if rval is None else rval
        ldom = self.ldom if ldom is None else ldom
        L = self.L if L is None else L
        r = z3.Select(rval, n)
        return z3.Implies(z3.Select(rdom, n), z3.And(r == ident(L, n), z3.Or(z3.Select(ldom, r), self.anc_load_known(r))))

    def anc_inv_at(self, n):
        """the ancestors satisfy INV: what they know is named l_<their level>_<n> with a level below ours, and has a load"""
        if not self.with_parent:
            return z3.BoolVal(True)
        lv = self.plevel(n)
        return z3.Implies(self.pknown(n), z3.And(self.pref(n) == ident(lv, n), lv >= 0, lv <= self.PL, self.plhas(self.pref(n)),
                                                *str_int_spec(lv, self.L)))

    def assume_inv(self, st, *names):
        st.assume(*str_int_spec(self.L))
        st.assume(*typed_not_none())
        for n in names:
            st.assume(self.inv_at(n), self.anc_inv_at(n))

    # ---- reference semantics (chain lookup)
    def find_ref_known(self, n):
        return z3.Or(z3.Select(self.rdom, n), self.anc_known(n))

    def find_ref_val(self, n):
        return z3.If(z3.Select(self.rdom, n), z3.Select(self.rval, n), self.pref(n))

    def post(self, st):
        """(rdom, rval, sdom, ldom, lkind, lhas, lparam) of this table in state st"""
        h = st.get(self.ref)
        rd, rv = dict_terms(st, h.fields["refs"])
        sd = set_terms(st, h.fields["stores"])
        return (rd, rv, sd) + tuple(loads_terms(st, h.fields["loads"]))

    def fields_kept(self, st):
        """level / parent untouched and the three tables are still the same objects"""
        h = st.get(self.ref)
        f = h.fields
        return (f.get("parent") == self.parent if self.parent is not None else f.get("parent") is None) and f.get("refs") == self.refs \
            and f.get("loads") == self.loads and f.get("stores") == self.stores and isinstance(f.get("level"), Sym) and f["level"].t.eq(self.L)


def not_none(term):
    """a str is not None (the engine compares a str-kind value with None through str2obj)"""
    from pyvc.smt import str2obj, host_const
    return str2obj(term) != host_const(None)


def install_object_new(I):
    """object.__new__(cls): a fresh instance without attributes (dependency spec)"""
    def obj_new(I_, st, args, kwargs, node):
        return [(st, st.alloc(HObj(args[0])))]
    I.specs[("fn", id(object.__new__))] = obj_new


def typed_not_none():
    """str / int values are not None (dependency fact about the engine's embedding of typed values into Obj)"""
    from pyvc.smt import str2obj, int2obj, host_const
    x, i = z3.Const("nn_s", S_), z3.Int("nn_i")
    return [z3.ForAll([x], str2obj(x) != host_const(None)), z3.ForAll([i], int2obj(i) != host_const(None))]


def install_parent(I, tab_of):
    """Symbols.find_ref / find_load on the abstract parent = the chain contract; on anything else the real body."""

    def find_ref(I_, st, args, kwargs, node):
        t = tab_of()
        recv = args[0]
        if t.parent is not None and recv == t.parent:
            name = to_term(args[1], "str")
            out = []
            for s, b in I_.fork_bool(st, t.pknown(name)):
                if b:
                    s.assume(not_none(t.pref(name)))
                out.append((s, Sym(t.pref(name), "str") if b else None))
            return out
        return I_.call_closure(st, I_.closure_of_function(IDT.Symbols.find_ref), args, kwargs, node)

    def find_load(I_, st, args, kwargs, node):
        t = tab_of()
        recv = args[0]
        if t.parent is not None and recv == t.parent:
            tg = to_term(args[1], "str")
            out = []
            for s, b in I_.fork_bool(st, t.plhas(tg)):
                if not b:
                    out.append((s, None))
                    continue
                for s2, b2 in I_.fork_bool(s, t.plparhas(tg)):
                    out.append((s2, (Sym(t.plkind(tg), "str"), Sym(t.plparam(tg), "str") if b2 else None)))
            return out
        return I_.call_closure(st, I_.closure_of_function(IDT.Symbols.find_load), args, kwargs, node)

    I.specs["Symbols.find_ref"] = find_ref
    I.specs["Symbols.find_load"] = find_load


def arr_eq(a, b):
    return a == b


class SymVC(VC):
    """Base of the Symbols method contracts."""
    prop = "C03"
    method = ""
    with_parent = True
    timeout_quick = 20000

    def __init__(self, with_parent=True, name=None):
        self.with_parent = with_parent
        self.target = f"jinja2.idtracking:Symbols.{self.method}"
        super().__init__("C03", name or f"C03.symbols.{self.method}[{'child' if with_parent else 'root'}]")

    def configure(self, I):
        install_loads(I)
        install_parent(I, lambda: self.tab)
        install_object_new(I)
        I.inline.update({"jinja2.idtracking:Symbols._define_ref", "jinja2.idtracking:Symbols.ref"})

    def setup(self, I, st):
        self.tab = Tab(st, self.with_parent)
        self.name_ = sym("name", "str")
        self.q = z3.Const("q", S_)
        self.tab.assume_inv(st, self.name_.t, self.q)
        return self.args(), {}

    def args(self):
        return [self.tab.ref, self.name_]

    # generic clauses -----------------------------------------------------------------
    def p_inv(self, pre, out):
        """INV holds at the arbitrary name q in the post-state"""
        if out.raised:
            return None
        t = self.tab
        rd, rv, sd, ld, lk, lh, lp = t.post(out.st)
        return z3.And(t.fields_kept(out.st), t.inv_at(self.q, rd, rv, ld))

    def concretize(self, model, pre, out):
        t = self.tab
        w = {"method": self.method, "with_parent": self.with_parent, "level": model_value(model, t.L),
             "name": model_value(model, self.name_.t)}
        n = self.name_.t
        w["name_in_refs"] = bool(model_value(model, z3.Select(t.rdom, n)))
        w["name_in_stores"] = bool(model_value(model, z3.Select(t.sdom, n)))
        if self.with_parent:
            w["parent_knows_name"] = bool(model_value(model, t.pknown(n)))
            w["parent_level"] = model_value(model, t.PL)
        return w

    def replay(self, w):
        return replay_symbols(w)


def loads_store(t, key, kind, has, param, base=None):
    ld, lk, lh, lp = base if base is not None else (t.ldom, t.lkind, t.lhas, t.lparam)
    kind = kind if z3.is_expr(kind) else to_term(kind, "str")
    param = param if z3.is_expr(param) else to_term(param, "str")
    return (z3.Store(ld, key, True), z3.Store(lk, key, kind), z3.Store(lh, key, has if not isinstance(has, bool) else z3.BoolVal(has)),
            z3.Store(lp, key, param))


def loads_equal(post, want, at=None):
    """extensional equality of loads tables (has/param only matter where defined; param only where has)"""
    ld, lk, lh, lp = post
    wd, wk, wh, wp = want
    k = z3.Const(fresh_name("lk"), S_)
    body = z3.And(z3.Select(ld, k) == z3.Select(wd, k),
                  z3.Implies(z3.Select(wd, k), z3.And(z3.Select(lk, k) == z3.Select(wk, k), z3.Select(lh, k) == z3.Select(wh, k),
                                                      z3.Implies(z3.Select(wh, k), z3.Select(lp, k) == z3.Select(wp, k)))))
    return z3.ForAll([k], body)


def parent_untouched(t, st):
    if t.parent is None:
        return True
    return not any(i == t.parent.id for (i, _f) in st.written)


class Store(SymVC):
    """store(n): n is recorded as stored; unless already referenced here it gets a NEW ref at THIS level whose load is
    alias(<ancestor ref>) when an ancestor knows n, else undefined; everything else unchanged."""
    method = "store"

    def p_returns(self, pre, out):
        return out.returned and out.value is None

    def p_view(self, pre, out):
        if out.raised:
            return None
        t, n = self.tab, self.name_.t
        rd, rv, sd, ld, lk, lh, lp = t.post(out.st)
        new = ident(t.L, n)
        had = z3.Select(t.rdom, n)
        alias = t.anc_known(n)
        want_loads = loads_store(t, new, z3.If(alias, z3.StringVal(ALIAS), z3.StringVal(UNDEF)), alias, t.pref(n))
        return z3.And(
            sd == z3.Store(t.sdom, n, True),
            z3.If(had,
                  z3.And(rd == t.rdom, rv == t.rval, loads_equal((ld, lk, lh, lp), (t.ldom, t.lkind, t.lhas, t.lparam))),
                  z3.And(rd == z3.Store(t.rdom, n, True), z3.Select(rv, n) == new, eq_except(rv, t.rval, rd, n),
                         loads_equal((ld, lk, lh, lp), want_loads))),
            parent_untouched(t, out.st))

    def p_local(self, pre, out):
        """C03.symbols.store_local: an assignment in an inner table never names an ancestor's Python local (it gets
        l_<this level>_<n>, which differs from every ancestor ref), and a name an ancestor knows is ALIASED, not rebound"""
        if out.raised or not self.with_parent:
            return None
        t, n, q = self.tab, self.name_.t, self.q
        rd, rv, sd, ld, lk, lh, lp = t.post(out.st)
        new = z3.Select(rv, n)
        return z3.Implies(z3.Not(z3.Select(t.rdom, n)), z3.And(
            z3.Select(rd, n), new == ident(t.L, n),
            z3.Implies(t.pknown(q), new != t.pref(q)),
            z3.Implies(t.pknown(n), z3.And(new != t.pref(n), z3.Select(ld, new), z3.Select(lk, new) == z3.StringVal(ALIAS),
                                           z3.Select(lh, new), z3.Select(lp, new) == t.pref(n))),
            z3.Implies(z3.Not(t.pknown(n)), z3.And(z3.Select(ld, new), z3.Select(lk, new) == z3.StringVal(UNDEF), z3.Not(z3.Select(lh, new))))))

    posts = [("returns_none", p_returns), ("view", p_view), ("preserves_INV", SymVC.p_inv), ("store_local", p_local)]


def eq_except(a, b, dom, n):
    """arrays a and b agree on every key of dom other than n"""
    k = z3.Const(fresh_name("ek"), S_)
    return z3.ForAll([k], z3.Implies(z3.And(k != n, z3.Select(dom, k)), z3.Select(a, k) == z3.Select(b, k)))


def unchanged(t, st):
    """whole table state as before and nothing written"""
    rd, rv, sd, ld, lk, lh, lp = t.post(st)
    if not t.fields_kept(st):
        return False
    return z3.And(rd == t.rdom, rv == t.rval, sd == t.sdom, loads_equal((ld, lk, lh, lp), (t.ldom, t.lkind, t.lhas, t.lparam)),
                  parent_untouched(t, st), no_writes(t, st))


def no_writes(t, st):
    ids = {t.ref.id, t.refs.id, t.loads.id, t.stores.id} | ({t.parent.id} if t.parent is not None else set())
    return not any(i in ids for (i, _f) in st.written)


class FindRef(SymVC):
    """find_ref(n): the ref of n in the nearest table of the chain that defines it, None when none does; pure."""
    method = "find_ref"

    def p_result(self, pre, out):
        if out.raised:
            return False
        t, n = self.tab, self.name_.t
        if out.value is None:
            return z3.Not(t.find_ref_known(n))
        if not (isinstance(out.value, Sym) and out.value.k == "str"):
            return False
        return z3.And(t.find_ref_known(n), out.value.t == t.find_ref_val(n))

    def p_pure(self, pre, out):
        return unchanged(self.tab, out.st)

    posts = [("nearest_definition", p_result), ("pure", p_pure)]


class Ref_(SymVC):
    """ref(n) = find_ref(n), AssertionError when the chain does not know n; pure."""
    method = "ref"

    def p_result(self, pre, out):
        t, n = self.tab, self.name_.t
        if out.raised:
            return z3.And(out.value.cls is AssertionError, z3.Not(t.find_ref_known(n)))
        if not (isinstance(out.value, Sym) and out.value.k == "str"):
            return False
        return z3.And(t.find_ref_known(n), out.value.t == t.find_ref_val(n))

    def p_pure(self, pre, out):
        return unchanged(self.tab, out.st)

    posts = [("nearest_definition_or_assertion", p_result), ("pure", p_pure)]


def load_tuple_is(v, kind, has, param):
    """z3 condition: the returned load value v (host pair) equals (kind, param if has else None)"""
    if not (isinstance(v, tuple) and len(v) == 2):
        return False
    k, p = v
    conj = [to_term(k, "str") == kind]
    if p is None:
        conj.append(z3.Not(has))
    else:
        conj += [has, to_term(p, "str") == param]
    return z3.And(*conj)


class FindLoad(SymVC):
    """find_load(t): the load instruction of target t in the nearest table of the chain, None when unknown; pure."""
    method = "find_load"

    def p_result(self, pre, out):
        if out.raised:
            return False
        t, n = self.tab, self.name_.t
        here = z3.Select(t.ldom, n)
        if out.value is None:
            return z3.Not(z3.Or(here, t.anc_load_known(n)))
        return z3.If(here, load_tuple_is(out.value, z3.Select(t.lkind, n), z3.Select(t.lhas, n), z3.Select(t.lparam, n)),
                     z3.And(t.anc_load_known(n), load_tuple_is(out.value, t.plkind(n), t.plparhas(n), t.plparam(n))))

    def p_pure(self, pre, out):
        return unchanged(self.tab, out.st)

    posts = [("nearest_definition", p_result), ("pure", p_pure)]


class DefineRef(SymVC):
    """_define_ref(n, load): refs[n] := l_<level>_<n> (returned); loads[that] := load when given; nothing else."""
    method = "_define_ref"

    def __init__(self, with_parent, load):
        self.load_shape = load
        super().__init__(with_parent, f"C03.symbols._define_ref[{'child' if with_parent else 'root'},load={load}]")

    def args(self):
        self.lkind, self.lparam = sym("load_kind", "str"), sym("load_param", "str")
        load = {"none": None, "pair": (self.lkind, self.lparam), "nopar": (self.lkind, None)}[self.load_shape]
        return [self.tab.ref, self.name_, load]

    def p_view(self, pre, out):
        if out.raised:
            return False
        t, n = self.tab, self.name_.t
        rd, rv, sd, ld, lk, lh, lp = t.post(out.st)
        new = ident(t.L, n)
        if self.load_shape == "none":
            want = (t.ldom, t.lkind, t.lhas, t.lparam)
        else:
            want = loads_store(t, new, self.lkind.t, self.load_shape == "pair", self.lparam.t)
        return z3.And(isinstance(out.value, Sym) and out.value.k == "str" and out.value.t == new, sd == t.sdom,
                      rd == z3.Store(t.rdom, n, True), z3.Select(rv, n) == new, eq_except(rv, t.rval, rd, n),
                      loads_equal((ld, lk, lh, lp), want), parent_untouched(t, out.st), t.fields_kept(out.st))

    def p_inv(self, pre, out):
        """INV is preserved exactly because a load is passed (all four call sites do)"""
        if self.load_shape == "none":
            return None
        return SymVC.p_inv(self, pre, out)

    posts = [("view", p_view), ("preserves_INV_given_a_load", p_inv)]


class DeclareParameter(SymVC):
    """declare_parameter(n): n is stored, (re)bound at THIS level with load (param, None); returns the identifier."""
    method = "declare_parameter"

    def p_view(self, pre, out):
        if out.raised:
            return False
        t, n = self.tab, self.name_.t
        rd, rv, sd, ld, lk, lh, lp = t.post(out.st)
        new = ident(t.L, n)
        want = loads_store(t, new, PARAM, False, z3.StringVal(""))
        return z3.And(isinstance(out.value, Sym) and out.value.k == "str" and out.value.t == new, sd == z3.Store(t.sdom, n, True),
                      rd == z3.Store(t.rdom, n, True), z3.Select(rv, n) == new, eq_except(rv, t.rval, rd, n),
                      loads_equal((ld, lk, lh, lp), want), parent_untouched(t, out.st))

    posts = [("view", p_view), ("preserves_INV", SymVC.p_inv)]


class Load(SymVC):
    """load(n): a name the chain already knows is left alone; an unknown one is bound here with load (resolve, n)."""
    method = "load"

    def p_view(self, pre, out):
        if out.raised or out.value is not None:
            return False
        t, n = self.tab, self.name_.t
        rd, rv, sd, ld, lk, lh, lp = t.post(out.st)
        new = ident(t.L, n)
        want = loads_store(t, new, RESOLVE, True, n)
        return z3.And(sd == t.sdom, parent_untouched(t, out.st),
                      z3.If(t.find_ref_known(n),
                            z3.And(rd == t.rdom, rv == t.rval, loads_equal((ld, lk, lh, lp), (t.ldom, t.lkind, t.lhas, t.lparam))),
                            z3.And(rd == z3.Store(t.rdom, n, True), z3.Select(rv, n) == new, eq_except(rv, t.rval, rd, n),
                                   loads_equal((ld, lk, lh, lp), want))))

    posts = [("view", p_view), ("preserves_INV", SymVC.p_inv)]


class Copy(SymVC):
    """copy(): a new table of the same class / level / parent whose three tables are equal but NOT shared."""
    method = "copy"

    def args(self):
        return [self.tab.ref]

    def p_fresh_equal(self, pre, out):
        if out.raised:
            return False
        t, st = self.tab, out.st
        r = out.value
        if not isinstance(r, Ref) or r == t.ref or r.id not in st.allocated:
            return False
        h = st.get(r)
        f = h.fields
        if h.cls is not IDT.Symbols or set(f) != {"level", "parent", "refs", "loads", "stores"}:
            return False
        if f["parent"] != t.parent if t.parent is not None else f["parent"] is not None:
            return False
        for k, src in (("refs", t.refs), ("loads", t.loads), ("stores", t.stores)):
            if not isinstance(f[k], Ref) or f[k] == src or f[k].id not in st.allocated:
                return False  # shares a table with the source
        rd, rv = dict_terms(st, f["refs"])
        sd = set_terms(st, f["stores"])
        return z3.And(to_term(f["level"], "int") == t.L, rd == t.rdom, eq_except(rv, t.rval, rd, z3.StringVal("\0")), sd == t.sdom,
                      loads_equal(loads_terms(st, f["loads"]), (t.ldom, t.lkind, t.lhas, t.lparam)))

    def p_src(self, pre, out):
        return unchanged(self.tab, out.st)

    posts = [("fresh_equal_unshared", p_fresh_equal), ("source_unchanged", p_src)]


class Init(VC):
    """Symbols(parent, level): level = given, else 0 without parent, else parent.level + 1; empty tables; parent kept."""
    prop = "C03"
    target = "jinja2.idtracking:Symbols.__init__"

    def __init__(self, with_parent, given):
        self.with_parent, self.given = with_parent, given
        super().__init__("C03", f"C03.symbols.__init__[{'child' if with_parent else 'root'},level={'given' if given else 'None'}]")

    def setup(self, I, st):
        self.obj = st.alloc(HObj(IDT.Symbols), initial=True)
        self.PL = z3.Int("parent_level")
        self.parent = st.alloc(HObj(IDT.Symbols, fields={"level": Sym(self.PL, "int")}, path="parent"), initial=True) if self.with_parent else None
        self.lv = sym("level", "int")
        st.assume(*typed_not_none())
        return [self.obj, self.parent, self.lv if self.given else None], {}

    def p_post(self, pre, out):
        if out.raised:
            return False
        st = out.st
        f = st.get(self.obj).fields
        if set(f) != {"level", "parent", "refs", "loads", "stores"}:
            return False
        if (f["parent"] != self.parent) if self.parent is not None else (f["parent"] is not None):
            return False
        refs, loads, stores = (st.get(f[k]) if isinstance(f[k], Ref) else None for k in ("refs", "loads", "stores"))
        if not (isinstance(refs, HDict) and refs.concrete and not refs.items and isinstance(loads, HDict) and loads.concrete and not loads.items
                and isinstance(stores, HSet) and stores.items == []):
            return False
        if len({f["refs"].id, f["loads"].id, f["stores"].id}) != 3:
            return False
        want = self.lv.t if self.given else (self.PL + 1 if self.with_parent else z3.IntVal(0))
        return z3.And(to_term(f["level"], "int") == want, not any(self.parent is not None and i == self.parent.id for (i, _x) in st.written))

    posts = [("level_rule_and_empty_tables", p_post)]

    def concretize(self, model, pre, out):
        return {"method": "__init__", "with_parent": self.with_parent, "given": self.given,
                "level": model_value(model, self.lv.t) if self.given else None, "parent_level": model_value(model, self.PL)}

    def replay(self, w):
        return replay_symbols(w)


# ------------------------------------------------------------------ native reference model + replay

class RefSym:
    """Reference semantics of the symbol table, written from the property statement and the docstrings:
    a chain of tables; a name referenced at depth d is the Python local l_<d>_<name>."""

    def __init__(self, parent=None, level=None):
        self.level = level if level is not None else (0 if parent is None else parent.level + 1)
        self.parent, self.refs, self.loads, self.stores = parent, {}, {}, set()

    def chain(self):
        t = self
        while t is not None:
            yield t
            t = t.parent

    def find_ref(self, n):
        return next((t.refs[n] for t in self.chain() if n in t.refs), None)

    def find_load(self, target):
        return next((t.loads[target] for t in self.chain() if target in t.loads), None)

    def ref(self, n):
        r = self.find_ref(n)
        if r is None:
            raise AssertionError(n)
        return r

    def bind(self, n, load):
        self.refs[n] = f"l_{self.level}_{n}"
        self.loads[self.refs[n]] = load
        return self.refs[n]

    def store(self, n):
        self.stores.add(n)
        if n not in self.refs:
            outer = self.parent.find_ref(n) if self.parent is not None else None
            self.bind(n, (ALIAS, outer) if outer is not None else (UNDEF, None))

    def declare_parameter(self, n):
        self.stores.add(n)
        return self.bind(n, (PARAM, None))

    def load(self, n):
        if self.find_ref(n) is None:
            self.bind(n, (RESOLVE, n))

    def copy(self):
        c = RefSym(self.parent, self.level)
        c.refs, c.loads, c.stores = dict(self.refs), dict(self.loads), set(self.stores)
        return c

    def branch_update(self, branches):
        """after an if: the branches' tables are merged in branch order; a name stored in some branch and not before is, after
        the if, maybe-assigned: its load becomes alias(outer) when an enclosing scope knows it, else resolve(name)"""
        new = set().union(*[b.stores for b in branches]) - self.stores
        for b in branches:
            self.refs.update(b.refs)
            self.loads.update(b.loads)
            self.stores |= b.stores
        for n in new:
            outer = self.parent.find_ref(n) if self.parent is not None else None
            self.loads[self.find_ref(n)] = (ALIAS, outer) if outer is not None else (RESOLVE, n)

    def dump_stores(self):
        return {n: self.find_ref(n) for t in self.chain() for n in t.stores}

    def dump_param_targets(self):
        return {t for t, (k, _p) in self.loads.items() if k == PARAM}

    def state(self):
        return (self.level, dict(self.refs), dict(self.loads), set(self.stores))


def real_state(t):
    return (t.level, dict(t.refs), dict(t.loads), set(t.stores))


def build_pair(spec):
    """spec: list of (level or None, [(op, name), ...]) from the root down -> (real table, reference table)"""
    real = ref = None
    for level, ops in spec:
        real, ref = IDT.Symbols(real, level=level), RefSym(ref, level=level)
        for op, n in ops:
            getattr(real, op)(n)
            getattr(ref, op)(n)
    return real, ref


def run_both(real, ref, method, args):
    def run(o):
        try:
            return ("ok", getattr(o, method)(*args))
        except Exception as ex:
            return ("raise", type(ex).__name__)
    return run(real), run(ref)


def replay_symbols(w):
    """Real Symbols vs the reference semantics on the witness state (and on neighbouring states: the witness only fixes the
    facts the verifier's model decided)."""
    m = w.get("method")
    name = w.get("name") or "x"
    if not re.fullmatch(r"[A-Za-z_][A-Za-z0-9_]*", name):
        name = "x"
    problems = []
    if m == "__init__":
        for parent in ((None, IDT.Symbols(level=w.get("parent_level") or 0)) if w.get("with_parent") else (None,)):
            for lv in {w.get("level"), None, 0, 3}:
                real = IDT.Symbols(parent, level=lv)
                want = lv if lv is not None else (0 if parent is None else parent.level + 1)
                if real.level != want or real.parent is not parent or real.refs != {} or real.loads != {} or real.stores != set():
                    problems.append(f"Symbols(parent={'yes' if parent else None}, level={lv}): level={real.level} (rule: {want}), refs={real.refs}, loads={real.loads}, stores={real.stores}")
        return (bool(problems), "; ".join(problems[:3]) or "Symbols.__init__ follows the level rule")
    lv = w.get("level")
    lv = lv if isinstance(lv, int) and 0 <= lv < 50 else 1
    plv = w.get("parent_level")
    plv = plv if isinstance(plv, int) and 0 <= plv < lv else max(0, lv - 1)
    variants = []
    for parent_ops in ([("store", name)], [("load", name)], [("declare_parameter", name)], [], [("store", "other")]):
        for own_ops in ([], [("load", name)], [("store", name)], [("declare_parameter", name)], [("load", "other"), ("store", "z")]):
            spec = ([(plv, parent_ops)] if w.get("with_parent", True) else []) + [(lv if not w.get("with_parent", True) else None, own_ops)]
            variants.append(spec)
    for spec in variants:
        for arg in (name, "other", "fresh"):
            real, ref = build_pair(spec)
            if m in ("store", "load", "declare_parameter", "find_ref", "ref"):
                args = (arg,)
            elif m == "find_load":
                args = (f"l_{real.level}_{arg}",)
            elif m == "_define_ref":
                args = (arg, (ALIAS, "l_0_q"))
            elif m == "copy":
                args = ()
            else:
                return (None, f"no native oracle for {m}")
            if m == "_define_ref":
                got = ("ok", real._define_ref(*args))
                want = ("ok", ref.bind(*args))
            elif m == "copy":
                c = real.copy()
                got = ("ok", real_state(c) + (c.parent is real.parent, c.refs is not real.refs, c.loads is not real.loads, c.stores is not real.stores, type(c) is type(real)))
                want = ("ok", ref.state() + (True, True, True, True, True))
            else:
                got, want = run_both(real, ref, m, args)
            if got != want or real_state(real) != ref.state() or (real.parent is not None and real_state(real.parent) != ref.parent.state()):
                problems.append(f"tables {spec}: {m}{args}: real -> {got}, state {real_state(real)}; reference -> {want}, state {ref.state()}")
    return (bool(problems), "; ".join(problems[:2]) or f"Symbols.{m} agrees with the reference semantics on the witness family")


# ------------------------------------------------------------------ C03.symbols.no_alias

# names that generated code uses for its own purposes (compiler.py: write_commons, visit_Template, visit_For, macro_body,
# visit_Block, visit_Include/Import, CodeGenerator.temporary_identifier; runtime.exported): a template variable's
# Python local must never be one of them
def internal_names():
    import jinja2.runtime as R
    names = {"context", "environment", "missing", "resolve", "undefined", "concat", "cond_expr_undefined", "Undefined", "caller", "macro",
             "loop", "reciter", "loop_render_func", "depth", "fiter", "_loop_vars", "_block_vars", "parent_template", "included_template",
             "included_context", "template", "name", "blocks", "debug_info", "root", "event", "self", "_block_vars", "_get_default_module",
             "_get_default_module_async", "Namespace", "Markup", "escape", "str_join", "identity", "TemplateRuntimeError", "TemplateNotFound",
             "TemplateReference", "LoopContext", "AsyncLoopContext", "Macro", "auto_await", "auto_aiter", "auto_to_list", "markup_join"}
    return sorted(names | set(R.exported) | set(R.async_exported))


IDENT_START = z3.Union(z3.Range("A", "Z"), z3.Range("a", "z"), z3.Re("_"), z3.Range(chr(0x80), chr(0x2FFFF)))
IDENT_RE = z3.Concat(IDENT_START, z3.Star(z3.Union(IDENT_START, z3.Range("0", "9"))))


class NoAlias(VC):
    """The identifier the REAL _define_ref builds for (level, name): injective in (level, name) over identifiers and
    non-negative levels, of the documented shape l_<digits>_<name>, and never a name the generated code uses itself
    (t_<n> temporaries, context, environment, resolve, ...)."""
    prop = "C03"
    target = "jinja2.idtracking:Symbols._define_ref"
    timeout_quick = 30000

    def __init__(self):
        super().__init__("C03", "C03.symbols.no_alias")

    def configure(self, I):
        install_loads(I)

    def setup(self, I, st):
        self.t1, self.t2 = Tab(st, False, "t1"), Tab(st, False, "t2")
        self.n1, self.n2 = sym("name1", "str"), sym("name2", "str")
        st.assume(z3.InRe(self.n1.t, IDENT_RE), z3.InRe(self.n2.t, IDENT_RE), *str_int_spec(self.t1.L, self.t2.L))
        rs = I.call_closure(st, I.closure_of_function(IDT.Symbols._define_ref), [self.t1.ref, self.n1, (ALIAS, "x")], {})
        assert len(rs) == 1 and rs[0][0] is st
        self.id1 = rs[0][1]
        return [self.t2.ref, self.n2, (ALIAS, "x")], {}

    def p_injective(self, pre, out):
        if out.raised or not isinstance(out.value, Sym) or not isinstance(self.id1, Sym):
            return False
        return z3.Implies(self.id1.t == out.value.t, z3.And(self.t1.L == self.t2.L, self.n1.t == self.n2.t))

    def p_shape(self, pre, out):
        if out.raised or not isinstance(out.value, Sym):
            return False
        return z3.InRe(out.value.t, z3.Concat(z3.Re("l_"), DIGITS, z3.Re("_"), IDENT_RE))

    def p_not_internal(self, pre, out):
        if out.raised or not isinstance(out.value, Sym):
            return False
        v = out.value.t
        return z3.And(z3.Not(z3.InRe(v, z3.Concat(z3.Re("t_"), DIGITS))), z3.Not(z3.InRe(v, z3.Concat(z3.Re("block_"), z3.Star(z3.AllChar(S_))))),
                      *[v != z3.StringVal(c) for c in internal_names()])

    posts = [("injective_in_level_and_name", p_injective), ("documented_shape", p_shape), ("never_an_internal_name", p_not_internal)]

    def concretize(self, model, pre, out):
        return {"level1": model_value(model, self.t1.L), "name1": model_value(model, self.n1.t),
                "level2": model_value(model, self.t2.L), "name2": model_value(model, self.n2.t)}

    def replay(self, w):
        return replay_no_alias(w)


def replay_no_alias(w):
    """Native: distinct (level, name) pairs get distinct identifiers, none of them internal; and shadowing templates
    keep inner and outer variables apart."""
    problems = []
    internal = set(internal_names())
    pairs = {(w.get("level1", 0), w.get("name1", "a")), (w.get("level2", 1), w.get("name2", "a"))}
    for lv in (0, 1, 2, 10, 11, 1_0):
        for nm in ("a", "_a", "a_1", "1_a"[2:] + "1", "_1", "context", "l_0_a", "t_1", "é"):
            pairs.add((lv, nm))
    seen = {}
    for lv, nm in sorted((p for p in pairs if isinstance(p[0], int) and p[0] >= 0 and isinstance(p[1], str) and p[1].isidentifier()), key=repr):
        t = IDT.Symbols(level=lv)
        i = t._define_ref(nm, load=(ALIAS, "x"))
        if i in seen and seen[i] != (lv, nm):
            problems.append(f"(level={lv}, name={nm!r}) and (level={seen[i][0]}, name={seen[i][1]!r}) both get the Python local {i!r}")
        seen[i] = (lv, nm)
        if i in internal or re.fullmatch(r"t_\d+|block_.*", i):
            problems.append(f"(level={lv}, name={nm!r}) gets the compiler-internal name {i!r}")
        if not re.fullmatch(rf"l_{lv}_{re.escape(nm)}", i):
            problems.append(f"(level={lv}, name={nm!r}) -> {i!r}, documented l_{lv}_{nm}")
    bad, det = native_scoping()
    if bad:
        problems.append(det)
    return (bool(problems), "; ".join(problems[:3]) or "identifiers are distinct, non-internal and of the documented shape")


# ------------------------------------------------------------------ bounded differential stand-in (end to end)

KNOWN_CLASSES = ("dead-read-changes-output", "for-else-loopcontrol")


def native_scoping(w=None, count=240, seed=11):
    """Native oracle shared by the structural obligations: the documented scoping family, and a small generated corpus
    compared against the reference interpreter and its alpha-renamings (known classes of disagreement excluded)."""
    from standins import c03_scoping as S
    problems = S.doc_family_problems()
    if not problems:
        for i, prog in enumerate(S.programs(seed, count, max_depth=2, max_stmts=3)):
            for d in (S.DATA[i % len(S.DATA)], S.DATA[(i + 1) % len(S.DATA)]):
                for ob, key, det in S.check_program(prog, d, renaming_index=i):
                    if key not in KNOWN_CLASSES:
                        problems.append(f"[{ob}] {det}")
            if len(problems) > 2:
                break
    return (bool(problems), "; ".join(problems[:2])[:1500] or "documented scoping family and generated corpus agree with the scoping rules")


class Bounded(FnTask):
    def finding_key(self, res):
        return (res.witness or {}).get("key", "?")


def bounded_scoping(part, parts):
    def run(task, tier, seed):
        from standins import c03_scoping as S
        count = (160 if tier == "quick" else 2500)
        t0 = time.time()
        cases = 0
        fails = {}
        for i, prog in enumerate(S.programs(1000 * (seed + 1) + part, count, max_depth=3 if i_big(part) else 2, max_stmts=3)):
            for di, d in enumerate(S.DATA):
                cases += 1
                for ob, key, det in S.check_program(prog, d, renaming_index=i + di):
                    cls = key if key in KNOWN_CLASSES else "other"
                    fails.setdefault((ob, cls), []).append((prog, d, key, det))
        task.bound_text = (f"{count} generated statement trees per task (x{parts} tasks; depth <= 3, <= 3 statements per body, names {S.ALL_NAMES}) over "
                           f"if/elif/else, for (else, filter, recursive, break/continue), set, block set, with, macro (defaults), call, filter block, "
                           f"namespace; {len(S.DATA)} data assignments each; one of {len(S.RENAMINGS)} alpha-renamings per case (Unicode, Python keywords, "
                           f"compiler-internal names)")
        task.stats = {"cases": cases, "seconds": round(time.time() - t0, 1)}
        rs = [Res(f"C03.bounded.alpha[{part}]", "bounded-ok", "native", 0, f"{cases} renders equal their alpha-renamed render", "bounded"),
              Res(f"C03.bounded.reference[{part}]", "bounded-ok", "native", 0, f"{cases} renders compared with the reference interpreter of the scoping rules", "bounded")]
        for (ob, cls), lst in sorted(fails.items(), key=repr):
            prog, d, key, det = min(lst, key=lambda x: len(S.source(x[0])))
            small = S.shrink(prog, d, lambda p: (ob, cls) in S.disagreement(p, d, ob), budget=150)
            dets = [x for x in S.check_program(small, d) if x[0] == ob]
            det = dets[0][2] if dets else det
            k = cls if cls != "other" else S.source(small)
            rs.append(Res(f"C03.bounded.{ob}", "refuted", "native", 0, f"{len(lst)} cases like: {det}"[:900], "bounded",
                          {"key": k, "program": small, "data": d, "obligation": ob}))
        return rs
    return run


def i_big(part):
    return part % 2 == 0


def replay_bounded(w):
    from standins import c03_scoping as S
    if not w or "program" not in w:
        return native_scoping(w)
    prog, d = w["program"], w["data"]
    prog = _tuples_to_lists(prog)
    res = [x for x in S.check_program(prog, d) if x[0] == w.get("obligation")]
    if res:
        return (True, res[0][2][:1200])
    return (False, f"{S.source(prog)!r} on {d!r} agrees")


def _tuples_to_lists(x):
    return [_tuples_to_lists(y) for y in x] if isinstance(x, (list, tuple)) else x


N_BOUNDED = 4
BOUNDED_TASKS = [Bounded("C03", f"C03.bounded.scoping[{i}]", bounded_scoping(i, N_BOUNDED), "bounded", replay_bounded) for i in range(N_BOUNDED)]


SYMBOL_TASKS = (
    [cls(wp) for cls in (Store, FindRef, Ref_, FindLoad, DeclareParameter, Load, Copy) for wp in (True, False)]
    + [DefineRef(wp, shape) for wp in (True, False) for shape in ("pair", "nopar", "none")]
    + [Init(wp, g) for wp in (True, False) for g in (True, False)]
    + [NoAlias()]
)
TASKS = SYMBOL_TASKS + BOUNDED_TASKS
META = {"level": "other", "explanation": "", "assumptions": [], "trusted_base": []}
