"""C36  Async rendering always closes the generators it opens.

PROOF-OF-MECHANISM (structure of the emitted code; run-time cancellation semantics assumed, A7).

Obligations
  C36.emit.close.<visitor>   in every emission schema of visit_Block / visit_Include / visit_For (loop filter) /
                             visit_Template (extends tail) a generator object obtained by calling a render function
                             (`X.root_render_func(...)`), a block function (`context.blocks[n][0](...)`) or a generator
                             function defined by the emitted code itself (the loop filter `t_n`) is consumed only
                               - by `yield from <call>`                                   (sync; delegation closes it), or
                               - as  g = <call>; try: [async] for _ in g: ...  finally: await g.aclose() | g.close()
                                 with `async for` <-> `await g.aclose()` and `for` <-> `g.close()`, g used nowhere else.
                             In async mode every other use is a failure.  (The loop filter's generator
                             `t_n(auto_aiter(..))` is iterated directly / handed to AsyncLoopContext: DESIGN F22.)
                             An include without context iterates the stored `_body_stream` list, not a generator.
  C36.emit.close.others.<visitor>   no other visitor emits a call of a render/block function or defines a generator
  C36.emit.await.visit_Filter / visit_Test   async mode: on EVERY path (filter known / unknown at compile time, marked async variant or not, coroutine
                             function or not) the filter / test call is emitted as `await auto_await(<call>)`; sync mode: never awaited
  C36.native.awaited         bounded: filters / tests that return awaitables in every disguise are awaited, no 'never awaited' warning
  C36.generate_async         Template.generate_async: the root generator is created once and iterated only inside
                             `async with aclosing(agen)`; aclosing is contextlib's (dependency spec: closes on normal
                             exit, exception, early close (GeneratorExit) and cancellation)
  C36.render_async           the root generator is consumed by an async comprehension without condition whose element
                             is the loop variable: it is exhausted, or unwound by the exception passing through it
  C36.auto_aiter             auto_aiter creates no generator of its own (it is not a generator function; it returns
                             iterable.__aiter__() or the _IteratorToAsyncIterator wrapper, which holds no frame)
  C36.native                 bounded stand-in: async renders that complete / raise / are closed early after k chunks /
                             are cancelled at the k-th await; sys.set_asyncgen_hooks shows that no async generator is
                             left to the finaliser and no warning is emitted
"""
from __future__ import annotations

import ast
import inspect
import re
import textwrap
import time
import z3

from pyvc.contract import Res, FnTask
from pyvc.emitcheck import EmitTask
from pyvc import emit, extract
from contracts.emit_common import all_visitor_tasks
from contracts.emit_template import TemplateEmitTask, HAVE_EXTENDS, IS_ASYNC

import jinja2.nodes as N

TAG = re.compile(r"\[(\w+):([\w-]+)\]")


# ------------------------------------------------------------------------------------------ the close discipline

def own_yields(fd):
    """does this function definition contain a yield of its own (not in a nested def)?"""
    stack = list(fd.body)
    while stack:
        n = stack.pop()
        if isinstance(n, (ast.Yield, ast.YieldFrom)):
            return True
        if isinstance(n, (ast.FunctionDef, ast.AsyncFunctionDef, ast.Lambda)):
            continue
        stack.extend(ast.iter_child_nodes(n))
    return False


def generator_functions(tree):
    return {fd.name: fd for fd in ast.walk(tree) if isinstance(fd, (ast.FunctionDef, ast.AsyncFunctionDef)) and own_yields(fd)}


def generator_calls(tree, own=True):
    """(call node, kind) for every expression that creates a generator object of the template machinery"""
    gens = generator_functions(tree) if own else {}
    out = []
    for n in ast.walk(tree):
        if not isinstance(n, ast.Call):
            continue
        f = n.func
        if isinstance(f, ast.Attribute) and f.attr == "root_render_func":
            out.append((n, "render"))
        elif isinstance(f, ast.Subscript):
            base = f
            while isinstance(base, ast.Subscript):
                base = base.value
            if isinstance(base, ast.Attribute) and base.attr == "blocks":
                out.append((n, "block"))
        elif isinstance(f, ast.Name) and f.id in gens and f.id not in ("root",) and not f.id.startswith("block_"):
            out.append((n, "loop_filter"))
    return out


def _is_call_of(n, var, meth):
    return (isinstance(n, ast.Call) and isinstance(n.func, ast.Attribute) and n.func.attr == meth and isinstance(n.func.value, ast.Name)
            and n.func.value.id == var and not n.args and not n.keywords)


def check_bracket(body, idx, var, tree):
    """body[idx] is `var = <generator call>`: the next statement must be the try/finally bracket"""
    if idx + 1 >= len(body) or not isinstance(body[idx + 1], ast.Try):
        return "assigned-without-try"
    t = body[idx + 1]
    if t.handlers or t.orelse:
        return "try-with-handlers"
    if len(t.body) != 1 or not isinstance(t.body[0], (ast.For, ast.AsyncFor)):
        return "try-body-not-a-single-loop"
    loop = t.body[0]
    it = loop.iter
    if isinstance(it, ast.Call) and emit.call_name(it) in ("AsyncLoopContext", "LoopContext") and it.args:
        # the loop context wrapper iterates its first argument and holds no generator frame of its own
        it = it.args[0]
    if not (isinstance(it, ast.Name) and it.id == var):
        return "loop-not-over-the-generator"
    if loop.orelse:
        return "loop-with-else"
    if len(t.finalbody) != 1 or not isinstance(t.finalbody[0], ast.Expr):
        return "finally-not-a-single-close"
    fin = t.finalbody[0].value
    if isinstance(loop, ast.AsyncFor):
        if not (isinstance(fin, ast.Await) and _is_call_of(fin.value, var, "aclose")):
            return "async-for-without-await-aclose"
    else:
        if not _is_call_of(fin, var, "close"):
            return "for-without-close"
    # the variable is not used anywhere else (not rebound before the close, not handed out)
    uses = [x for x in ast.walk(tree) if isinstance(x, ast.Name) and x.id == var]
    if len(uses) != 3:
        return "generator-variable-used-elsewhere"
    return None


def close_failures(tree, is_async, is_sync):
    par = emit.parents(tree)
    fails = []
    calls = generator_calls(tree)
    for call, kind in calls:
        p = par.get(call)
        # inside which function is the use: async def => async consumer
        fn = p
        while fn is not None and not isinstance(fn, (ast.FunctionDef, ast.AsyncFunctionDef)):
            fn = par.get(fn)
        if isinstance(p, ast.YieldFrom):
            if is_async or isinstance(fn, ast.AsyncFunctionDef):
                fails.append(f"[{kind}:yield-from-in-async]")
            continue
        if isinstance(p, ast.Assign) and len(p.targets) == 1 and isinstance(p.targets[0], ast.Name) and p.value is call:
            holder = par.get(p)
            placed = False
            for fld in ("body", "orelse", "finalbody"):
                body = getattr(holder, fld, None)
                if isinstance(body, list) and p in body:
                    err = check_bracket(body, body.index(p), p.targets[0].id, tree)
                    placed = True
                    if err:
                        fails.append(f"[{kind}:{err}]")
                    elif is_async and not isinstance(body[body.index(p) + 1].body[0], ast.AsyncFor):
                        fails.append(f"[{kind}:sync-loop-in-async-mode]")
            if not placed:
                fails.append(f"[{kind}:assigned-in-unknown-position]")
            continue
        if isinstance(p, ast.For) and p.iter is call and kind == "loop_filter" and is_sync and not isinstance(fn, ast.AsyncFunctionDef):
            # sync mode: a plain generator iterated by a plain for loop; reference counting closes it (outside the property)
            continue
        if isinstance(p, (ast.For, ast.AsyncFor)) and p.iter is call:
            fails.append(f"[{kind}:iterated-directly-without-close]")
            continue
        if isinstance(p, ast.Call):
            nm = emit.call_name(p) or "call"
            if kind == "loop_filter" and is_sync and nm == "LoopContext":
                continue
            fails.append(f"[{kind}:passed-to-{nm.replace('.', '-')}-without-close]")
            continue
        fails.append(f"[{kind}:used-in-{type(p).__name__}]")
    return fails, calls


def mode_of(sc, fixed_async):
    if fixed_async is not None:
        return fixed_async, not fixed_async
    return sc.holds(IS_ASYNC), sc.holds(z3.Not(IS_ASYNC))


def describe(tags):
    return ["a template generator is not closed by the emitted code " + t for t in tags]


def block_pred(sc, tree, ph, txt):
    if sc.outcome == "raise":
        return [f"visit_Block raises {sc.value!r}"]
    a, s = mode_of(sc, None)
    if not (a or s):
        return ["path does not decide environment.is_async"]
    fails, calls = close_failures(tree, a, s)
    if txt.strip() and [k for _, k in calls] != ["block"]:
        fails.append("[block:not-exactly-one-block-call]")
    return describe(fails)


def include_pred(sc, tree, ph, txt):
    if sc.outcome == "raise":
        # only the abstract-node artefact `node.template.value` of a Const without value
        return [] if getattr(sc.value, "cls", None) is AttributeError else [f"visit_Include raises {sc.value!r}"]
    a, s = mode_of(sc, None)
    if not (a or s):
        return ["path does not decide environment.is_async"]
    fails, calls = close_failures(tree, a, s)
    with_ctx = sc.holds(z3.Bool("node.with_context"))
    without = sc.holds(z3.Not(z3.Bool("node.with_context")))
    if with_ctx:
        if [k for _, k in calls] != ["render"]:
            fails.append("[render:include-with-context-must-create-exactly-one-root-generator]")
    elif without:
        if calls:
            fails.append("[render:include-without-context-creates-a-generator]")
        # iterates the stored list: a plain `for` (or yield from) over `<module>._body_stream`
        iters = [n for n in ast.walk(tree) if isinstance(n, (ast.For, ast.AsyncFor, ast.YieldFrom))]
        ok = False
        for n in iters:
            src = n.iter if not isinstance(n, ast.YieldFrom) else n.value
            if isinstance(src, ast.Attribute) and src.attr == "_body_stream" and not isinstance(n, ast.AsyncFor):
                ok = True
        if not ok:
            fails.append("[render:include-without-context-does-not-iterate-the-stored-body-stream]")
    else:
        fails.append("[render:path-does-not-decide-with_context]")
    return describe(fails)


def for_pred(sc, tree, ph, txt):
    if sc.outcome == "raise":
        return []
    fails, calls = close_failures(tree, True, False)
    if "loop_filter" not in [k for _, k in calls]:
        fails.append("[loop_filter:no-filter-generator-found-although-the-loop-has-a-test]")
    return describe(fails)


def for_sync_pred(sc, tree, ph, txt):
    if sc.outcome == "raise":
        return []
    fails, calls = close_failures(tree, False, True)
    return describe(fails)


def template_pred(sc, tree, ph, txt):
    if sc.outcome == "raise":
        return []
    a, s = mode_of(sc, None)
    if not (a or s):
        return ["path does not decide environment.is_async"]
    fails, calls = close_failures(tree, a, s)
    kinds = [k for _, k in calls]
    if sc.holds(HAVE_EXTENDS):
        if kinds != ["render"]:
            fails.append("[render:extends-tail-must-create-exactly-one-parent-root-generator]")
    elif kinds:
        fails.append("[render:generator-created-without-extends]")
    return describe(fails)


def others_pred(sc, tree, ph, txt):
    if sc.outcome == "raise" or tree is None:
        return []
    if not isinstance(tree, ast.AST):
        return []
    fails = []
    calls = generator_calls(tree)
    if calls:
        fails.append(f"[{calls[0][1]}:generator-created-by-an-unlisted-visitor]")
    return describe(fails)


def replay_filter(w=None):
    problems, n = native_close(only=["for_filter", "for_filter_loopvar", "for_filter_recursive"])
    return (bool(problems), "; ".join(problems[:3]) or f"no generator left unclosed in {n} async scenarios of filtered loops")


# ------------------------------------------------------------------------------------------ filters / tests are awaited

def cfg_callable_model(I):
    """attribute model of a filter / test function object known at compile time: an opaque callable whose
    `jinja_async_variant` marker and coroutine-function-ness are unconstrained (every combination is explored)"""
    import inspect as _inspect
    from pyvc.values import Sym, fresh
    base = I.specs.get("getattr_obj")

    def getattr_obj(I_, st, args, kwargs, node):
        o, name = args[0], args[1]
        if isinstance(o, Sym) and "filter_func" in o.tags and name in ("jinja_async_variant", "jinja_pass_arg", "__wrapped__", "func"):
            if name == "jinja_async_variant":
                s2 = st.fork()
                st.note(f"{o.t}.jinja_async_variant is True")
                s2.note(f"{o.t}.jinja_async_variant is absent")
                st.assume(z3.Bool("func.jinja_async_variant"))
                s2.assume(z3.Not(z3.Bool("func.jinja_async_variant")))
                from pyvc.interp import Raised
                from pyvc.values import Exc
                return [(st, True), (s2, Raised(Exc(AttributeError, (name,), origin=getattr(node, "lineno", None))))]
            return None
        return base(I_, st, args, kwargs, node) if base is not None else None

    I.specs["getattr_obj"] = getattr_obj
    for fn, flag in ((_inspect.iscoroutinefunction, "func.iscoroutinefunction"), (_inspect.isasyncgenfunction, "func.isasyncgenfunction"),
                     (_inspect.isawaitable, "func.isawaitable")):
        def h(I_, st, args, kwargs, node, flag=flag):
            s2 = st.fork()
            st.assume(z3.Bool(flag))
            s2.assume(z3.Not(z3.Bool(flag)))
            return [(st, True), (s2, False)]
        I.specs[("fn", id(fn))] = h
    import asyncio as _asyncio
    I.specs[("fn", id(_asyncio.iscoroutinefunction))] = I.specs[("fn", id(_inspect.iscoroutinefunction))]


def awaited_pred(sc, tree, ph, txt):
    """async mode: the call of the filter / test function is emitted as  await auto_await(<call>)  on every path,
    whatever is known about the callable at compile time (it may return an awaitable without being a coroutine function);
    sync mode: no await"""
    if sc.outcome == "raise":
        return []
    a, s_ = mode_of(sc, None)
    if not (a or s_):
        return ["path does not decide environment.is_async"]

    def is_ft_call(n):
        if not (isinstance(n, ast.Call) and isinstance(n.func, ast.Name)):
            return False
        p = ph.get(n.func.id)
        return isinstance(p, tuple) and p[0] == "ident" and str(p[1]).startswith(("t_filter", "t_test"))

    par = emit.parents(tree)
    calls = [n for n in ast.walk(tree) if is_ft_call(n)]
    fails = []
    if len(calls) != 1:
        fails.append(f"[await:filter-call-count-{len(calls)}]")
    for c in calls:
        p1 = par.get(c)
        p2 = par.get(p1) if p1 is not None else None
        wrapped = isinstance(p1, ast.Call) and emit.call_name(p1) == "auto_await" and p1.args == [c] and not p1.keywords and isinstance(p2, ast.Await)
        if a and not wrapped:
            fails.append("[await:filter-or-test-call-not-awaited] in async mode the result of a filter / test call is used without `await auto_await(...)`: "
                         "a callable that returns an awaitable is never awaited")
        if s_ and (wrapped or any(isinstance(x, ast.Await) for x in ast.walk(tree))):
            fails.append("[await:await-in-sync-mode]")
    return fails


def native_awaited(w=None):
    """async renders with filters / tests that return awaitables in every disguise: the value is awaited, and no
    'coroutine ... was never awaited' warning is emitted"""
    import asyncio
    import functools
    import gc
    import warnings
    from jinja2 import Environment
    problems = []

    async def up(v):
        await asyncio.sleep(0)
        return str(v).upper()

    def deco(f):
        @functools.wraps(f)
        def inner(*a, **k):
            return f(*a, **k)
        return inner

    class Obj:
        async def __call__(self, v):
            return str(v).upper()

    async def is_big(v):
        return v > 1

    variants = {"async def": up, "decorated": deco(up), "lambda": lambda v: up(v), "partial": functools.partial(up), "callable object": Obj()}
    tests = {"async def": is_big, "lambda": lambda v: is_big(v), "decorated": deco(is_big)}
    for kind, f in variants.items():
        for src, want in (("{{ v|f }}", "AB"), ("{{ 'ab'|f }}", "AB"), ("{% if c %}{{ v|f }}{% endif %}", "AB"), ("{{ (v|f)|lower }}", "ab"),
                          ("{% filter f %}ab{% endfilter %}", "AB"), ("{% for x in [v]|map('f') %}{{ x }}{% endfor %}", None)):
            env = Environment(enable_async=True)
            env.filters["f"] = f
            with warnings.catch_warnings(record=True) as ws:
                warnings.simplefilter("always")
                try:
                    out = asyncio.run(env.from_string(src).render_async(v="ab", c=True))
                except Exception as ex:
                    out = f"{type(ex).__name__}: {ex}"
                gc.collect()
            never = [str(x.message) for x in ws if "never awaited" in str(x.message)]
            if want is not None and out != want:
                problems.append(f"[runtime] filter ({kind}) in {src!r}: rendered {out!r} (expected {want!r}); warnings {never[:1]}")
            elif want is not None and never:
                problems.append(f"[fold] filter ({kind}) in {src!r} renders correctly, but compiling it calls the filter on the constant and drops the awaitable: {never[0]}")
    for kind, f in tests.items():
        for src, want in (("{{ v is big }}", "True"), ("{% if v is big %}y{% else %}n{% endif %}", "y"), ("{{ 1 is big }}", "False")):
            env = Environment(enable_async=True)
            env.tests["big"] = f
            with warnings.catch_warnings(record=True) as ws:
                warnings.simplefilter("always")
                try:
                    out = asyncio.run(env.from_string(src).render_async(v=2))
                except Exception as ex:
                    out = f"{type(ex).__name__}: {ex}"
                gc.collect()
            never = [str(x.message) for x in ws if "never awaited" in str(x.message)]
            if out != want:
                problems.append(f"[runtime] test ({kind}) in {src!r}: rendered {out!r} (expected {want!r}); warnings {never[:1]}")
            elif never:
                problems.append(f"[fold] test ({kind}) in {src!r} renders correctly, but compiling it calls the test on the constant and drops the awaitable: {never[0]}")
    # a test applied by select / reject / selectattr / rejectattr (hunt C36_4 = C22_2, filters.async_select_or_reject)
    async def aodd(x):
        await asyncio.sleep(0)
        return x % 2 == 1

    for src, want in (("{{ xs|select('aodd')|join }}", "13"), ("{{ xs|reject('aodd')|join }}", "2"), ("{{ xs|selectattr('real', 'aodd')|join }}", "13")):
        env = Environment(enable_async=True)
        env.tests["aodd"] = aodd
        with warnings.catch_warnings(record=True) as ws:
            warnings.simplefilter("always")
            try:
                out = asyncio.run(env.from_string(src).render_async(xs=[1, 2, 3]))
            except Exception as ex:
                out = f"{type(ex).__name__}: {ex}"
            gc.collect()
        never = [str(x.message) for x in ws if "never awaited" in str(x.message)]
        if out != want or never:
            problems.append(f"[select] async test through {src!r}: rendered {out!r} (expected {want!r}); warnings {never[:1]}")
    if w and w.get("class"):
        problems = [p_ for p_ in problems if p_.startswith(f"[{w['class']}]")]
    return (bool(problems), "; ".join(problems[:3]) or "every filter / test returning an awaitable is awaited in async mode")


def awaited_standin(task, tier, seed):
    t0 = time.time()
    task.bound_text = ("5 kinds of filter callables (async def, functools.wraps-decorated, lambda, functools.partial, object with async __call__) x 6 template forms "
                       "and 3 kinds of test callables x 3 forms, rendered with render_async; oracle: the awaited value is rendered and no "
                       "'coroutine ... was never awaited' RuntimeWarning is emitted")
    rs = []
    for cls, name in (("runtime", "C36.native.awaited.runtime"), ("fold", "C36.native.awaited.constant_fold"), ("select", "C36.native.awaited.select_reject")):
        v, d = native_awaited({"class": cls})
        rs.append(Res(name, "refuted" if v else "bounded-ok", "native", time.time() - t0, d[:700], "bounded", witness={"class": cls} if v else None))
    task.stats = {"seconds": round(time.time() - t0, 2)}
    return rs


def awaited_key(res):
    kinds = sorted(set(re.findall(r"(filter|test) \(([\w ]+)\)", res.detail or "")))
    return res.name.rsplit(".", 1)[-1] + ":" + ",".join(sorted({k for k, _ in kinds}))


def finding_key(res):
    return ",".join(sorted({f"{a}:{b}" for a, b in TAG.findall(res.detail or "")})) or "?"


# ------------------------------------------------------------------------------------------ native oracle

def _track(coro_factory):
    """run an async scenario with asyncgen hooks: -> (finalized-by-hook names, warnings, outcome)"""
    import asyncio
    import gc
    import sys
    import warnings
    finalized, created = [], []

    async def main():
        old = sys.get_asyncgen_hooks()

        def first(ag):
            created.append(ag.__name__)
            if old.firstiter:
                old.firstiter(ag)

        def fin(ag):
            finalized.append(ag.__name__)
            if old.finalizer:
                old.finalizer(ag)

        sys.set_asyncgen_hooks(firstiter=first, finalizer=fin)
        try:
            r = await coro_factory()
            gc.collect()
            await asyncio.sleep(0)
            return r
        finally:
            sys.set_asyncgen_hooks(*old)

    with warnings.catch_warnings(record=True) as ws:
        warnings.simplefilter("always")
        try:
            outcome = asyncio.run(main())
        except BaseException as ex:  # noqa
            outcome = f"raised {type(ex).__name__}"
        gc.collect()
    return finalized, [str(w.message) for w in ws if issubclass(w.category, (RuntimeWarning, ResourceWarning))], outcome, created


class Boom(Exception):
    pass


def _family():
    """(name, templates, context factory).  `main` is rendered."""
    fam = []
    base = {"base": "[{% block a %}A{{ v }}{% endblock %}|{% block b %}B{% endblock %}]",
            "inc": "<{% for y in ys %}{{ y }}{% endfor %}{{ v }}>",
            "lib": "{% macro m(x) %}({{ x }}){% endmacro %}"}
    bodies = {
        "plain": "a{{ v }}b{{ v }}c",
        "for": "{% for x in xs %}{{ x }}{{ v }}{% endfor %}",
        "for_filter": "{% for x in xs if x %}{{ x }}{{ v }}{% endfor %}",
        "for_filter_loopvar": "{% for x in xs if x %}{{ loop.index }}{{ v }}{% endfor %}",
        "for_filter_recursive": "{% for x in xs if x recursive %}{{ x }}{{ v }}{% endfor %}",
        "for_agen": "{% for x in agen() %}{{ x }}{{ v }}{% endfor %}",
        "block": "s{% block a %}in{{ v }}{% for x in xs %}{{ x }}{% endfor %}{% endblock %}e",
        "block_scoped": "{% for x in xs %}{% block a scoped %}{{ x }}{{ v }}{% endblock %}{% endfor %}",
        "extends": "{% extends 'base' %}{% block a %}child{{ v }}{{ super() }}{% endblock %}",
        "extends_dyn": "{% extends parent %}{% block b %}c{{ v }}{% endblock %}",
        "include": "x{% include 'inc' %}y{{ v }}",
        "include_noctx": "x{% include 'inc' without context %}y{{ v }}",
        "include_in_for": "{% for x in xs %}{% include 'inc' %}{% endfor %}",
        "import": "{% import 'lib' as l %}{{ l.m(v) }}{{ v }}",
        "macro_call": "{% macro m(x) %}{{ x }}{{ v }}{% endmacro %}{% call m(1) %}c{% endcall %}{{ m(2) }}",
        "filterblock": "{% filter upper %}a{{ v }}{% block a %}q{{ v }}{% endblock %}{% endfilter %}",
        "set_block": "{% set z %}{% block a %}q{{ v }}{% endblock %}{% endset %}{{ z }}",
    }
    for nm, body in bodies.items():
        t = dict(base)
        t["main"] = body
        fam.append((nm, t))
    return fam


def native_close(w=None, quick=True, only=None):
    """Async renders that complete / raise at the k-th evaluation of {{ v }} / are closed early after k chunks /
    are cancelled at the k-th await: no async generator may be left to the finaliser hook, no warning."""
    import asyncio
    from jinja2 import Environment, DictLoader
    problems = []
    n_runs = 0
    for nm, templates in _family():
        if only and nm not in only:
            continue
        env = Environment(enable_async=True, loader=DictLoader(templates))

        def ctx(raise_at=None, sleep=False):
            count = [0]

            class V:
                def __str__(self_):
                    count[0] += 1
                    if raise_at is not None and count[0] == raise_at:
                        raise Boom()
                    return "v"

            async def agen():
                for i in (1, 2, 3):
                    if sleep:
                        await asyncio.sleep(0)
                    yield i

            class AIter:
                """async data without a generator of its own"""
                def __init__(self_, items):
                    self_.items = list(items)

                def __aiter__(self_):
                    return self_

                async def __anext__(self_):
                    if sleep:
                        await asyncio.sleep(0)
                    if not self_.items:
                        raise StopAsyncIteration
                    return self_.items.pop(0)

            return {"v": V(), "xs": AIter([1, 0, 2]) if sleep else [1, 0, 2], "ys": [7, 8], "parent": "base", "agen": agen}

        scenarios = []
        scenarios.append(("complete", None))
        for k in (1, 2, 3):
            scenarios.append(("raise", k))
        for k in (1, 2, 3, 5):
            scenarios.append(("early", k))
        for k in (1, 2, 3, 5, 8):
            scenarios.append(("cancel", k))
        for mode, k in scenarios:
            tmpl = env.get_template("main")

            async def scenario(mode=mode, k=k, tmpl=tmpl):
                if mode == "complete":
                    return await tmpl.render_async(**ctx())
                if mode == "raise":
                    try:
                        await tmpl.render_async(**ctx(raise_at=k))
                    except Boom:
                        return "boom"
                    return "no-raise"
                if mode == "early":
                    ag = tmpl.generate_async(**ctx())
                    n = 0
                    async for _ in ag:
                        n += 1
                        if n >= k:
                            break
                    await ag.aclose()
                    return f"closed after {n}"
                if mode == "cancel":
                    c = ctx(sleep=True)
                    task = asyncio.ensure_future(tmpl.render_async(**c))
                    for _ in range(k):
                        await asyncio.sleep(0)
                    task.cancel()
                    try:
                        await task
                    except asyncio.CancelledError:
                        return "cancelled"
                    return "finished-before-cancel"

            finalized, warns, outcome, created = _track(scenario)
            n_runs += 1
            # user data generators (agen) are the caller's, not the template's
            left = [g for g in finalized if g != "agen"]
            if left or warns:
                problems.append(f"template {nm!r} ({templates['main']!r}) {mode} k={k}: async generators left to the finaliser hook: {left}; warnings: {warns[:2]}")
    return problems, n_runs


def replay_close(w=None):
    problems, n = native_close()
    return (bool(problems), "; ".join(problems[:3]) or f"no generator left unclosed in {n} async scenarios")


def standin(task, tier, seed):
    t0 = time.time()
    task.bound_text = ("17 templates (blocks, scoped blocks, extends static/dynamic, includes with/without context, imports, macros/call, "
                       "filter and set blocks, loops with filter / loop variable / recursive / async data) x {complete, raise at the k-th "
                       "{{ v }} k<=3, consumer stops after k chunks k in 1,2,3,5, task cancelled at the k-th loop turn k in 1,2,3,5,8}; "
                       "oracle: sys.set_asyncgen_hooks finalizer never called for a template generator, no RuntimeWarning/ResourceWarning")
    by_t = {}
    problems, n = native_close()
    for p in problems:
        nm = p.split("'")[1]
        by_t.setdefault(nm, []).append(p)
    rs = []
    for nm, _ in _family():
        ps = by_t.get(nm, [])
        if ps:
            rs.append(Res(f"C36.native.{nm}", "refuted", "native", 0, ps[0][:600], "bounded", witness={"template": nm}))
        else:
            rs.append(Res(f"C36.native.{nm}", "bounded-ok", "native", 0, "no generator left to the finaliser", "bounded"))
    task.stats = {"scenarios": n, "seconds": round(time.time() - t0, 2)}
    return rs


def standin_replay(w):
    problems, n = native_close(only=[w["template"]] if w and w.get("template") else None)
    return (bool(problems), "; ".join(problems[:2]) or "no generator left unclosed")


def standin_key(res):
    m = re.search(r"left to the finaliser hook: \[([^\]]*)\]", res.detail or "")
    gens = sorted(set(re.findall(r"'(\w+)'", m.group(1)))) if m else []
    gens = sorted({re.sub(r"\d+", "N", g) for g in gens})
    return res.name.split(".")[-1] + ":" + ",".join(gens)


# ------------------------------------------------------------------------------------------ generate_async / render_async

def _fn_ast(qual):
    fn = extract.resolve(qual)
    node, module = extract.function_ast(fn)
    return node, fn


def environment_tasks(task, tier, seed):
    import contextlib
    import jinja2.environment as E
    import jinja2.async_utils as AU
    rs = []

    def row(name, fails):
        rs.append(Res(f"C36.{name}", "refuted" if fails else "discharged", "ast-structure", 0, "; ".join(fails[:3]), "path",
                      witness={"function": name, "failures": fails[:5]} if fails else None))

    # ---- generate_async
    fd, fn = _fn_ast("jinja2.environment:Template.generate_async")
    fails = []
    creates = [n for n in ast.walk(fd) if isinstance(n, ast.Call) and isinstance(n.func, ast.Attribute) and n.func.attr == "root_render_func"]
    if len(creates) != 1:
        fails.append(f"the root generator is created {len(creates)} times")
    else:
        par = emit.parents(fd)
        a = par.get(creates[0])
        if not (isinstance(a, (ast.Assign, ast.AnnAssign)) and isinstance((a.targets[0] if isinstance(a, ast.Assign) else a.target), ast.Name)):
            fails.append("the root generator is not bound to a local name")
        else:
            var = (a.targets[0] if isinstance(a, ast.Assign) else a.target).id
            holder = par.get(a)
            body = holder.body if a in getattr(holder, "body", []) else None
            nxt = body[body.index(a) + 1] if body and body.index(a) + 1 < len(body) else None
            if not isinstance(nxt, ast.AsyncWith):
                fails.append("the statement after creating the root generator is not `async with aclosing(agen)`")
            else:
                it = nxt.items[0].context_expr
                if not (len(nxt.items) == 1 and isinstance(it, ast.Call) and isinstance(it.func, ast.Name) and it.func.id == "aclosing"
                        and len(it.args) == 1 and isinstance(it.args[0], ast.Name) and it.args[0].id == var):
                    fails.append("the root generator is not guarded by aclosing(agen)")
                loops = [n for n in ast.walk(fd) if isinstance(n, (ast.AsyncFor, ast.For)) and isinstance(n.iter, ast.Name) and n.iter.id == var]
                inside = [n for n in ast.walk(nxt) if n in loops]
                if len(loops) != 1 or len(inside) != 1 or not isinstance(loops[0], ast.AsyncFor):
                    fails.append("the root generator is not iterated exactly once, by an async for inside the aclosing block")
                uses = [n for n in ast.walk(fd) if isinstance(n, ast.Name) and n.id == var]
                if len(uses) != 3:
                    fails.append("the root generator escapes (used outside creation, aclosing and the loop)")
    if getattr(E, "aclosing", None) is not contextlib.aclosing:
        fails.append(f"environment.aclosing is {getattr(E, 'aclosing', None)!r}, not contextlib.aclosing")
    if not inspect.isasyncgenfunction(fn):
        fails.append("generate_async is not an async generator function")
    row("generate_async.aclosing", fails)

    # ---- render_async
    fd, fn = _fn_ast("jinja2.environment:Template.render_async")
    fails = []
    creates = [n for n in ast.walk(fd) if isinstance(n, ast.Call) and isinstance(n.func, ast.Attribute) and n.func.attr == "root_render_func"]
    par = emit.parents(fd)
    if len(creates) != 1:
        fails.append(f"the root generator is created {len(creates)} times")
    else:
        c = par.get(creates[0])
        ok = False
        if isinstance(c, ast.comprehension) and c.iter is creates[0] and c.is_async and not c.ifs:
            lc = par.get(c)
            if isinstance(lc, ast.ListComp) and len(lc.generators) == 1 and isinstance(lc.elt, ast.Name) and isinstance(c.target, ast.Name) and lc.elt.id == c.target.id:
                ok = True
        if not ok:
            # alternative accepted form: bound and iterated under aclosing, as in generate_async
            ok = any(isinstance(n, ast.AsyncWith) and any(isinstance(i.context_expr, ast.Call) and getattr(i.context_expr.func, "id", "") == "aclosing" for i in n.items)
                     for n in ast.walk(fd)) and not isinstance(c, ast.comprehension)
        if not ok:
            fails.append("the root generator is neither exhausted by an unconditional async comprehension over it nor guarded by aclosing")
    row("render_async.exhausts", fails)

    # ---- auto_aiter creates no generator of its own
    fails = []
    if inspect.isasyncgenfunction(AU.auto_aiter) or inspect.isgeneratorfunction(AU.auto_aiter):
        fails.append("auto_aiter is a generator function: every `for` would open one more async generator that nothing closes")
    for nm in ("__anext__", "__aiter__"):
        m = getattr(AU._IteratorToAsyncIterator, nm, None)
        if m is None or inspect.isasyncgenfunction(m) or inspect.isgeneratorfunction(m):
            fails.append(f"_IteratorToAsyncIterator.{nm} is missing or a generator function")
    fd, _ = _fn_ast("jinja2.async_utils:auto_aiter")
    rets = [n for n in ast.walk(fd) if isinstance(n, ast.Return)]
    for r in rets:
        v = r.value
        ok = (isinstance(v, ast.Call) and ((isinstance(v.func, ast.Attribute) and v.func.attr == "__aiter__") or
                                            (isinstance(v.func, ast.Name) and v.func.id == "_IteratorToAsyncIterator")))
        if not ok:
            fails.append(f"auto_aiter returns {ast.unparse(v) if v else None}")
    row("auto_aiter.no_generator", fails)

    # ---- make_module_async / _get_default_module_async consume the root generator by an unconditional async comprehension
    for qual in ("jinja2.environment:Template.make_module_async",):
        fd, fn = _fn_ast(qual)
        fails = []
        creates = [n for n in ast.walk(fd) if isinstance(n, ast.Call) and isinstance(n.func, ast.Attribute) and n.func.attr == "root_render_func"]
        par = emit.parents(fd)
        for cr in creates:
            c = par.get(cr)
            if not (isinstance(c, ast.comprehension) and c.is_async and not c.ifs):
                fails.append(f"{qual}: root generator not consumed by an unconditional async comprehension")
        if not creates:
            fails.append(f"{qual}: no root generator found")
        row("make_module_async.exhausts", fails)
    from contracts.emit_template import soften
    return soften(rs, replay_close)


def async_loop_context_table(task, tier, seed):
    """AsyncLoopContext turns some members of LoopContext into coroutines (async properties / methods).  A member it INHERITS
    unchanged that reads one of them synchronously creates a coroutine and drops it ('never awaited' during an async render)."""
    import jinja2.runtime as R
    fails = []
    acls, base = R.AsyncLoopContext, R.LoopContext
    async_names = set()
    for name, raw in acls.__dict__.items():
        f = raw.fget if isinstance(raw, property) else raw
        if inspect.iscoroutinefunction(f) or inspect.isasyncgenfunction(f):
            async_names.add(name)
    if not async_names:
        fails.append("AsyncLoopContext defines no async member (vacuous)")
    for name, raw in base.__dict__.items():
        if name in acls.__dict__:
            continue  # overridden
        f = raw.fget if isinstance(raw, property) else (raw.__func__ if isinstance(raw, (staticmethod, classmethod)) else raw)
        if not inspect.isfunction(f):
            continue
        node, _ = extract.function_ast(f)
        reads = sorted({n.attr for n in ast.walk(node) if isinstance(n, ast.Attribute) and isinstance(n.value, ast.Name) and n.value.id == "self"
                        and n.attr in async_names and isinstance(n.ctx, ast.Load)})
        # calls of async methods through self are reads as well (covered by the attribute test above)
        if reads:
            fails.append(f"[inherited:{name}] AsyncLoopContext inherits LoopContext.{name}, which reads self.{', self.'.join(reads)} synchronously: in async mode that is "
                         "a coroutine, created and never awaited")
    return [Res("C36.runtime.AsyncLoopContext.inherited_members_do_not_read_async_members", "refuted" if fails else "discharged", "table+ast", 0,
                "; ".join(fails[:4])[:900], "table", witness={"failures": fails[:6]} if fails else None)]


def native_loop_object(w=None):
    """async renders that print / measure the loop object: no 'never awaited' warning, no exception"""
    import asyncio
    import gc
    import warnings
    from jinja2 import Environment
    problems = []
    env = Environment(enable_async=True)

    async def agen():
        for i in (1, 2):
            yield i

    for src in ("{% for x in xs %}{{ loop }}{% endfor %}", "{% for x in xs %}{{ loop|string }}{% endfor %}", "{% for x in xs %}{{ '%s'|format(loop) }}{% endfor %}",
                "{% for x in xs %}{{ loop|length }}{% endfor %}", "{% for x in xs %}{{ loop.length }}/{{ loop.index }}{{ loop.revindex }}{{ loop.last }}{% endfor %}",
                "{% for x in xs recursive %}{{ loop }}{% endfor %}"):
        for data_name, xs in (("list", [1, 2]), ("async generator", None)):
            with warnings.catch_warnings(record=True) as ws:
                warnings.simplefilter("always")
                try:
                    out = asyncio.run(env.from_string(src).render_async(xs=xs if xs is not None else agen()))
                except TypeError as ex:
                    out = f"TypeError: {ex}"
                except Exception as ex:
                    out = f"{type(ex).__name__}: {ex}"
                gc.collect()
            never = [str(x.message) for x in ws if "never awaited" in str(x.message)]
            if never or "coroutine object" in out:
                problems.append(f"{src!r} over a {data_name}: {never[:1]}; rendered {out[:80]!r}")
    return (bool(problems), "; ".join(problems[:3]) or "printing / measuring the async loop object creates no un-awaited coroutine")


def loop_object_standin(task, tier, seed):
    t0 = time.time()
    task.bound_text = ("6 templates that print, format or measure `loop` ({{ loop }}, |string, |format, |length, awaited properties, recursive) x {list, async "
                       "generator} rendered with render_async; oracle: no 'coroutine ... was never awaited' warning and no coroutine text in the output")
    v, d = native_loop_object()
    task.stats = {"seconds": round(time.time() - t0, 2)}
    return [Res("C36.native.loop_object", "refuted" if v else "bounded-ok", "native", time.time() - t0, d[:700], "bounded", witness={"family": "loop object"} if v else None)]


def inherited_key(res):
    return ",".join(sorted(set(re.findall(r"\[inherited:(\w+)\]", res.detail or "")))) or "?"


# ------------------------------------------------------------------------------------------ tasks

def _for_fields(recursive):
    def nf(st):
        return {"test": emit.make_node(st, N.Expr, "node.test", kind="expr"), "recursive": recursive}
    return nf


def _mk(task, key_fn=finding_key):
    task.finding_key = key_fn
    return task


OTHERS = [nm for nm in ("Output", "If", "Assign", "AssignBlock", "With", "FilterBlock", "Extends", "Import", "ExprStmt", "Scope", "OverlayScope",
                        "EvalContextModifier", "ScopedEvalContextModifier", "Call", "Filter", "Test", "CondExpr", "Name", "Getattr")]

TASKS = (
    [_mk(EmitTask("C36", "C36.emit.close.visit_Block", "jinja2.compiler:CodeGenerator.visit_Block", N.Block, block_pred, mode="stmts",
                  buffers=(None, "t_buf"), replay_fn=replay_close, min_paths=8)),
     _mk(EmitTask("C36", "C36.emit.close.visit_Include", "jinja2.compiler:CodeGenerator.visit_Include", N.Include, include_pred, mode="stmts",
                  buffers=(None, "t_buf"), replay_fn=replay_close, min_paths=8)),
     _mk(EmitTask("C36", "C36.emit.close.visit_For", "jinja2.compiler:CodeGenerator.visit_For", N.For, for_pred, mode="stmts",
                  buffers=(None,), replay_fn=replay_filter, min_paths=8, env_fields={"is_async": True}, node_fields=_for_fields(False))),
     _mk(EmitTask("C36", "C36.emit.close.visit_For_recursive", "jinja2.compiler:CodeGenerator.visit_For", N.For, for_pred, mode="stmts",
                  buffers=(None,), replay_fn=replay_filter, min_paths=8, env_fields={"is_async": True}, node_fields=_for_fields(True))),
     _mk(TemplateEmitTask("C36", "C36.emit.close.visit_Template", template_pred, replay_fn=replay_close, min_paths=8, n_blocks=1)),
     ]
    + [_mk(t) for t in all_visitor_tasks("C36", "C36.emit.close.others", others_pred, replay_fn=replay_close, only=OTHERS, buffers=(None,), configure=cfg_callable_model)]
    + [_mk(EmitTask("C36", f"C36.emit.await.visit_{nm}", f"jinja2.compiler:CodeGenerator.visit_{nm}", getattr(N, nm), awaited_pred, mode="expr",
                    buffers=(None,), replay_fn=native_awaited, min_paths=8, configure=cfg_callable_model)) for nm in ("Filter", "Test")]
    + [_mk(FnTask("C36", "C36.native.awaited", awaited_standin, "bounded", native_awaited), awaited_key)]
    + [_mk(FnTask("C36", "C36.runtime.AsyncLoopContext", async_loop_context_table, "table", native_loop_object), inherited_key),
       _mk(FnTask("C36", "C36.native.loop_object", loop_object_standin, "bounded", native_loop_object), lambda r: "loop-object")]
    + [FnTask("C36", "C36.environment", environment_tasks, "path", replay_close)]
    + [_mk(FnTask("C36", "C36.native", standin, "bounded", standin_replay), standin_key)]
)

def _feasible(sc):
    from pyvc.smt import check_sat
    return check_sat(list(sc.pc), 20000, 0, use_cvc5=False).status != "unsat"


for _t in TASKS:
    if isinstance(_t, EmitTask) and _t.path_filter is None:
        _t.path_filter = _feasible

META = {
    "level": "other",
    "explanation": "Proof of mechanism: emission contracts on the real visit_Block / visit_Include / visit_For / visit_Template (symbolic "
                   "execution of the code generator): every generator the emitted code creates by calling a render, block or loop-filter "
                   "function is consumed by `yield from` (sync) or inside try/finally with the matching (a)close; no other visitor creates one; "
                   "structural contracts on Template.generate_async (aclosing), render_async / make_module_async (exhaustion) and auto_aiter; "
                   "plus a bounded native stand-in with asyncgen hooks over complete / raising / early-closed / cancelled renders.",
    "assumptions": ["A7 run-time semantics of async generators, aclose(), contextlib.aclosing and task cancellation are CPython's (dependency spec)",
                    "an exception or cancellation raised inside a generator frame finalises that generator (language semantics)",
                    "visit_Template is run with a bound of one block (the block loop body does not depend on the iteration)",
                    "user supplied async iterables are the caller's to close (auto_aiter only calls __aiter__)"],
    "trusted_base": ["pyvc emission engine (symbolic execution of CodeGenerator methods)", "python ast", "contextlib.aclosing", "z3 5.1"],
}
